import CasbinV.Model.Graph
/-!
# The default role managers (casbin/rbac/default_role_manager/role_manager.py), as state machines

Modelled AFTER the repairs F18 (`add_link` does not store a link twice; deleting a link that is not stored is a
silent no-op in every manager), F10 (`delete_link` under a matching
function removes only the grants no remaining link gives) and F23 (`DomainManager.delete_link` under a domain
matching function drops the affected cached managers).

* `RM`  — `RoleManager` and `ConditionalRoleManager` (same state; the conditional class only adds `condHasLink`
  and the link-condition maps, which live on the `Role` objects; `_rebuild` drops them, `clear` of the conditional
  class keeps the functions (`RM.condClear`)).
  The role graph is one edge set: `Role.roles` and `Role.users` are always updated together
  (`add_role`/`remove_role`), so `users` is the inverse of `roles`.
  `nodes` = keys of `all_roles` in insertion order.  Sets are duplicate-free lists whose order is never observed.
* `DM`  — `DomainManager` (per-domain link store, lazily built per-domain cache `rm_map`).
* `CDM` — `ConditionalDomainManager` (only `rm_map`; its `all_links` dict is never written).
* `gFunction`, `buildRoleLinks`, `buildIncrementalRoleLinks` — util/builtin_operators.py, model/assertion.py.

User supplied functions are parameters: a matching function is a total `Name → Name → Bool`
(`match_error_handler` turns a raising function into `False`), a link condition is a total `List String → Bool`.
Core Lean only.
-/
namespace Casbin.RM
open Casbin

abbrev Link := Name × Name
abbrev MatchFn := Name → Name → Bool
abbrev CondFn := List String → Bool
/-- key of the link-condition maps: (user, role, domain); `""` = no domain -/
abbrev CondKey := Name × Name × Name

inductive Err
  | keyError        -- `set.remove` of an absent role (store and graph out of step)
  | domainArity     -- more than one domain argument
  | badRoleDef      -- fewer than two `_` in the role definition
  | shortRule       -- grouping rule shorter than the role definition
  | badOp           -- build_incremental_role_links with an unknown operation
  | indexError      -- g() called with fewer than two arguments
  deriving DecidableEq, Repr

/-! ## sets as lists -/

def insertE {α} [BEq α] (e : α) (es : List α) : List α := if es.contains e then es else es ++ [e]
/-- add every element of `new` (a Python loop of `set.add`) -/
def addAll {α} [BEq α] (new : List α) (es : List α) : List α := new.foldl (fun acc e => insertE e acc) es
def dedup {α} [BEq α] : List α → List α
  | [] => []
  | x :: xs => if xs.contains x then dedup xs else x :: dedup xs
def preds (g : Graph) (r : Name) : List Name := (g.filter (·.2 == r)).map (·.1)

/-- `_has_link`: level-countdown BFS; the frontier is a set; `m` is the matching function used in the
    target test of the conditional manager (`fun _ _ => false` in the plain one) -/
def bfs (m : MatchFn) (g : Graph) (target : Name) : Nat → List Name → Bool
  | 0, _ => false
  | _, [] => false
  | lvl + 1, roles =>
    if roles.any (fun x => x == target || m x target) then true
    else bfs m g target lvl (dedup (roles.flatMap (succs g)))

def noMatch : MatchFn := fun _ _ => false

/-! ## RoleManager / ConditionalRoleManager -/

structure RM where
  maxLevel : Nat := 10
  matchFn : Option MatchFn := none
  allLinks : List Link := []
  nodes : List Name := []
  edges : Graph := []
  condFns : List (CondKey × CondFn) := []
  condParams : List (CondKey × List String) := []

/-- `_matching_fn(str1, str2)` (STR_PATTERN order); no function registered: the call raises inside
    `match_error_handler`, which answers `False` -/
def RM.mtch (s : RM) (key pat : Name) : Bool :=
  match s.matchFn with
  | none => false
  | some f => f key pat

/-- `Role.copy_from`: first the pattern's roles, then the pattern's users (which may by then contain `n`) -/
def copyFrom (n p : Name) (es : Graph) : Graph :=
  let es1 := addAll ((succs es p).map fun x => (n, x)) es
  addAll ((preds es1 p).map fun u => (u, n)) es1

/-- `_get_role`: create the node on first sight, copying roles and users of every existing node it matches
    (`if self.matching_func != None` is folded into `mtch`, which answers `false` when none is registered) -/
def RM.getRole (s : RM) (n : Name) : RM :=
  if s.nodes.contains n then s
  else
    { s with nodes := s.nodes ++ [n],
             edges := (s.nodes.filter fun p => s.mtch n p).foldl (fun es p => copyFrom n p es) s.edges }

/-- the edges `add_link(a, b)` creates beyond `(a, b)`: to `b` from every node matching `a`, from `b` to every node
    matching `b` -/
def RM.extra (s : RM) (a b : Name) : List Link :=
  ((s.nodes.filter fun r => r != a && s.mtch r a).map fun r => (r, b)) ++
  ((s.nodes.filter fun r => r != b && s.mtch r b).map fun r => (b, r))

/-- `add_link` (F18 repaired: the link store is a set). `_get_role` does not read the store, so the model
    updates the store after the two calls. -/
def RM.addLink (s : RM) (a b : Name) : RM :=
  let t := (s.getRole a).getRole b
  { t with allLinks := insertE (a, b) t.allLinks, edges := addAll ((a, b) :: t.extra a b) t.edges }

/-- `_linked` (F10 repair): does a remaining link make `y` a role of `x`, directly or through the matching
    function (the two ways `add_link` creates edges; F35: and the way `_get_role` copies a pattern role's users to a
    name that matches the role pattern) -/
def linked (f : MatchFn) (links : List Link) (x y : Name) : Bool :=
  links.any fun l => (l.2 == y && (l.1 == x || f x l.1)) || (l.2 == x && x != y && f y l.2) ||
    ((l.1 == x || f x l.1) && f y l.2)

/-- the edges `delete_link(a, b)` takes away under a matching function (F10 repaired): every edge the link
    gave — to its user, to the nodes matching its user, from its role to the nodes matching its role, and (F35
    repaired) from its user / the nodes matching its user to the nodes matching its role — unless a remaining link
    still gives it -/
def RM.gone (t : RM) (f : MatchFn) (rest : List Link) (a b : Name) (e : Link) : Bool :=
  ((e.2 == b && t.nodes.contains e.1 && (e.1 == a || f e.1 a)) ||
   (e.1 == b && t.nodes.contains e.2 && e.2 != b && f e.2 b) ||
   (t.nodes.contains e.1 && (e.1 == a || f e.1 a) && e.2 != b && f e.2 b)) && !linked f rest e.1 e.2

/-- the graph part of `delete_link`: without a matching function the edge is removed and a missing edge is the
    `KeyError` of `set.remove`; under one, the edges in `gone` are removed (never an error) -/
def RM.delEdges (t : RM) (rest : List Link) (a b : Name) : Graph × Option Err :=
  match t.matchFn with
  | none =>
    if t.edges.contains (a, b) then (t.edges.filter (· != (a, b)), none) else (t.edges, some .keyError)
  | some f => (t.edges.filter fun e => !t.gone f rest a b e, none)

/-- `delete_link`. Silent no-op when the link is not stored; otherwise the store is updated first (it stays
    updated when the graph part raises). -/
def RM.deleteLink (s : RM) (a b : Name) : RM × Option Err :=
  if !s.allLinks.contains (a, b) then (s, none)
  else
    let t := (s.getRole a).getRole b
    let rest := t.allLinks.erase (a, b)
    let r := t.delEdges rest a b
    ({ t with allLinks := rest, edges := r.1 }, r.2)

/-- `RoleManager.has_link` (creates both nodes, then BFS with `level <= 0 → False`) -/
def RM.hasLink (s : RM) (u r : Name) : RM × Bool :=
  let s := (s.getRole u).getRole r
  (s, bfs noMatch s.edges r s.maxLevel [u])

def RM.getRoles (s : RM) (n : Name) : RM × List Name :=
  let s := s.getRole n
  (s, succs s.edges n)

def RM.getUsers (s : RM) (n : Name) : RM × List Name :=
  let s := s.getRole n
  (s, preds s.edges n)

/-- `clear`: the link-condition maps live on the Role objects and go with them -/
def RM.clear (s : RM) : RM :=
  { s with allLinks := [], nodes := [], edges := [], condFns := [], condParams := [] }

/-- `ConditionalRoleManager.clear` (after the repair of the reload fail-open): links, graph and stored parameters
    go; the link-condition FUNCTIONS are registered per (user, role, domain) and stay - the Role objects holding one
    are re-created (empty), in their old order. `_rebuild` (add_matching_func) still resets everything: `RM.clear`. -/
def RM.condClear (s : RM) : RM :=
  { s with allLinks := [], nodes := s.nodes.filter (fun n => s.condFns.any fun e => e.1.1 == n), edges := [],
           condParams := [] }

/-- `_rebuild` -/
def RM.rebuild (s : RM) : RM :=
  s.allLinks.foldl (fun t l => t.addLink l.1 l.2) s.clear

/-- `add_matching_func` -/
def RM.addMatchingFunc (s : RM) (f : MatchFn) : RM := ({ s with matchFn := some f }).rebuild

/-! ### conditional part -/

def assocSet {κ β} [BEq κ] (k : κ) (v : β) : List (κ × β) → List (κ × β)
  | [] => [(k, v)]
  | (k', v') :: rest => if k' == k then (k, v) :: rest else (k', v') :: assocSet k v rest

/-- `add_domain_link_condition_func` (`add_link_condition_func` = domain `""`): creates both nodes -/
def RM.addCondFn (s : RM) (u r d : Name) (fn : CondFn) : RM :=
  let s := (s.getRole u).getRole r
  { s with condFns := assocSet (u, r, d) fn s.condFns }

/-- `set_domain_link_condition_func_params` -/
def RM.setCondParams (s : RM) (u r d : Name) (ps : List String) : RM :=
  let s := (s.getRole u).getRole r
  { s with condParams := assocSet (u, r, d) ps s.condParams }

/-- does the edge pass its link condition (none registered: yes) — `get_next_roles` -/
def RM.passes (s : RM) (d : Name) (e : Link) : Bool :=
  match s.condFns.lookup (e.1, e.2, d) with
  | none => true
  | some fn => fn ((s.condParams.lookup (e.1, e.2, d)).getD [])

/-- the edges followed by the conditional search in domain `d` -/
def RM.activeEdges (s : RM) (d : Name) : Graph := s.edges.filter (s.passes d)

/-- `ConditionalRoleManager.has_link`: shortcut first (no node is created then), BFS with `level < 0 → False`,
    i.e. one level more than the plain manager -/
def RM.condHasLink (s : RM) (u r d : Name) : RM × Bool :=
  if u == r || s.mtch u r then (s, true)
  else
    let s := (s.getRole u).getRole r
    (s, bfs s.mtch (s.activeEdges d) r (s.maxLevel + 1) [u])

/-! ## DomainManager -/

structure DM where
  maxLevel : Nat := 10
  /-- `DomainManagerBase.__init__` installs equality as the name matching function -/
  matchFn : MatchFn := fun a b => a == b
  dmatchFn : Option MatchFn := none
  /-- `all_links`: domain ↦ links, insertion-ordered dict -/
  allLinks : List (Name × List Link) := []
  /-- `rm_map` -/
  rmMap : List (Name × RM) := []

def DM.linksOf (s : DM) (d : Name) : List Link := (s.allLinks.lookup d).getD []

/-- `_get_links`: creates the (empty) entry -/
def DM.touch (s : DM) (d : Name) : DM :=
  if (s.allLinks.lookup d).isSome then s else { s with allLinks := s.allLinks ++ [(d, [])] }

/-- the links `DomainManagerBase._get_role_manager` feeds into a new manager: the domain's own, then those of
    every other recorded domain it matches -/
def DM.effLinks (s : DM) (d : Name) : List Link :=
  match s.dmatchFn with
  | none => s.linksOf d
  | some dm => s.linksOf d ++ (s.allLinks.filter fun e => d != e.1 && dm d e.1).flatMap (·.2)

def DM.build (s : DM) (d : Name) : RM :=
  (s.effLinks d).foldl (fun t l => t.addLink l.1 l.2) (({ maxLevel := s.maxLevel } : RM).addMatchingFunc s.matchFn)

/-- `DomainManager._get_role_manager`: cached or built and stored -/
def DM.getRM (s : DM) (d : Name) : DM × RM :=
  match s.rmMap.lookup d with
  | some rm => (s, rm)
  | none => let rm := s.build d; ({ s with rmMap := s.rmMap ++ [(d, rm)] }, rm)

/-- is the cached manager of domain `d` affected by a change recorded for `dp` (`_affected_role_managers`);
    F36 repaired: the manager of `dp` itself always is (it was built from the links of its own domain whether or
    not the domain matching function relates the domain to itself) -/
def DM.affected (s : DM) (d dp : Name) : Bool :=
  match s.dmatchFn with
  | none => d == dp
  | some dm => d == dp || dm d dp

def DM.addLink (s : DM) (a b d : Name) : DM :=
  let s := s.touch d
  let s := { s with allLinks := s.allLinks.map fun (e : Name × List Link) => if e.1 == d then (e.1, insertE (a, b) e.2) else e }
  { s with rmMap := s.rmMap.map fun (e : Name × RM) => if s.affected e.1 d then (e.1, e.2.addLink a b) else e }

/-- apply `delete_link` to the affected cached managers in order, stopping at the first error -/
def deleteInCaches (aff : Name → Bool) (a b : Name) : List (Name × RM) → List (Name × RM) × Option Err
  | [] => ([], none)
  | (d, rm) :: rest =>
    if aff d then
      match rm.deleteLink a b with
      | (rm', some e) => ((d, rm') :: rest, some e)
      | (rm', none) => let (rest', e) := deleteInCaches aff a b rest; ((d, rm') :: rest', e)
    else let (rest', e) := deleteInCaches aff a b rest; ((d, rm) :: rest', e)

/-- the cache part of `DomainManager.delete_link`: under a domain matching function the affected cached managers
    are dropped (F23 repaired; F36: the domain's own manager is always affected); otherwise the cached manager of the domain, if any, deletes the link too -/
def DM.delCaches (s : DM) (a b d : Name) : List (Name × RM) × Option Err :=
  match s.dmatchFn with
  | some dm => (s.rmMap.filter fun e => !(e.1 == d || dm e.1 d), none)
  | none => deleteInCaches (fun d' => d' == d) a b s.rmMap

def DM.deleteLink (s : DM) (a b d : Name) : DM × Option Err :=
  let s := s.touch d
  if !(s.linksOf d).contains (a, b) then (s, none)          -- silent no-op, as in RoleManager (the store entry stays)
  else
    let s := { s with allLinks := s.allLinks.map fun (e : Name × List Link) => if e.1 == d then (e.1, e.2.erase (a, b)) else e }
    let r := s.delCaches a b d
    ({ s with rmMap := r.1 }, r.2)

def assocPut {β} (k : Name) (v : β) (l : List (Name × β)) : List (Name × β) :=
  l.map fun e => if e.1 == k then (k, v) else e

def DM.hasLink (s : DM) (u r d : Name) : DM × Bool :=
  let (s, rm) := s.getRM d
  let (rm', ans) := rm.hasLink u r
  ({ s with rmMap := assocPut d rm' s.rmMap }, ans)

def DM.getRoles (s : DM) (n d : Name) : DM × List Name :=
  let (s, rm) := s.getRM d
  let (rm', ans) := rm.getRoles n
  ({ s with rmMap := assocPut d rm' s.rmMap }, ans)

def DM.getUsers (s : DM) (n d : Name) : DM × List Name :=
  let (s, rm) := s.getRM d
  let (rm', ans) := rm.getUsers n
  ({ s with rmMap := assocPut d rm' s.rmMap }, ans)

def DM.clear (s : DM) : DM := { s with allLinks := [], rmMap := [] }

def DM.addMatchingFunc (s : DM) (f : MatchFn) : DM :=
  { s with matchFn := f, rmMap := s.rmMap.map fun e => (e.1, e.2.addMatchingFunc f) }

def DM.addDomainMatchingFunc (s : DM) (f : MatchFn) : DM :=
  { s with dmatchFn := some f, rmMap := [] }

/-! ## ConditionalDomainManager

`add_link`/`delete_link` go straight to the (stored) per-domain `ConditionalRoleManager`; the inherited
`all_links` dict is never written, so an unknown domain answers from an empty throw-away manager and a domain
matching function has nothing to range over. -/

structure CDM where
  maxLevel : Nat := 10
  matchFn : MatchFn := fun a b => a == b
  rmMap : List (Name × RM) := []

def CDM.fresh (s : CDM) : RM := ({ maxLevel := s.maxLevel } : RM).addMatchingFunc s.matchFn

/-- `_get_conditional_role_manager(domain, store=True)` -/
def CDM.stored (s : CDM) (d : Name) : CDM × RM :=
  match s.rmMap.lookup d with
  | some rm => (s, rm)
  | none => ({ s with rmMap := s.rmMap ++ [(d, s.fresh)] }, s.fresh)

def CDM.addLink (s : CDM) (a b d : Name) : CDM :=
  let (s, rm) := s.stored d
  { s with rmMap := assocPut d (rm.addLink a b) s.rmMap }

def CDM.deleteLink (s : CDM) (a b d : Name) : CDM × Option Err :=
  let (s, rm) := s.stored d
  let (rm', e) := rm.deleteLink a b
  ({ s with rmMap := assocPut d rm' s.rmMap }, e)

/-- `has_link`: the manager of an unknown domain is built but not stored -/
def CDM.hasLink (s : CDM) (u r d : Name) : CDM × Bool :=
  match s.rmMap.lookup d with
  | some rm => let (rm', ans) := rm.condHasLink u r d; ({ s with rmMap := assocPut d rm' s.rmMap }, ans)
  | none => (s, (s.fresh.condHasLink u r d).2)

def CDM.getRoles (s : CDM) (n d : Name) : CDM × List Name :=
  let (s, rm) := s.stored d
  let (rm', ans) := rm.getRoles n
  ({ s with rmMap := assocPut d rm' s.rmMap }, ans)

def CDM.getUsers (s : CDM) (n d : Name) : CDM × List Name :=
  let (s, rm) := s.stored d
  let (rm', ans) := rm.getUsers n
  ({ s with rmMap := assocPut d rm' s.rmMap }, ans)

/-- registration reaches the managers that exist at that moment, all of them -/
def CDM.addCondFn (s : CDM) (u r d : Name) (fn : CondFn) : CDM :=
  { s with rmMap := s.rmMap.map fun e => (e.1, e.2.addCondFn u r d fn) }

def CDM.setCondParams (s : CDM) (u r d : Name) (ps : List String) : CDM :=
  { s with rmMap := s.rmMap.map fun e => (e.1, e.2.setCondParams u r d ps) }

/-- `ConditionalDomainManager.clear`: the per-domain managers stay, emptied, with their registered functions -/
def CDM.clear (s : CDM) : CDM := { s with rmMap := s.rmMap.map fun e => (e.1, e.2.condClear) }

def CDM.addMatchingFunc (s : CDM) (f : MatchFn) : CDM :=
  { s with matchFn := f, rmMap := s.rmMap.map fun e => (e.1, e.2.addMatchingFunc f) }

/-! ## the four classes behind one interface; `g()`; `Assertion.build_role_links` -/

inductive Mgr
  | plain (s : RM)
  | cond (s : RM)
  | domain (s : DM)
  | condDomain (s : CDM)

/-- `_get_domain`: at most one domain argument; none = `""` -/
def getDomain : List Name → Except Err Name
  | [] => .ok ""
  | [d] => .ok d
  | _ => .error .domainArity

/-- `add_link(name1, name2, *domain)`: the plain managers ignore the domain arguments -/
def Mgr.addLink (m : Mgr) (a b : Name) (dom : List Name) : Mgr × Option Err :=
  match m with
  | .plain s => (.plain (s.addLink a b), none)
  | .cond s => (.cond (s.addLink a b), none)
  | .domain s => match getDomain dom with
    | .ok d => (.domain (s.addLink a b d), none)
    | .error e => (m, some e)
  | .condDomain s => match getDomain dom with
    | .ok d => (.condDomain (s.addLink a b d), none)
    | .error e => (m, some e)

def Mgr.deleteLink (m : Mgr) (a b : Name) (dom : List Name) : Mgr × Option Err :=
  match m with
  | .plain s => let (s', e) := s.deleteLink a b; (.plain s', e)
  | .cond s => let (s', e) := s.deleteLink a b; (.cond s', e)
  | .domain s => match getDomain dom with
    | .ok d => let (s', e) := s.deleteLink a b d; (.domain s', e)
    | .error e => (m, some e)
  | .condDomain s => match getDomain dom with
    | .ok d => let (s', e) := s.deleteLink a b d; (.condDomain s', e)
    | .error e => (m, some e)

def Mgr.hasLink (m : Mgr) (u r : Name) (dom : List Name) : Mgr × Except Err Bool :=
  match m with
  | .plain s => let (s', x) := s.hasLink u r; (.plain s', .ok x)
  | .cond s => let (s', x) := s.condHasLink u r (dom.headD ""); (.cond s', .ok x)
  | .domain s => match getDomain dom with
    | .ok d => let (s', x) := s.hasLink u r d; (.domain s', .ok x)
    | .error e => (m, .error e)
  | .condDomain s => match getDomain dom with
    | .ok d => let (s', x) := s.hasLink u r d; (.condDomain s', .ok x)
    | .error e => (m, .error e)

def Mgr.getRoles (m : Mgr) (n : Name) (dom : List Name) : Mgr × Except Err (List Name) :=
  match m with
  | .plain s => let (s', x) := s.getRoles n; (.plain s', .ok x)
  | .cond s => let (s', x) := s.getRoles n; (.cond s', .ok x)
  | .domain s => match getDomain dom with
    | .ok d => let (s', x) := s.getRoles n d; (.domain s', .ok x)
    | .error e => (m, .error e)
  | .condDomain s => match getDomain dom with
    | .ok d => let (s', x) := s.getRoles n d; (.condDomain s', .ok x)
    | .error e => (m, .error e)

def Mgr.getUsers (m : Mgr) (n : Name) (dom : List Name) : Mgr × Except Err (List Name) :=
  match m with
  | .plain s => let (s', x) := s.getUsers n; (.plain s', .ok x)
  | .cond s => let (s', x) := s.getUsers n; (.cond s', .ok x)
  | .domain s => match getDomain dom with
    | .ok d => let (s', x) := s.getUsers n d; (.domain s', .ok x)
    | .error e => (m, .error e)
  | .condDomain s => match getDomain dom with
    | .ok d => let (s', x) := s.getUsers n d; (.condDomain s', .ok x)
    | .error e => (m, .error e)

def Mgr.clear : Mgr → Mgr
  | .plain s => .plain s.clear
  | .cond s => .cond s.condClear
  | .domain s => .domain s.clear
  | .condDomain s => .condDomain s.clear

/-- `generate_g_function(rm)` / `generate_conditional_g_function(crm)`: no manager → equality; two arguments →
    `has_link(n1, n2)`; more → `has_link(n1, n2, str(args[2]))` (further arguments are ignored) -/
def gFunction (rm : Option Mgr) (args : List Name) : Option Mgr × Except Err Bool :=
  match args with
  | n1 :: n2 :: rest =>
    match rm with
    | none => (none, .ok (n1 == n2))
    | some m =>
      let (m', x) := m.hasLink n1 n2 (rest.take 1)
      (some m', x)
  | _ => (rm, .error .indexError)

/-- `value.count("_")` -/
def countUnderscores (value : String) : Nat := value.toList.count '_'

/-- `Assertion.build_role_links`: every rule, cut to the length of the role definition, becomes
    `add_link(*rule[:count])`; stops at the first error, keeping the links made so far -/
def buildRoleLinks (count : Nat) (m : Mgr) : List (List Name) → Mgr × Option Err
  | [] => if count < 2 then (m, some .badRoleDef) else (m, none)
  | rule :: rest =>
    if count < 2 then (m, some .badRoleDef)
    else if rule.length < count then (m, some .shortRule)
    else
      match rule.take count with
      | a :: b :: dom =>
        match m.addLink a b dom with
        | (m', none) => buildRoleLinks count m' rest
        | (m', some e) => (m', some e)
      | _ => (m, some .shortRule)

inductive PolicyOp | add | remove | other
  deriving DecidableEq, Repr

/-- `Assertion.build_incremental_role_links` -/
def buildIncrementalRoleLinks (count : Nat) (op : PolicyOp) (m : Mgr) : List (List Name) → Mgr × Option Err
  | [] => if count < 2 then (m, some .badRoleDef) else (m, none)
  | rule :: rest =>
    if count < 2 then (m, some .badRoleDef)
    else if rule.length < count then (m, some .shortRule)
    else
      match rule.take count with
      | a :: b :: dom =>
        match op with
        | .add => (match m.addLink a b dom with
          | (m', none) => buildIncrementalRoleLinks count op m' rest
          | (m', some e) => (m', some e))
        | .remove => (match m.deleteLink a b dom with
          | (m', none) => buildIncrementalRoleLinks count op m' rest
          | (m', some e) => (m', some e))
        | .other => (m, some .badOp)
      | _ => (m, some .shortRule)

end Casbin.RM
