import CasbinV.Py.Str
/-!
# Model of the bundled persistence code (C10, C12)

* `casbin/persist/adapter.py`                      `load_policy_line`
* `casbin/persist/adapters/file_adapter.py`         `_load_policy_file`, `_save_policy_file` (the async file adapter
  `adapters/asyncio/file_adapter.py` has the same two bodies, character by character)
* `casbin/persist/adapters/string_adapter.py`       `load_policy`, `save_policy` (after repair F08: a missing `p`/`g`
  section is tolerated, as in the file adapter)
* `casbin/persist/adapters/filtered_file_adapter.py` `load_policy`, `load_filtered_policy`, `load_filtered_policy_file`,
  `save_policy`, `is_filtered`, `filter_line`, `split_line`, `filter_words` (after repair F20)
* `casbin/core_enforcer.py`                         `load_policy`, `load_filtered_policy`,
  `load_increment_filtered_policy`, `is_filtered`, `save_policy` (model without priority columns: the two
  `sort_policies_*` calls are the identity there — recorded assumption)

Python → Lean: strings are `List Char`; `model.model[sec][key].policy` for all sections is one `Store` (ordered list of
entries, one per defined key, in the dict's insertion order; a key's section is its first character, as
`Model.load_section` builds them); functions that mutate the model object in place and may raise half-way return
`Store × Option Err` (state reached, exception if any); the policy file's content is a `Str` (the file system, UTF-8
encoding and `"\n"` line ends of text-mode files on POSIX are trusted, not modelled).
Core Lean only (no Mathlib, no proofs).
-/
namespace Casbin.Persist
open Casbin.Py

inductive Err
  | indexError          -- `IndexError` inside `load_policy_line`
  | invalidLine         -- `StringAdapter.load_policy` on the empty string
  | invalidFilter       -- `RuntimeError("invalid filter type")`
  | cannotSaveFiltered  -- `RuntimeError("cannot save a filtered policy")`
  | roleDefinition      -- `RuntimeError("grouping policy elements do not meet role definition")`
  | invalidPath         -- `RuntimeError("invalid file path, file path cannot be empty")`: the policy file is missing
  deriving DecidableEq, Repr, Inhabited

abbrev Rule := List Str

/-! ## `load_policy_line` -/

def isOpen (c : Char) : Bool := c == '[' || c == '('
def isClose (c : Char) : Bool := c == ']' || c == ')'

/-- `tokens[-1] += c` (raises `IndexError` on an empty list) -/
def appendLast : List Str → Char → Except Err (List Str)
  | [], _ => .error .indexError
  | [t], c => .ok [t ++ [c]]
  | t :: u :: ts, c =>
    match appendLast (u :: ts) c with
    | .ok r => .ok (t :: r)
    | .error e => .error e

/-- the `for c in line` loop.  `depth = len(stack)`: the stack's content is never read (`pop()`'s value is dropped,
    only `len(stack) == 0` is tested), so its length is all the state there is. -/
def tokLoop : Str → Nat → List Str → Except Err (List Str)
  | [], _, toks => .ok toks
  | c :: rest, depth, toks =>
    if isOpen c then
      -- stack.append(c); tokens[-1] += c
      match appendLast toks c with
      | .error e => .error e
      | .ok toks' => tokLoop rest (depth + 1) toks'
    else if isClose c then
      -- stack.pop(); tokens[-1] += c
      match depth with
      | 0 => .error .indexError
      | d + 1 =>
        match appendLast toks c with
        | .error e => .error e
        | .ok toks' => tokLoop rest d toks'
    else if c == ',' && depth == 0 then
      tokLoop rest depth (toks ++ [[]])
    else if toks.isEmpty then
      tokLoop rest depth (toks ++ [[c]])
    else
      match appendLast toks c with
      | .error e => .error e
      | .ok toks' => tokLoop rest depth toks'

/-- everything of `load_policy_line` before the model is consulted: `none` = the line is skipped (empty / comment),
    `some (key, rule)` = `tokens[0]`, `tokens[1:]` after `strip`; the two `IndexError`s of `tokens[0]` and `key[0]` -/
def parseLine (line : Str) : Except Err (Option (Str × Rule)) :=
  if line.isEmpty then .ok none
  else if line.take 1 == ['#'] then .ok none
  else
    match tokLoop line 0 [] with
    | .error e => .error e
    | .ok toks =>
      match toks.map strip with
      | [] => .error .indexError            -- tokens[0]
      | [] :: _ => .error .indexError       -- key[0]
      | key :: rule => .ok (some (key, rule))

structure Entry where
  key : Str
  /-- for a key of section `g`: the number of `_` in the role definition; otherwise the number of tokens -/
  arity : Nat
  rules : List Rule
  deriving DecidableEq, Repr, Inhabited

abbrev Store := List Entry

def Entry.sec (e : Entry) : Option Char := e.key.head?

/-- `sec in model.model.keys()` -/
def Store.hasSec (st : Store) (sec : Char) : Bool := st.any fun e => e.sec == some sec
/-- `key in model.model[sec].keys()` -/
def Store.hasKey (st : Store) (key : Str) : Bool := st.any fun e => e.key == key
/-- `model.model[sec][key].policy.append(rule)` -/
def Store.append (st : Store) (key : Str) (rule : Rule) : Store :=
  st.map fun e => if e.key == key then { e with rules := e.rules ++ [rule] } else e
def Store.get (st : Store) (key : Str) : List Rule :=
  match st.find? (·.key == key) with
  | some e => e.rules
  | none => []

def loadPolicyLine (line : Str) (st : Store) : Except Err Store :=
  match parseLine line with
  | .error e => .error e
  | .ok none => .ok st
  | .ok (some (key, rule)) =>
    match key.head? with
    | none => .error .indexError
    | some sec =>
      if !st.hasSec sec then .ok st
      else if !st.hasKey key then .ok st
      else .ok (st.append key rule)

/-- a `for line in …: handler(line, model)` loop over a model object mutated in place -/
def loadLines (f : Str → Store → Except Err Store) : List Str → Store → Store × Option Err
  | [], st => (st, none)
  | l :: ls, st =>
    match f l st with
    | .error e => (st, some e)
    | .ok st' => loadLines f ls st'

/-! ## file adapter / async file adapter -/

/-- `_load_policy_file`: binary `readline()` cuts after every `"\n"`; a last piece without line end is a line too, an
    empty last piece ends the loop (and an empty line is skipped by `load_policy_line` anyway) -/
def loadFile (text : Str) (st : Store) : Store × Option Err :=
  loadLines (fun l st => loadPolicyLine (strip l) st) (splitOn '\n' text) st

/-- `key + ", " + ", ".join(pvals)` -/
def renderLine (key : Str) (r : Rule) : Str := key ++ [',', ' '] ++ join [',', ' '] r

/-- `for key, ast in model.model[sec].items(): for pvals in ast.policy: lines.append(…)` (nothing when the section is
    absent) -/
def secLines (st : Store) (sec : Char) : List Str :=
  st.flatMap fun e => if e.sec == some sec then e.rules.map (renderLine e.key) else []

def saveLines (st : Store) : List Str := secLines st 'p' ++ secLines st 'g'

/-- `_save_policy_file`: every line but the last gets `"\n"` -/
def saveFile (st : Store) : Str := join ['\n'] (saveLines st)

/-! ## string adapter -/

def loadString (text : Str) (st : Store) : Store × Option Err :=
  if text.isEmpty then (st, some .invalidLine)
  else loadLines (fun l st => if l.isEmpty then .ok st else loadPolicyLine l st) (splitOn '\n' text) st

/-- `"".join(line + "\n" …).rstrip("\n")` -/
def saveString (st : Store) : Str :=
  rstripChar '\n' ((saveLines st).flatMap fun l => l ++ ['\n'])

/-! ## filtered file adapter -/

structure Filter where
  P : List Str
  G : List Str
  deriving DecidableEq, Repr, Inhabited

/-- `not (v and v.strip())` -/
def blank (v : Str) : Bool := v.isEmpty || (strip v).isEmpty

/-- the `enumerate(filter)` loop of `filter_words`, `rest = line[i + 1:]`: a non-blank filter value skips the line when
    there is no field at its position or the field differs -/
def filterWordsAux : List Str → List Str → Bool
  | [], _ => false
  | v :: vs, [] => !blank v || filterWordsAux vs []
  | v :: vs, w :: ws => (!blank v && strip v != strip w) || filterWordsAux vs ws

/-- `filter_words` (true = skip the line), after repair F20 (no length guard) -/
def filterWords (line : List Str) (flt : List Str) : Bool := filterWordsAux flt (line.drop 1)

/-- `split_line`: the loader's tokenizer loop, fields stripped (after repair F20 the filter sees the loader's fields) -/
def splitLine (line : Str) : Except Err (List Str) :=
  match tokLoop line 0 [] with
  | .error e => .error e
  | .ok toks => .ok (toks.map strip)

/-- `filter_line` with `filter = [P, G]` (true = skip the line); raises where the tokenizer raises -/
def filterLine (line : Str) (f : Filter) : Except Err Bool :=
  if line.isEmpty || line.take 1 == ['#'] then .ok false
  else
    match splitLine line with
    | .error e => .error e
    | .ok p =>
      match p with
      | [] => .ok true
      | p0 :: _ =>
        if strip p0 == ['g'] then
          if f.G.isEmpty || f.G.all (fun x => (strip x).isEmpty) then .ok false
          else .ok (filterWords p f.G)
        else if strip p0 == ['p'] then .ok (filterWords p f.P)
        else .ok (filterWords p [])

/-- `is_empty_filter` -/
def isEmptyFilter (f : Filter) : Bool :=
  (f.P.isEmpty && f.G.isEmpty) ||
  ((f.P.isEmpty || f.P.all fun x => (strip x).isEmpty) && (f.G.isEmpty || f.G.all fun x => (strip x).isEmpty))

/-- `load_filtered_policy_file` -/
def loadFilteredFile (text : Str) (f : Filter) (st : Store) : Store × Option Err :=
  loadLines
    (fun l st =>
      let l := strip l
      if l.isEmpty then .ok st
      else
        match filterLine l f with
        | .error e => .error e
        | .ok true => .ok st
        | .ok false => loadPolicyLine l st)
    (splitOn '\n' text) st

/-! ## the enforcer with a `FilteredFileAdapter` -/

/-- one `rm.add_link(*rule[:count])` call: the role-definition key and the arguments -/
abbrev Link := Str × List Str

structure EState where
  /-- `e.model`'s policy lists -/
  mem : Store
  /-- `adapter.filtered` (the constructor sets it) -/
  filtered : Bool := true
  /-- content of the policy file -/
  file : Str
  /-- the `add_link` calls the role managers received since they were last cleared -/
  links : List Link := []
  deriving DecidableEq, Repr, Inhabited

/-- `Assertion.build_role_links`: links added before the first too-short rule -/
def linkArgs (key : Str) (count : Nat) : List Rule → List Link × Option Err
  | [] => ([], none)
  | r :: rs =>
    if r.length < count then ([], some .roleDefinition)
    else
      let (ls, e) := linkArgs key count rs
      ((key, r.take count) :: ls, e)

/-- `Model.build_role_links` over the `g` section, after all managers were cleared -/
def buildLinks : Store → List Link × Option Err
  | [] => ([], none)
  | e :: es =>
    if e.sec == some 'g' then
      match linkArgs e.key e.arity e.rules with
      | (ls, some err) => (ls, some err)
      | (ls, none) =>
        let (ls', err) := buildLinks es
        (ls ++ ls', err)
    else buildLinks es

/-- `Policy.clear_policy` -/
def clearPG (m : Store) : Store :=
  m.map fun e => if e.sec == some 'p' || e.sec == some 'g' then { e with rules := [] } else e

/-- `FilteredFileAdapter.load_policy(model)` (repaired, F26a: the flag is reset once the file has been read; an
    exception while reading leaves it as it was) -/
def adapterLoad (s : EState) (m : Store) : EState × Store × Option Err :=
  let (m', e) := loadFile s.file m
  ({ s with filtered := if e.isNone then false else s.filtered }, m', e)

/-- `FilteredFileAdapter.load_filtered_policy(model, filter)`; inside the `try` every exception of the full load
    becomes "invalid filter type" -/
def adapterLoadFiltered (s : EState) (m : Store) : Option Filter → EState × Store × Option Err
  | none => adapterLoad s m
  | some f =>
    if isEmptyFilter f then
      let (s', m', e) := adapterLoad s m
      (s', m', e.map fun _ => Err.invalidFilter)
    else
      match loadFilteredFile s.file f m with
      | (m', some e) => (s, m', some e)
      | (m', none) => ({ s with filtered := true }, m', none)

/-- `CoreEnforcer.load_policy` -/
def loadPolicy (s : EState) : EState × Option Err :=
  match adapterLoad s (clearPG s.mem) with
  | (s1, _, some e) => (s1, some e)
  | (s1, new, none) =>
    match buildLinks new with
    | (_, some e) => ({ s1 with links := (buildLinks s1.mem).1 }, some e)   -- rollback: rebuild from the old model
    | (ls, none) => ({ s1 with mem := new, links := ls }, none)

/-- `CoreEnforcer.load_filtered_policy` / `load_increment_filtered_policy` (`clear` = the former) -/
def loadFilteredGen (clear : Bool) (s : EState) (f : Option Filter) : EState × Option Err :=
  let m0 := if clear then clearPG s.mem else s.mem
  match adapterLoadFiltered s m0 f with
  | (s1, m1, some e) =>
    -- repaired (F26c): `load_filtered_policy` reads into a copy of the model, a failed read leaves memory as it was;
    -- the incremental load appends to the live model, what it had appended stays
    ({ s1 with mem := if clear then s.mem else m1 }, some e)
  | (s1, m1, none) =>
    let (ls, e) := buildLinks m1
    ({ s1 with mem := m1, links := ls }, e)

def loadFiltered := loadFilteredGen true
def loadIncrement := loadFilteredGen false

/-- `CoreEnforcer.save_policy` and `FilteredFileAdapter.save_policy`: the same guard, then the file is rewritten -/
def savePolicy (s : EState) : EState × Option Err :=
  if s.filtered then (s, some .cannotSaveFiltered)
  else ({ s with file := saveFile s.mem }, none)

inductive Op
  | load | loadFiltered (f : Option Filter) | loadIncrement (f : Option Filter) | save | adapterSave
  deriving DecidableEq, Repr, Inhabited

def step (s : EState) : Op → EState × Option Err
  | .load => loadPolicy s
  | .loadFiltered f => loadFiltered s f
  | .loadIncrement f => loadIncrement s f
  | .save => savePolicy s
  | .adapterSave => savePolicy s

def run (s : EState) : List Op → EState
  | [] => s
  | o :: os => run (step s o).1 os

/-! ## the policy file may be missing for a while -/

/-- the enforcer state plus whether the policy file exists (`os.path.isfile(self._file_path)`) -/
structure FState where
  e : EState
  present : Bool := true
  deriving DecidableEq, Repr, Inhabited

inductive FOp
  | unlink | restore | op (o : Op)
  deriving DecidableEq, Repr, Inhabited

/-- with the file missing both adapter loads raise at their first statement (nothing has been touched by then: the
    repaired `load_filtered_policy` reads into a copy, F26c); a permitted save creates the file -/
def stepF (s : FState) : FOp → FState × Option Err
  | .unlink => ({ s with present := false }, none)
  | .restore => ({ s with present := true }, none)
  | .op o =>
    if s.present then
      let (e', r) := step s.e o
      ({ s with e := e' }, r)
    else match o with
      | .load => (s, some .invalidPath)
      | .loadFiltered _ => (s, some .invalidPath)
      | .loadIncrement _ => (s, some .invalidPath)
      | .save | .adapterSave =>
        let (e', r) := savePolicy s.e
        ({ e := e', present := s.present || r.isNone }, r)

def runF (s : FState) : List FOp → FState
  | [] => s
  | o :: os => runF (stepF s o).1 os

end Casbin.Persist
