import CasbinV.Model.Enforcer
/-!
# `load_policy` with its ORDERING step (priority models, subject-priority models)

Sources: `CoreEnforcer.load_policy` (`casbin/core_enforcer.py`) and its twin `AsyncInternalEnforcer.load_policy`
(`casbin/async_internal_enforcer.py`):

    new_model = copy.deepcopy(self.model); new_model.clear_policy()
    try:
        self.adapter.load_policy(new_model)
        new_model.sort_policies_by_subject_hierarchy()          -- may raise
        new_model.sort_policies_by_priority()                   -- may raise
        if self.auto_build_role_links:
            need_to_rebuild = True; clear the managers; new_model.build_role_links(self.rm_map)   -- may raise
        self.model = new_model
    except Exception as e:
        if self.auto_build_role_links and need_to_rebuild: self.build_role_links()   -- rollback relink
        raise e

and `Model.sort_policies_by_priority`, `sort_policies_by_subject_hierarchy`, `get_subject_hierarchy_map`
(`casbin/model/model.py`), *with every way they raise*:

* priority sort (only when the policy definition has a `p_priority` token, index `pi`): the key of a rule is
  `int(x[pi])`, the string itself when `int` raises ValueError (repaired F44: negative priorities are ints) — `IndexError` for a rule without that field (keys are computed for the
  whole list before anything is compared); `sorted` then raises `TypeError` as soon as an `int` key meets a `str`
  key, i.e. exactly when the list mixes both kinds (two adjacent elements of a sorted result have been compared with
  each other).  Homogeneous lists are sorted stably: numerically, resp. by code points.
* subject-hierarchy sort (only when the effect expression is `subjectPriority(p_eft) || deny`): a grouping rule with
  fewer than two fields raises `RuntimeError("policy g expect 2 more params")`, a cyclic hierarchy raises
  `RuntimeError("cycle dependency …")`; the key of a permission rule reads `policy[0]` (and `policy[domain_index]`
  when the definition has a `p_dom` token) — `IndexError` for a rule without it.

Both sorts run BEFORE `need_to_rebuild` is set: a failure there skips the rollback relink - nothing of the live
enforcer has been touched (the sorts work on the deep copy).

The ordering-free `loadCore` of `Model/Enforcer.lean` is the instance `OrdCfg := {}` (Props/C11o `loadOrd_default`).
Domain: ASCII priority fields (`str.isdigit` and `int` accept further Unicode digits, on some of which `int` raises
`ValueError`). Core Lean only.
-/
namespace Casbin.Enf
open Casbin.Policy

/-- what of the model text the ordering step depends on -/
structure OrdCfg where
  /-- index of the token `p_priority` in the policy definition, if any -/
  prioIdx : Option Nat := none
  /-- the effect expression is `subjectPriority(p_eft) || deny` -/
  subjPrio : Bool := false
  /-- index of the token `p_dom` in the policy definition, if any (subject-hierarchy sort only) -/
  domIdx : Option Nat := none
  deriving Repr, Inhabited, DecidableEq

/-- the exceptions of the ordering step -/
inductive OErr
  | indexError   -- a permission rule lacks the field a sort key reads
  | typeError    -- `'<' not supported between instances of 'str' and 'int'` (priorities of both kinds)
  | gShort       -- "policy g expect 2 more params"
  | cycle        -- "cycle dependency in subject hierarchy"
  | fuel         -- never (Props/C07f `hierarchyMap_total`, Props/C11o `orderStore_no_fuel`)
  deriving DecidableEq, Repr, Inhabited

/-- exceptions of `load_policy`: raised while ordering, or by the adapter / while linking (`EErr`) -/
inductive LErr
  | ord (e : OErr)
  | enf (e : EErr)
  deriving DecidableEq, Repr, Inhabited

/-! ## `sort_policies_by_priority` -/

/-- a sort key of the priority sort: Python `int` or `str` -/
inductive PKey | int (n : Int) | str (s : String)
  deriving DecidableEq, Repr, Inhabited

def PKey.isInt : PKey → Bool | .int _ => true | .str _ => false
def PKey.isStr : PKey → Bool | .int _ => false | .str _ => true

/-- the repaired key: `int(x[pi])`, the string itself when `int` raises ValueError (negative priorities are ints) -/
def pkeyOf (pi : Nat) (r : Rule) : Except OErr PKey :=
  match r[pi]? with
  | none => .error .indexError
  | some s => match prioOfString s with
    | some n => .ok (.int n)
    | none => .ok (.str s)

/-- the key list `sorted` computes first (left to right, the first failure raises) -/
def keysOf (pi : Nat) : List Rule → Except OErr (List PKey)
  | [] => .ok []
  | r :: rs =>
    match pkeyOf pi r with
    | .error e => .error e
    | .ok k => match keysOf pi rs with
      | .error e => .error e
      | .ok ks => .ok (k :: ks)

/-- numeric key of a rule of an all-`int` list -/
def natKey (pi : Nat) (r : Rule) : Int := (prioOf pi r).getD 0
/-- string key of a rule of an all-`str` list -/
def strKey (pi : Nat) (r : Rule) : String := r.getD pi ""

/-- stable insertion by a decidable "not greater" test (`le x r` = key x ≤ key r): `r` goes behind every element
    that is not greater = Python's stable `sorted` -/
def insertByLe (le : Rule → Rule → Bool) (r : Rule) : List Rule → List Rule
  | [] => [r]
  | x :: xs => if le x r then x :: insertByLe le r xs else r :: x :: xs

def sortByLe (le : Rule → Rule → Bool) (l : List Rule) : List Rule :=
  l.foldl (fun acc r => insertByLe le r acc) []

def natLe (pi : Nat) (a b : Rule) : Bool := decide (natKey pi a ≤ natKey pi b)
/-- `a ≤ b` on Python strings = not `b < a` (lexicographic by code point) -/
def strLe (pi : Nat) (a b : Rule) : Bool := !decide (strKey pi b < strKey pi a)

/-- `sort_policies_by_priority` for the assertion `p`, total: ordered list or the exception -/
def sortByPriorityE (pi : Nat) (l : List Rule) : Except OErr (List Rule) :=
  match keysOf pi l with
  | .error e => .error e
  | .ok ks =>
    if ks.all PKey.isInt then .ok (sortByLe (natLe pi) l)
    else if ks.all PKey.isStr then .ok (sortByLe (strLe pi) l)
    else .error .typeError

/-! ## `sort_policies_by_subject_hierarchy` -/

/-- one grouping rule as `get_subject_hierarchy_map` reads it: `[child, parent]` (default domain) or
    `[child, parent, domain, …]`; `none` = fewer than two fields -/
def edgeOf : Rule → Option HEdge
  | [c, pa] => some (nameWithDomain "" c, nameWithDomain "" pa)
  | c :: pa :: d :: _ => some (nameWithDomain d c, nameWithDomain d pa)
  | _ => none

/-- the loop over the grouping rules at the head of `get_subject_hierarchy_map` -/
def subjEdges : List Rule → Except OErr (List HEdge)
  | [] => .ok []
  | r :: rs =>
    match edgeOf r with
    | none => .error .gShort
    | some e => match subjEdges rs with
      | .error err => .error err
      | .ok es => .ok (e :: es)

/-- `compare_policy(policy)`: `subject_hierarchy_map.get(name_with_domain(domain, policy[0]), 0)` -/
def subjKeyOf (domIdx : Option Nat) (m : List (String × Nat)) (r : Rule) : Except OErr Nat :=
  match domIdx with
  | none =>
    match r[0]? with
    | none => .error .indexError
    | some sub => .ok (levelOf m (nameWithDomain "" sub))
  | some i =>
    match r[i]?, r[0]? with
    | some d, some sub => .ok (levelOf m (nameWithDomain d sub))
    | _, _ => .error .indexError

/-- is a key computable for every rule? (`sorted` computes all keys first) -/
def subjKeysOk (domIdx : Option Nat) (m : List (String × Nat)) (l : List Rule) : Bool :=
  l.all fun r => match subjKeyOf domIdx m r with | .ok _ => true | .error _ => false

def subjKey (domIdx : Option Nat) (m : List (String × Nat)) (r : Rule) : Nat :=
  match subjKeyOf domIdx m r with | .ok k => k | .error _ => 0

def ofHErr : HErr → OErr | .cycle => .cycle | .fuel => .fuel

/-- `sort_policies_by_subject_hierarchy` for the assertion `p`, total -/
def sortBySubjectE (domIdx : Option Nat) (g p : List Rule) : Except OErr (List Rule) :=
  match subjEdges g with
  | .error e => .error e
  | .ok edges =>
    match hierarchyMap edges with
    | .error e => .error (ofHErr e)
    | .ok m =>
      if subjKeysOk domIdx m p then .ok (sortByKey (subjKey domIdx m) p)
      else .error .indexError

/-! ## the ordering step of `load_policy` -/

/-- `new_model.sort_policies_by_subject_hierarchy()` (returns at once unless the effect is `subjectPriority`) -/
def subjStage (o : OrdCfg) (new : Pol) : Except OErr (List Rule) :=
  if o.subjPrio then sortBySubjectE o.domIdx new.g new.p else .ok new.p

/-- `new_model.sort_policies_by_priority()` (skips an assertion without `p_priority` token) -/
def prioStage (o : OrdCfg) (p1 : List Rule) : Except OErr (List Rule) :=
  match o.prioIdx with
  | none => .ok p1
  | some pi => sortByPriorityE pi p1

/-- `new_model.sort_policies_by_subject_hierarchy(); new_model.sort_policies_by_priority()` on what the adapter
    delivered -/
def orderStore (o : OrdCfg) (new : Pol) : Except OErr Pol :=
  match subjStage o new with
  | .error e => .error e
  | .ok p1 =>
    match prioStage o p1 with
    | .error e => .error e
    | .ok p2 => .ok { new with p := p2 }

/-- `load_policy` from the point where `new_model` is complete (`loadCore` of Model/Enforcer.lean with the new model
    as a parameter; `loadCore cfg s0 = loadCoreFrom cfg s0 s0.store`) -/
def loadCoreFrom (cfg : Cfg) (s0 : St) (new : Pol) : St × Except EErr Ret :=
  if s0.autoBuild then
    match rebuildAll cfg new with
    | .error e =>
      -- rollback: `self.build_role_links()` rebuilds from the old policy
      match rebuildAll cfg s0.pol with
      | .ok l => ({ s0 with links := l }, .error e)
      | .error _ => ({ s0 with links := {} }, .error e)
    | .ok l => ({ s0 with pol := new, links := l }, .ok .unit)
  else ({ s0 with pol := new }, .ok .unit)

def liftE : Except EErr Ret → Except LErr Ret
  | .ok r => .ok r
  | .error e => .error (.enf e)

/-- `load_policy()` of an enforcer whose model orders its rules: adapter (may fail after `failAfter` rules), the two
    sorts on the copy (a failure leaves without rollback: nothing was touched), then links and swap -/
def loadOrd (cfg : Cfg) (o : OrdCfg) (s : St) (failAfter : Option Nat) : St × Except LErr Ret :=
  let s0 := { s with alog := s.alog ++ [.loadPolicy], ev := s.ev ++ [.adapter .loadPolicy] }
  if failsAt failAfter (s.store.p.length + s.store.g.length + s.store.g2.length) then
    (s0, .error (.enf .adapterFailure))
  else
    match orderStore o s.store with
    | .error e => (s0, .error (.ord e))
    | .ok new =>
      let r := loadCoreFrom cfg s0 new
      (r.1, liftE r.2)

/-- calls of an enforcer with an ordering model: every call of `Op` whose in-memory part does not depend on the
    order (`add` / `update` on `p` of a model with `p_priority` insert by priority: those are C07's subject and are
    not in this alphabet when `prioIdx` is set), and the ordering reload -/
inductive OpO
  | base (op : Op)
  | loadOrd (failAfter : Option Nat)
  deriving Repr

def stepO (cfg : Cfg) (o : OrdCfg) (s : St) : OpO → St × Except LErr Ret
  | .base op => let r := step cfg s op; (r.1, liftE r.2)
  | .loadOrd k => loadOrd cfg o s k

def runO (cfg : Cfg) (o : OrdCfg) (s : St) (ops : List OpO) : St := ops.foldl (fun s op => (stepO cfg o s op).1) s

/-! ## decisions of the ordering models -/

/-- the models the ordered reload is stated for: RBAC with an explicit priority column
    (`p = priority, sub, obj, act, eft`, `e = priority(p.eft) || deny`), RBAC with subject priority
    (`p = sub, obj, act, eft`, `e = subjectPriority(p.eft) || deny`), both with the matcher
    `g(r.sub, p.sub) && r.obj == p.obj && r.act == p.act`; and subject priority with domains
    (`examples/subject_priority_model_with_domain.conf`: `r = sub, obj, dom, act`, `p = sub, obj, dom, act, eft`,
    `g = _, _, _`, matcher `g(r.sub, p.sub, r.dom) && r.dom == p.dom && r.obj == p.obj && r.act == p.act`) -/
inductive OShape | prio | subj | subjDom
  deriving DecidableEq, Repr, Inhabited

/-- number of fields before `sub` -/
def OShape.off : OShape → Nat | .prio => 1 | _ => 0
def OShape.pArity : OShape → Nat | .prio => 5 | .subj => 4 | .subjDom => 5
def OShape.rArity : OShape → Nat | .subjDom => 4 | _ => 3
/-- number of `_` of the role definition -/
def OShape.gCount : OShape → Nat | .subjDom => 3 | _ => 2
def OShape.ordCfg : OShape → OrdCfg
  | .prio => { prioIdx := some 0 }
  | .subj => { subjPrio := true }
  | .subjDom => { subjPrio := true, domIdx := some 2 }

def matcherO (sh : OShape) (links : Pol) (req pv : List String) : MVal :=
  match sh with
  | .subjDom =>
    match req, pv with
    | [rs, ro, rd, ra], ps :: po :: pd :: pa :: _ =>
        .bool (hasLinkQ links.g rs ps (some rd) && rd == pd && ro == po && ra == pa)
    | _, _ => .other false
  | sh =>
    match req, pv.drop sh.off with
    | [rs, ro, ra], ps :: po :: pa :: _ => .bool (hasLinkQ links.g rs ps none && ro == po && ra == pa)
    | _, _ => .other false

/-- `enforce(*req)` under the priority effect: the first rule that matches and names an effect decides (C01) - the
    ORDER of the rules is observable through every decision -/
def enforceQO (sh : OShape) (s : St) (req : List String) : Except Err Bool :=
  enforce { kind := .priority, rArity := sh.rArity, pArity := sh.pArity, eftCol := some (sh.pArity - 1) }
    (matcherO sh s.links) s.pol.p req

end Casbin.Enf
