import CasbinV.Model.Effect
import CasbinV.Model.Graph
/-!
# Model of `FastPolicy` (casbin/model/policy_fast.py), `FastModel` (casbin/model/model_fast.py),
  `FastEnforcer.enforce` (casbin/fast_enforcer.py) and of the generic policy code of
  casbin/model/policy.py running over the indexed container and over a plain list

Core Lean only (imports other `CasbinV.Model` files only).  The code is modelled as it is after the
`fix:` commits F14a–F14g (each repair is marked `[F14x]`; the unrepaired variants are kept as
`…Unrepaired` so that `Props/C19` can state the negative witnesses).

Python → Lean
* `_cache : Dict[str, Dict[str, … Set[tuple]]]` with `len(cache_key_order)` dict levels is `Idx n`
  (`n` = number of keys): `Idx 0` = the set of rules of one bucket (duplicate-free list, order not
  observable), `Idx (n+1)` = insertion-ordered association list `key ↦ Idx n`.
* `in_cache(cache, keys)` is `inCache`; `None` is `none`.
* `IndexError` of `item[x]` / `keys[-1]` and `KeyError` of `set.remove` are `PErr.indexError/.keyError`.
-/
namespace Casbin.Fast
open Casbin

abbrev Rule := List String

inductive PErr
  | indexError | keyError | attributeError
  | enf (e : Err)
  deriving DecidableEq, Repr, Inhabited

/-! ## Python `dict` as insertion-ordered association list -/

def alookup {β : Type} (k : String) : List (String × β) → Option β
  | [] => none
  | (k', v) :: rest => if k' == k then some v else alookup k rest

/-- `d[k] = v`: overwrite in place, or append a new key at the end -/
def aset {β : Type} (k : String) (v : β) : List (String × β) → List (String × β)
  | [] => [(k, v)]
  | (k', v') :: rest => if k' == k then (k', v) :: rest else (k', v') :: aset k v rest

/-! ## The nested key index -/

/-- `n` dict levels above a set of rules -/
@[reducible] def Idx : Nat → Type
  | 0 => List Rule
  | n + 1 => List (String × Idx n)

def Idx.empty : (n : Nat) → Idx n
  | 0 => ([] : List Rule)
  | _ + 1 => ([] : List (String × Idx _))

/-- `[item[x] for x in cache_key_order]`; `none` = `IndexError` -/
def keysOf : List Nat → List String → Option (List String)
  | [], _ => some []
  | x :: xs, item =>
    match item[x]?, keysOf xs item with
    | some v, some vs => some (v :: vs)
    | _, _ => none

/-- `in_cache(cache, keys)` (policy_fast.py:19-25), called with `len(keys)` = number of levels -/
def inCache : (n : Nat) → Idx n → List String → Option (List Rule)
  | 0, rs, _ => some rs
  | _ + 1, _, [] => none
  | n + 1, kids, k :: ks =>
    match alookup k (kids : List (String × Idx n)) with
    | none => none
    | some sub => inCache n sub ks

/-- `set.add` -/
def setAdd (rs : List Rule) (r : Rule) : List Rule := if rs.contains r then rs else rs ++ [r]

/-- `if not exists: return True`, then `set.remove` (`KeyError` when absent) -/
def setRemove (rs : List Rule) (r : Rule) : Except PErr (List Rule) :=
  if rs.isEmpty then .ok rs
  else if rs.contains r then .ok (rs.erase r)
  else .error .keyError

/-- the walk of `FastPolicy.append`: create missing dicts / the set, then `set.add(tuple(item))` -/
def idxInsert : (n : Nat) → Idx n → List String → Rule → Idx n
  | 0, rs, _, r => setAdd rs r
  | _ + 1, kids, [], _ => kids
  | n + 1, kids, k :: ks, r =>
    match alookup k (kids : List (String × Idx n)) with
    | some sub => (aset k (idxInsert n sub ks r) kids : List (String × Idx n))
    | none => (aset k (idxInsert n (Idx.empty n) ks r) kids : List (String × Idx n))

/-- `FastPolicy.remove`: `exists = in_cache(..)`; `if not exists: return True`; `exists.remove(tuple)`
    (`KeyError` when the bucket is non-empty and does not hold the rule). Dicts and emptied sets stay. -/
def idxErase : (n : Nat) → Idx n → List String → Rule → Except PErr (Idx n)
  | 0, rs, _, r => setRemove rs r
  | _ + 1, kids, [], _ => .ok kids
  | n + 1, kids, k :: ks, r =>
    match alookup k (kids : List (String × Idx n)) with
    | none => .ok kids
    | some sub =>
      match idxErase n sub ks r with
      | .error e => .error e
      | .ok sub' => .ok (aset k sub' kids : List (String × Idx n))

/-- unfiltered iteration `__get_policy` [F14c: generalised from exactly two dict levels to `n`]:
    all buckets in dict order -/
def flatten : (n : Nat) → Idx n → List Rule
  | 0, rs => rs
  | n + 1, kids => (kids : List (String × Idx n)).flatMap (fun kv => flatten n kv.2)

/-- what the unrepaired generator expression
    `(list(v2) for v in self._cache.values() for v1 in v.values() for v2 in v1)` yields:
    one level → `AttributeError` (`set` has no `.values`), two → the rules, three or more → it
    iterates the *keys* of the third-level dicts and returns each key as a list of characters -/
def flattenUnrepaired : (n : Nat) → Idx n → Except PErr (List Rule)
  | 0, _ => .error .attributeError
  | 1, kids =>
    if (kids : List (String × Idx 0)).isEmpty then .ok [] else .error .attributeError
  | 2, kids => .ok (flatten 2 kids)
  | n + 3, kids =>
    .ok ((kids : List (String × Idx (n + 2))).flatMap fun kv =>
      (kv.2 : List (String × Idx (n + 1))).flatMap fun kv1 =>
        (kv1.2 : List (String × Idx n)).map fun kv2 => kv2.1.toList.map (fun c => String.singleton c))

/-! ## `FastPolicy` -/

structure FastPolicy (order : List Nat) where
  cache : Idx order.length := Idx.empty order.length
  /-- `_current_filter` -/
  filter : Option (List Rule) := none
  /-- [F14e] number of stored rules, maintained by `append`/`remove` -/
  size : Nat := 0

variable {order : List Nat}

def FastPolicy.new (order : List Nat) : FastPolicy order := {}

/-- `__iter__` / `__get_policy` -/
def FastPolicy.iter (p : FastPolicy order) : List Rule :=
  match p.filter with
  | some f => f
  | none => flatten _ p.cache

/-- `__len__` [F14e: the number of stored rules, whatever filter is applied]; before the repair it
    was `len(list(self.__get_policy()))`, i.e. the size of the *selected bucket* -/
def FastPolicy.len (p : FastPolicy order) : Nat := p.size

def FastPolicy.lenUnrepaired (p : FastPolicy order) : Nat := p.iter.length

/-- the bucket a key tuple selects (`in_cache(...) or set()`) -/
def FastPolicy.bucket (p : FastPolicy order) (keys : List String) : List Rule :=
  (inCache _ p.cache keys).getD []

/-- `__contains__` [F14d: a rule is unusable only when a key position lies outside it; the unrepaired
    guard `len(cache_key_order) >= len(item)` also rejected every rule that has exactly as many fields
    as there are keys] -/
def FastPolicy.contains (p : FastPolicy order) (item : Rule) : Bool :=
  if order.any (fun x => x ≥ item.length) then false
  else match keysOf order item with
    | none => false
    | some keys => (p.bucket keys).contains item

def FastPolicy.containsUnrepaired (p : FastPolicy order) (item : Rule) : Except PErr Bool :=
  if order.length ≥ item.length then .ok false
  else match keysOf order item with
    | none => .error .indexError
    | some keys => .ok ((p.bucket keys).contains item)

/-- `append` -/
def FastPolicy.append (p : FastPolicy order) (item : Rule) : Except PErr (FastPolicy order) :=
  match keysOf order item with
  | none => .error .indexError
  | some keys =>
    if order.isEmpty then .error .indexError      -- `keys[-1]` on an empty key list
    else
      let present := (p.bucket keys).contains item
      .ok { p with cache := idxInsert _ p.cache keys item, size := if present then p.size else p.size + 1 }

/-- `remove` (always returns `True` when it returns) -/
def FastPolicy.remove (p : FastPolicy order) (item : Rule) : Except PErr (FastPolicy order) :=
  match keysOf order item with
  | none => .error .indexError
  | some keys =>
    if order.isEmpty then .error .indexError      -- `keys[0]` in `in_cache`
    else
      let present := (p.bucket keys).contains item
      match idxErase _ p.cache keys item with
      | .error e => .error e
      | .ok c => .ok { p with cache := c, size := if present then p.size - 1 else p.size }

/-- `apply_filter(*keys)`: `self._current_filter = in_cache(self._cache, keys) or set()` -/
def FastPolicy.applyFilter (p : FastPolicy order) (keys : List String) : FastPolicy order :=
  { p with filter := some (p.bucket keys) }

def FastPolicy.clearFilter (p : FastPolicy order) : FastPolicy order := { p with filter := none }

/-- `for rule in rules: fast.append(rule)` -/
def FastPolicy.appendAll : FastPolicy order → List Rule → Except PErr (FastPolicy order)
  | p, [] => .ok p
  | p, r :: rs =>
    match p.append r with
    | .error e => .error e
    | .ok p' => FastPolicy.appendAll p' rs

/-- a fresh container holding the rules of a list -/
def FastPolicy.ofList (order : List Nat) (rules : List Rule) : Except PErr (FastPolicy order) :=
  (FastPolicy.new order).appendAll rules

/-! ## The generic policy code (casbin/model/policy.py, after the C06 repairs) over a plain list -/

namespace Plain

def hasPolicy (pol : List Rule) (rule : Rule) : Bool := pol.contains rule

/-- `add_policy` (no priority column) -/
def addPolicy (pol : List Rule) (rule : Rule) : List Rule × Bool :=
  if hasPolicy pol rule then (pol, false) else (pol ++ [rule], true)

/-- `add_policies`: reject when any rule is present, then `add_policy` each (a rule repeated inside
    the batch is skipped) -/
def addPolicies (pol : List Rule) (rules : List Rule) : List Rule × Bool :=
  if rules.any (hasPolicy pol) then (pol, false)
  else (rules.foldl (fun p r => (addPolicy p r).1) pol, true)

/-- `remove_policy`: `list.remove` (first occurrence), then `rule not in policy` -/
def removePolicy (pol : List Rule) (rule : Rule) : List Rule × Bool :=
  if !hasPolicy pol rule then (pol, false)
  else let pol' := pol.erase rule; (pol', !pol'.contains rule)

/-- `remove_policies`: reject when any rule is absent, then remove each rule still present -/
def removePolicies (pol : List Rule) (rules : List Rule) : List Rule × Bool :=
  if rules.any (fun r => !hasPolicy pol r) then (pol, false)
  else (rules.foldl (fun p r => if p.contains r then p.erase r else p) pol, true)

/-- `all(value == "" or rule[field_index + i] == value for i, value in enumerate(field_values))`;
    `rule[..]` out of range raises `IndexError` (only evaluated for a non-empty value, left to right,
    stopping at the first mismatch) -/
def filterMatch (rule : Rule) : Nat → List String → Except PErr Bool
  | _, [] => .ok true
  | i, v :: vs =>
    if v == "" then filterMatch rule (i + 1) vs
    else match rule[i]? with
      | none => .error .indexError
      | some x => if x == v then filterMatch rule (i + 1) vs else .ok false

/-- the loop of `remove_filtered_policy`: (kept rules, removed rules) or the first `IndexError` -/
def splitFiltered (fieldIndex : Nat) (vals : List String) : List Rule → Except PErr (List Rule × List Rule)
  | [] => .ok ([], [])
  | r :: rest =>
    match filterMatch r fieldIndex vals with
    | .error e => .error e
    | .ok b =>
      match splitFiltered fieldIndex vals rest with
      | .error e => .error e
      | .ok (keep, gone) => if b then .ok (keep, r :: gone) else .ok (r :: keep, gone)

/-- `remove_filtered_policy` (the policy is replaced only after the loop, so an exception leaves it
    unchanged) -/
def removeFiltered (pol : List Rule) (fieldIndex : Nat) (vals : List String) : Except PErr (List Rule × Bool) :=
  match splitFiltered fieldIndex vals pol with
  | .error e => .error e
  | .ok (keep, gone) => .ok (keep, !gone.isEmpty)

/-- `remove_filtered_policy_returns_effects`: the removed rules (no field values → every rule, as for the reads) -/
def removeFilteredEffects (pol : List Rule) (fieldIndex : Nat) (vals : List String) : Except PErr (List Rule × List Rule) :=
  match splitFiltered fieldIndex vals pol with
    | .error e => .error e
    | .ok (keep, gone) => .ok (keep, gone)

/-- the loop of `get_values_for_field_in_policy`: `rule[field_index]` (`IndexError`), first occurrences kept -/
def valuesLoop (fieldIndex : Nat) : List Rule → List String → Except PErr (List String)
  | [], acc => .ok acc
  | r :: rest, acc =>
    match r[fieldIndex]? with
    | none => .error .indexError
    | some v => valuesLoop fieldIndex rest (if acc.contains v then acc else acc ++ [v])

def valuesForField (pol : List Rule) (fieldIndex : Nat) : Except PErr (List String) := valuesLoop fieldIndex pol []

/-- `get_filtered_policy` -/
def getFiltered (pol : List Rule) (fieldIndex : Nat) (vals : List String) : Except PErr (List Rule) :=
  match splitFiltered fieldIndex vals pol with
  | .error e => .error e
  | .ok (_, gone) => .ok gone

/-- `update_policy`: old absent → False; new ≠ old and new present → False; replace in place -/
def updatePolicy (pol : List Rule) (old new : Rule) : List Rule × Bool :=
  if !pol.contains old then (pol, false)
  else if new != old && pol.contains new then (pol, false)
  else (pol.set (pol.idxOf old) new, true)

/-- `update_policies` -/
def updatePolicies (pol : List Rule) (olds news : List Rule) : List Rule × Bool :=
  if olds.length != news.length then (pol, false)
  else if olds.any (fun o => olds.count o > 1) then (pol, false)
  else if olds.any (fun o => !pol.contains o) then (pol, false)
  else
    let idxs := olds.map pol.idxOf
    let pol' := (idxs.zip news).foldl (fun p (ix : Nat × Rule) => p.set ix.1 ix.2) pol
    if news.any (fun r => pol'.count r > 1) then (pol, false) else (pol', true)

end Plain

/-! ## The same generic code over the indexed container

`has_policy`, `add_policy`, `add_policies`, `remove_policy`, `remove_policies` run directly on the
container protocol (`in`, `append`, `remove`, `len`).  Filtered removal and the two updates need a
list (`policy = tmp`, `.index`, `policy[i] = …`): [F14a, F14b] `FastModel` hands the generic code a
plain list of the stored rules and re-indexes the result into a fresh `FastPolicy`; the old
container stays in place when the generic code or the re-indexing raises. -/

def hasPolicy (p : FastPolicy order) (rule : Rule) : Bool := p.contains rule

def addPolicy (p : FastPolicy order) (rule : Rule) : Except PErr (FastPolicy order × Bool) :=
  if hasPolicy p rule then .ok (p, false)
  else match p.append rule with
    | .error e => .error e
    | .ok p' => .ok (p', true)

/-- the second loop of `add_policies` (`self.add_policy` per rule; a raise keeps what was added) -/
def addEach : FastPolicy order → List Rule → FastPolicy order × Option PErr
  | p, [] => (p, none)
  | p, r :: rs =>
    match addPolicy p r with
    | .error e => (p, some e)
    | .ok (p', _) => addEach p' rs

def addPolicies (p : FastPolicy order) (rules : List Rule) : FastPolicy order × Except PErr Bool :=
  if rules.any (hasPolicy p) then (p, .ok false)
  else match addEach p rules with
    | (p', none) => (p', .ok true)
    | (p', some e) => (p', .error e)

def removePolicy (p : FastPolicy order) (rule : Rule) : Except PErr (FastPolicy order × Bool) :=
  if !hasPolicy p rule then .ok (p, false)
  else match p.remove rule with
    | .error e => .error e
    | .ok p' => .ok (p', !p'.contains rule)

def removeEach : FastPolicy order → List Rule → FastPolicy order × Option PErr
  | p, [] => (p, none)
  | p, r :: rs =>
    if p.contains r then
      match p.remove r with
      | .error e => (p, some e)
      | .ok p' => removeEach p' rs
    else removeEach p rs

def removePolicies (p : FastPolicy order) (rules : List Rule) : FastPolicy order × Except PErr Bool :=
  if rules.any (fun r => !hasPolicy p r) then (p, .ok false)
  else match removeEach p rules with
    | (p', none) => (p', .ok true)
    | (p', some e) => (p', .error e)

/-- [F14a] `FastModel.remove_filtered_policy` -/
def removeFiltered (p : FastPolicy order) (fieldIndex : Nat) (vals : List String) :
    FastPolicy order × Except PErr Bool :=
  match Plain.removeFiltered p.iter fieldIndex vals with
  | .error e => (p, .error e)
  | .ok (keep, res) =>
    match FastPolicy.ofList order keep with
    | .error e => (p, .error e)
    | .ok p' => (p', .ok res)

def getFiltered (p : FastPolicy order) (fieldIndex : Nat) (vals : List String) : Except PErr (List Rule) :=
  Plain.getFiltered p.iter fieldIndex vals

/-- [F14a] `FastModel.remove_filtered_policy_returns_effects` -/
def removeFilteredEffects (p : FastPolicy order) (fieldIndex : Nat) (vals : List String) :
    FastPolicy order × Except PErr (List Rule) :=
  match Plain.removeFilteredEffects p.iter fieldIndex vals with
  | .error e => (p, .error e)
  | .ok (keep, gone) =>
    match FastPolicy.ofList order keep with
    | .error e => (p, .error e)
    | .ok p' => (p', .ok gone)

/-- `get_values_for_field_in_policy` iterates the container -/
def valuesForField (p : FastPolicy order) (fieldIndex : Nat) : Except PErr (List String) :=
  Plain.valuesForField p.iter fieldIndex

/-- [F14b] `FastModel.update_policy` -/
def updatePolicy (p : FastPolicy order) (old new : Rule) : FastPolicy order × Except PErr Bool :=
  let (l, res) := Plain.updatePolicy p.iter old new
  match FastPolicy.ofList order l with
  | .error e => (p, .error e)
  | .ok p' => (p', .ok res)

/-- [F14b] `FastModel.update_policies` -/
def updatePolicies (p : FastPolicy order) (olds news : List Rule) : FastPolicy order × Except PErr Bool :=
  let (l, res) := Plain.updatePolicies p.iter olds news
  match FastPolicy.ofList order l with
  | .error e => (p, .error e)
  | .ok p' => (p', .ok res)

/-! ## `enforce_ex` over a container whose `len` need not be the number of rules iterated -/

/-- `CoreEnforcer.enforce_ex` with `policy_len = len(policy)` given separately from the rules the
    `for` loop sees (`Casbin.enforceEx` is the case `total = view.length`, `Props/C19.enforceExView_eq`) -/
def enforceExView {ρ : Type} (cfg : Cfg) (m : List ρ → List String → MVal) (total : Nat)
    (view : List Rule) (req : List ρ) : Except Err (Bool × Option Nat) :=
  if !cfg.enabled then .ok (true, none)
  else if cfg.rArity != req.length then .error .invalidRequestSize
  else if total == 0 then
    if cfg.hasEval then .error .evalOnEmptyPolicy
    else
      let s : EffSet := if (m req (List.replicate cfg.pArity "")).truthy then ({} : EffSet).add .allow
                        else ({} : EffSet).add .indet
      match effectToBool (final cfg.kind s) with
      | .ok b => .ok (b, none)
      | .error e => .error e
  else
    match loop cfg m req view {} 0 with
    | .error e => .error e
    | .ok (s, ex) =>
      match effectToBool (final cfg.kind s) with
      | .ok b => .ok (b, ex)
      | .error e => .error e

def enforceView {ρ : Type} (cfg : Cfg) (m : List ρ → List String → MVal) (total : Nat)
    (view : List Rule) (req : List ρ) : Except Err Bool :=
  match enforceExView cfg m total view req with
  | .ok (b, _) => .ok b
  | .error e => .error e

/-- `FastEnforcer.enforce` (cache_key_order given): select the bucket of the request's key fields,
    run the ordinary decision procedure on it, clear the filter in `finally`.
    [F14g: a request that lacks a key position goes down the ordinary path, which reports its size
    (or allows when the enforcer is disabled); before the repair `rvals[x]` raised `IndexError`.] -/
def fastEnforce (cfg : Cfg) (m : List String → List String → MVal) (p : FastPolicy order)
    (req : List String) : FastPolicy order × Except Err Bool :=
  if order.any (fun x => x ≥ req.length) then (p, enforceView cfg m p.len p.iter req)
  else match keysOf order req with
    | none => (p, enforceView cfg m p.len p.iter req)
    | some keys =>
      let p1 := p.applyFilter keys
      (p1.clearFilter, enforceView cfg m p1.len p1.iter req)

/-- the unrepaired decision path: `len` is the size of the selected bucket, so an empty bucket takes
    the empty-policy branch of `enforce_ex` -/
def fastEnforceUnrepaired (cfg : Cfg) (m : List String → List String → MVal) (p : FastPolicy order)
    (req : List String) : Except PErr Bool :=
  match keysOf order req with
  | none => .error .indexError
  | some keys =>
    let p1 := p.applyFilter keys
    match enforceView cfg m p1.lenUnrepaired p1.iter req with
    | .ok b => .ok b
    | .error e => .error (.enf e)

/-! ## The two enforcers as state machines over one operation alphabet -/

inductive Shape | acl | rbac | rbacDeny
  deriving DecidableEq, Repr, Inhabited

/-- basic_model.conf / rbac_model.conf / rbac_with_deny_model.conf -/
def Shape.cfg : Shape → Cfg
  | .acl => { kind := .allowOverride, rArity := 3, pArity := 3 }
  | .rbac => { kind := .allowOverride, rArity := 3, pArity := 3 }
  | .rbacDeny => { kind := .allowAndDeny, rArity := 3, pArity := 4, eftCol := some 3 }

def Shape.hasG : Shape → Bool
  | .acl => false | _ => true

def graphOf (g : List Rule) : Graph :=
  g.filterMap fun r => match r with | [u, v] => some (u, v) | _ => none

/-- the three matchers; `g` is `RoleManager.has_link` with the default `max_hierarchy_level = 10` -/
def Shape.matcher (sh : Shape) (g : List Rule) (req : List String) (p : List String) : MVal :=
  let r0 := req[0]?.getD ""; let r1 := req[1]?.getD ""; let r2 := req[2]?.getD ""
  let p0 := p[0]?.getD ""; let p1 := p[1]?.getD ""; let p2 := p[2]?.getD ""
  match sh with
  | .acl => .bool (r0 == p0 && r1 == p1 && r2 == p2)
  | _ => .bool (hasLink (graphOf g) 10 r0 p0 && r1 == p1 && r2 == p2)

inductive Op
  | add (r : Rule) | addMany (rs : List Rule)
  | remove (r : Rule) | removeMany (rs : List Rule)
  | removeFiltered (i : Nat) (vs : List String)
  | removeFilteredEffects (i : Nat) (vs : List String)
  | values (i : Nat)
  | update (o n : Rule) | updateMany (os ns : List Rule)
  | clear | load (ps gs : List Rule)
  | has (r : Rule) | get | getFiltered (i : Nat) (vs : List String)
  | enforce (req : List String)
  | addG (r : Rule) | removeG (r : Rule)
  deriving Repr, Inhabited

inductive Res
  | bool (b : Bool) | rules (rs : List Rule) | err (e : PErr) | unit
  deriving DecidableEq, Repr, Inhabited

structure FastState (order : List Nat) where
  p : FastPolicy order := {}
  g : List Rule := []

structure PlainState where
  p : List Rule := []
  g : List Rule := []
  deriving DecidableEq, Repr, Inhabited

def resOfBool : Except PErr Bool → Res
  | .ok b => .bool b | .error e => .err e

def resOfEnf : Except Err Bool → Res
  | .ok b => .bool b | .error e => .err (.enf e)

/-- `Enforcer` (plain list) -/
def stepPlain (sh : Shape) (s : PlainState) : Op → PlainState × Res
  | .add r => let (p, b) := Plain.addPolicy s.p r; ({ s with p := p }, .bool b)
  | .addMany rs => let (p, b) := Plain.addPolicies s.p rs; ({ s with p := p }, .bool b)
  | .remove r => let (p, b) := Plain.removePolicy s.p r; ({ s with p := p }, .bool b)
  | .removeMany rs => let (p, b) := Plain.removePolicies s.p rs; ({ s with p := p }, .bool b)
  | .removeFiltered i vs =>
    match Plain.removeFiltered s.p i vs with
    | .error e => (s, .err e)
    | .ok (p, b) => ({ s with p := p }, .bool b)
  | .removeFilteredEffects i vs =>
    match Plain.removeFilteredEffects s.p i vs with
    | .error e => (s, .err e)
    | .ok (p, gone) => ({ s with p := p }, .rules gone)
  | .values i =>
    match Plain.valuesForField s.p i with
    | .error e => (s, .err e)
    | .ok vs => (s, .rules (vs.map fun v => [v]))
  | .update o n => let (p, b) := Plain.updatePolicy s.p o n; ({ s with p := p }, .bool b)
  | .updateMany os ns => let (p, b) := Plain.updatePolicies s.p os ns; ({ s with p := p }, .bool b)
  | .clear => ({ p := [], g := [] }, .unit)
  | .load ps gs => ({ p := ps, g := if sh.hasG then gs else [] }, .unit)
  | .has r => (s, .bool (Plain.hasPolicy s.p r))
  | .get => (s, .rules s.p)
  | .getFiltered i vs =>
    match Plain.getFiltered s.p i vs with
    | .error e => (s, .err e)
    | .ok rs => (s, .rules rs)
  | .enforce req => (s, resOfEnf (Casbin.enforce sh.cfg (sh.matcher s.g) s.p req))
  | .addG r =>
    if !sh.hasG then (s, .err .keyError)
    else let (g, b) := Plain.addPolicy s.g r; ({ s with g := g }, .bool b)
  | .removeG r =>
    if !sh.hasG then (s, .err .keyError)
    else let (g, b) := Plain.removePolicy s.g r; ({ s with g := g }, .bool b)

/-- `FastEnforcer` with `cache_key_order = order` -/
def stepFast (sh : Shape) (s : FastState order) : Op → FastState order × Res
  | .add r =>
    match addPolicy s.p r with
    | .error e => (s, .err e)
    | .ok (p, b) => ({ s with p := p }, .bool b)
  | .addMany rs => let (p, b) := addPolicies s.p rs; ({ s with p := p }, resOfBool b)
  | .remove r =>
    match removePolicy s.p r with
    | .error e => (s, .err e)
    | .ok (p, b) => ({ s with p := p }, .bool b)
  | .removeMany rs => let (p, b) := removePolicies s.p rs; ({ s with p := p }, resOfBool b)
  | .removeFiltered i vs => let (p, b) := removeFiltered s.p i vs; ({ s with p := p }, resOfBool b)
  | .removeFilteredEffects i vs =>
    match removeFilteredEffects s.p i vs with
    | (p, .ok gone) => ({ s with p := p }, .rules gone)
    | (p, .error e) => ({ s with p := p }, .err e)
  | .values i =>
    match valuesForField s.p i with
    | .error e => (s, .err e)
    | .ok vs => (s, .rules (vs.map fun v => [v]))
  | .update o n => let (p, b) := updatePolicy s.p o n; ({ s with p := p }, resOfBool b)
  | .updateMany os ns => let (p, b) := updatePolicies s.p os ns; ({ s with p := p }, resOfBool b)
  | .clear => ({ p := FastPolicy.new order, g := [] }, .unit)      -- `FastModel.clear_policy`
  | .load ps gs =>
    -- `load_policy`: deep copy, `clear_policy`, `policy.append` per line; on a raise the old model stays
    match FastPolicy.ofList order ps with
    | .error e => (s, .err e)
    | .ok p => ({ p := p, g := if sh.hasG then gs else [] }, .unit)
  | .has r => (s, .bool (hasPolicy s.p r))
  | .get => (s, .rules s.p.iter)
  | .getFiltered i vs =>
    match getFiltered s.p i vs with
    | .error e => (s, .err e)
    | .ok rs => (s, .rules rs)
  | .enforce req =>
    let (p, r) := fastEnforce sh.cfg (sh.matcher s.g) s.p req
    ({ s with p := p }, resOfEnf r)
  | .addG r =>
    if !sh.hasG then (s, .err .keyError)
    else let (g, b) := Plain.addPolicy s.g r; ({ s with g := g }, .bool b)
  | .removeG r =>
    if !sh.hasG then (s, .err .keyError)
    else let (g, b) := Plain.removePolicy s.g r; ({ s with g := g }, .bool b)

end Casbin.Fast
