import CasbinV.Model.Basic
/-!
# Model of `casbin/model/policy.py` (one assertion's rule list) — after the `fix:` commits

A rule is a list of strings, a policy (one `Assertion.policy`) a Python list of rules.
`policy_map` is write-only in the code base (never read) and therefore not modelled.
Python → Lean: `rule in policy` = `List.contains`; `policy.remove(rule)` = `List.erase` (first occurrence);
`policy.index(rule)` = `List.idxOf`; `rule[i]` out of range = `IndexError` (`Except`).
Core Lean only.
-/
namespace Casbin.Policy

abbrev Rule := List String

inductive PErr | indexError | priorityMismatch
  deriving DecidableEq, Repr, Inhabited

/-- `has_policy` -/
def has (l : List Rule) (r : Rule) : Bool := l.contains r

/-! ## priority insertion (`add_policy` when `priority_index >= 0`) -/

/-- ASCII-digit strings, the domain on which `str.isdigit` and `int` agree with `Nat` -/
def natOfDigits (s : String) : Option Nat :=
  if s.isEmpty then none
  else if s.toList.all (fun c => '0' ≤ c && c ≤ '9') then
    some (s.toList.foldl (fun n c => n * 10 + (c.toNat - '0'.toNat)) 0)
  else none

/-- decimal integers: ASCII digits with an optional leading `-` - the strings `int` reads as the integer they denote
    (`sort_policies_by_priority`, repaired, and `add_policy` both key on `int`) -/
def prioOfString (s : String) : Option Int :=
  match s.toList with
  | '-' :: cs => (natOfDigits (String.ofList cs)).map fun n => -(n : Int)
  | _ => (natOfDigits s).map fun n => (n : Int)

/-- `int(rule[priority_index])`, `none` when the field is missing or not a decimal integer (Python raises; the
    exception is swallowed by `add_policy`, so the rule simply stays where `append` put it) -/
def prioOf (pi : Nat) (r : Rule) : Option Int := (r[pi]?).bind prioOfString

/-- the backward bubble loop on the reversed prefix: `rev` is the list *before* the append, reversed -/
def bubbleRev (pi : Nat) (pNew : Int) (r : Rule) : List Rule → List Rule
  | [] => [r]
  | x :: xs =>
    match prioOf pi x with
    | some px => if px > pNew then x :: bubbleRev pi pNew r xs else r :: x :: xs
    | none => r :: x :: xs   -- outside the numeric domain: the loop is left (see DESIGN C07)

/-- append, then bubble towards the front while the predecessor's priority is greater -/
def insertByPriority (pi : Nat) (l : List Rule) (r : Rule) : List Rule :=
  match prioOf pi r with
  | none => l ++ [r]
  | some p => (bubbleRev pi p r l.reverse).reverse

/-- `add_policy`: `pi` = `priority_index` when `sec == "p"` and it is `>= 0` -/
def add (pi : Option Nat) (l : List Rule) (r : Rule) : List Rule × Bool :=
  if has l r then (l, false)
  else match pi with
    | none => (l ++ [r], true)
    | some i => (insertByPriority i l r, true)

/-- `add_policies` (repaired): reject when any rule is present, else `add_policy` one by one -/
def addMany (pi : Option Nat) (l : List Rule) (rs : List Rule) : List Rule × Bool :=
  if rs.any (has l) then (l, false)
  else (rs.foldl (fun acc r => (add pi acc r).1) l, true)

/-- `remove_policy` -/
def remove (l : List Rule) (r : Rule) : List Rule × Bool :=
  if !has l r then (l, false)
  else let l' := l.erase r; (l', !l'.contains r)

/-- `remove_policies` (repaired): reject unless every rule is present, then remove each still-present one -/
def removeMany (l : List Rule) (rs : List Rule) : List Rule × Bool :=
  if rs.all (has l) then (rs.foldl (fun acc r => if acc.contains r then acc.erase r else acc) l, true)
  else (l, false)

/-- `remove_policies_with_effected` -/
def removeManyWithEffected (l : List Rule) (rs : List Rule) : List Rule × List Rule :=
  rs.foldl (fun (acc : List Rule × List Rule) r =>
    if has acc.1 r then ((remove acc.1 r).1, acc.2 ++ [r]) else acc) (l, [])

/-- `all(value == "" or rule[field_index + i] == value for i, value in enumerate(field_values))`
    with Python's short-circuit evaluation: the first failing comparison stops, an out-of-range index raises -/
def matchesFrom (rule : Rule) (idx : Nat) : List String → Except PErr Bool
  | [] => .ok true
  | v :: vs =>
    if v == "" then matchesFrom rule (idx + 1) vs
    else match rule[idx]? with
      | none => .error .indexError
      | some x => if x == v then matchesFrom rule (idx + 1) vs else .ok false

/-- partition by the filter, first error wins (rules are visited in order) -/
def partitionFiltered (idx : Nat) (vals : List String) : List Rule → Except PErr (List Rule × List Rule)
  | [] => .ok ([], [])
  | r :: rs =>
    match matchesFrom r idx vals with
    | .error e => .error e
    | .ok b => match partitionFiltered idx vals rs with
      | .error e => .error e
      | .ok (yes, no) => if b then .ok (r :: yes, no) else .ok (yes, r :: no)

/-- `get_filtered_policy` (string filter values) -/
def getFiltered (l : List Rule) (idx : Nat) (vals : List String) : Except PErr (List Rule) :=
  (partitionFiltered idx vals l).map (·.1)

/-- `remove_filtered_policy`: new list and whether anything matched; an exception leaves the list untouched -/
def removeFiltered (l : List Rule) (idx : Nat) (vals : List String) : Except PErr (List Rule × Bool) :=
  (partitionFiltered idx vals l).map fun (yes, no) => (no, !yes.isEmpty)

/-- `remove_filtered_policy_returns_effects` (repaired: a filter without values selects every rule, as it does for the
    filtered reads and for `remove_filtered_policy`) -/
def removeFilteredReturnsEffects (l : List Rule) (idx : Nat) (vals : List String) :
    Except PErr (List Rule × List Rule) :=
  (partitionFiltered idx vals l).map fun (yes, no) => (no, yes)

/-- the in-memory half of `_update_filtered_policies`, given the old rules the adapter (or the in-memory filter)
    reported: `remove_policies(old)`, then `add_policies(new)` whose result is ignored, result
    `removed and len(new_rules) != 0` -/
def updateFilteredWith (l old news : List Rule) : List Rule × Bool :=
  if old.isEmpty then (l, false)
  else
    let (l1, b1) := removeMany l old
    let (l2, _) := addMany none l1 news
    (l2, b1 && !news.isEmpty)

/-- the guard of the repaired `_update_filtered_policies` (F16): nothing selected, nothing to put in its place, or a
    new rule already held outside the selection - refuse before the adapter or the model is touched -/
def updateFilteredRefused (l old news : List Rule) : Bool :=
  old.isEmpty || news.isEmpty || news.any fun r => (l.filter fun x => !old.contains x).contains r

/-- `_update_filtered_policies` without an adapter: the old rules are those the filter selects in memory -/
def updateFiltered (l news : List Rule) (idx : Nat) (vals : List String) : Except PErr (List Rule × Bool) :=
  (getFiltered l idx vals).map fun old =>
    if updateFilteredRefused l old news then (l, false) else updateFilteredWith l old news

/-- `update_policy` (repaired): `prioTok` = index of the token `p_priority` when the assertion has one -/
def update (prioTok : Option Nat) (l : List Rule) (old new : Rule) : Except PErr (List Rule × Bool) :=
  if !l.contains old then .ok (l, false)
  else if new != old && l.contains new then .ok (l, false)
  else
    let i := l.idxOf old
    match prioTok with
    | some pt =>
      match old[pt]?, new[pt]? with
      | some a, some b => if a == b then .ok (l.set i new, true) else .error .priorityMismatch
      | _, _ => .error .indexError
    | none => .ok (l.set i new, true)

/-- `update_policies` (repaired): validate everything (equal lengths, no old rule named twice, every old rule held, equal
    priorities, a duplicate-free result), then replace in place -/
def updateMany (prioTok : Option Nat) (l : List Rule) (olds news : List Rule) : Except PErr (List Rule × Bool) :=
  if olds.length != news.length then .ok (l, false)
  else if olds.any (fun o => olds.count o > 1) then .ok (l, false)
  else if !olds.all l.contains then .ok (l, false)
  else
    let prioOk : Except PErr Unit :=
      match prioTok with
      | none => .ok ()
      | some pt => (olds.zip news).foldl (fun acc (o, n) =>
          match acc with
          | .error e => .error e
          | .ok () => match o[pt]?, n[pt]? with
            | some a, some b => if a == b then .ok () else .error .priorityMismatch
            | _, _ => .error .indexError) (.ok ())
    match prioOk with
    | .error e => .error e
    | .ok () =>
      let l' := (olds.zip news).foldl (fun acc (o, n) => acc.set (l.idxOf o) n) l
      if news.any (fun n => l'.count n > 1) then .ok (l, false) else .ok (l', true)

/-- `get_values_for_field_in_policy` -/
def valuesForField (l : List Rule) (idx : Nat) : Except PErr (List String) :=
  l.foldl (fun acc r => match acc with
    | .error e => .error e
    | .ok vs => match r[idx]? with
      | none => .error .indexError
      | some v => if vs.contains v then .ok vs else .ok (vs ++ [v])) (.ok [])

/-- `Model.sort_policies_by_priority` for one assertion: Python's stable `sorted` by the numeric key
    (insertion sort = stable; only digit-string priorities are in the model's domain) -/
def insertSorted (pi : Nat) (r : Rule) : List Rule → List Rule
  | [] => [r]
  | x :: xs =>
    match prioOf pi r, prioOf pi x with
    | some pr, some px => if px ≤ pr then x :: insertSorted pi r xs else r :: x :: xs
    | _, _ => x :: insertSorted pi r xs

def sortByPriority (pi : Nat) (l : List Rule) : List Rule :=
  l.foldl (fun acc r => insertSorted pi r acc) []

/-! ## The abstract side: an insertion-ordered, duplicate-free set of rules -/

namespace Spec

def add (l : List Rule) (r : Rule) : List Rule × Bool :=
  if r ∈ l then (l, false) else (l ++ [r], true)

/-- a batch add applies to all of its rules (each once) or changes nothing -/
def addMany (l : List Rule) (rs : List Rule) : List Rule × Bool :=
  if rs.any (· ∈ l) then (l, false) else (l ++ rs.eraseDups, true)

def remove (l : List Rule) (r : Rule) : List Rule × Bool :=
  if r ∈ l then (l.filter (· != r), true) else (l, false)

def removeMany (l : List Rule) (rs : List Rule) : List Rule × Bool :=
  if rs.all (· ∈ l) then (l.filter (fun x => !rs.contains x), true) else (l, false)

/-- a rule matches a filter when every non-empty value equals the field at its position -/
def matchesFilter (idx : Nat) (vals : List String) (r : Rule) : Bool :=
  (vals.zipIdx).all fun (v, i) => v == "" || r[idx + i]? == some v

def getFiltered (l : List Rule) (idx : Nat) (vals : List String) : List Rule :=
  l.filter (matchesFilter idx vals)

def removeFiltered (l : List Rule) (idx : Nat) (vals : List String) : List Rule × Bool :=
  (l.filter (fun r => !matchesFilter idx vals r), l.any (matchesFilter idx vals))

/-- every rule that is the old side of a pair becomes the new side of (the first such) pair, where it stands -/
def replaceAll (l olds news : List Rule) : List Rule :=
  l.map fun x => match (olds.zip news).find? (·.1 == x) with | some (_, n) => n | none => x

/-- a batch update replaces every old rule, in place, by the new rule paired with it - all of them at once - or changes
    nothing: it applies when the lists pair up, no old rule is named twice, every old rule is held and the result is
    again duplicate-free -/
def updateMany (l olds news : List Rule) : List Rule × Bool :=
  if olds.length = news.length ∧ olds.Nodup ∧ (∀ o ∈ olds, o ∈ l) ∧ (replaceAll l olds news).Nodup then
    (replaceAll l olds news, true)
  else (l, false)

/-- a filtered update replaces the selected rules by the new ones (each once), or changes nothing: it applies when the
    filter selects something, there is something to put in its place, and no new rule is already held outside the
    selection -/
def updateFiltered (l news : List Rule) (idx : Nat) (vals : List String) : List Rule × Bool :=
  let rest := l.filter fun r => !matchesFilter idx vals r
  if (l.any (matchesFilter idx vals)) && !news.isEmpty && news.all (fun r => !rest.contains r) then (rest ++ news.eraseDups, true)
  else (l, false)

/-- update of a present rule to an absent one replaces it in place -/
def update (l : List Rule) (old new : Rule) : List Rule × Bool :=
  if old ∈ l ∧ (new = old ∨ new ∉ l) then (l.map (fun x => if x = old then new else x), true) else (l, false)

end Spec

end Casbin.Policy

/-! ## subject-priority ordering (`Model.get_subject_hierarchy_map`, `sort_policies_by_subject_hierarchy`) -/
namespace Casbin.Policy

/-- a role assignment as `get_subject_hierarchy_map` sees it: (child, parent), names already prefixed with the
    domain (`get_name_with_domain`) -/
abbrev HEdge := String × String

inductive HErr | cycle | fuel
  deriving DecidableEq, Repr, Inhabited

/-- `sorted_sub = unsorted_sub - parent_sub`: the subjects that are not a parent in any remaining assignment -/
def peelRound (up : List HEdge) (us : List String) : List String :=
  us.filter fun s => !(up.map (·.2)).contains s

/-- the `while len(unsorted_policy) > 0:` loop; `k` = index of the round, `acc` = levels assigned so far.
    Fuel: every round removes at least one subject, so `us.length + 1` rounds always suffice (`HErr.fuel` is
    reported, never defaulted). -/
def hierarchyLoop : Nat → List HEdge → List String → Nat → List (String × Nat) → Except HErr (List (String × Nat))
  | _, [], us, k, acc => .ok (acc ++ us.map (·, k))
  | 0, _ :: _, _, _, _ => .error .fuel
  | f + 1, e :: up, us, k, acc =>
    let sorted := peelRound (e :: up) us
    if sorted.isEmpty then .error .cycle
    else hierarchyLoop f ((e :: up).filter fun x => !sorted.contains x.1) (us.filter fun s => !sorted.contains s)
           (k + 1) (acc ++ sorted.map (·, k))

/-- all subjects of the assignments, each once -/
def subjectsOf (edges : List HEdge) : List String := (edges.flatMap fun e => [e.1, e.2]).eraseDups

/-- `get_subject_hierarchy_map`: subject ↦ level (0 = nobody inherits from it … the roots get the highest level) -/
def hierarchyMap (edges : List HEdge) : Except HErr (List (String × Nat)) :=
  let us := subjectsOf edges
  hierarchyLoop (us.length + 1) edges us 0 []

/-- `subject_hierarchy_map.get(name, 0)` -/
def levelOf (m : List (String × Nat)) (name : String) : Nat := (m.lookup name).getD 0

/-- stable insertion sort by a numeric key = Python's `sorted(policy, key=…)` -/
def insertByKey (key : Rule → Nat) (r : Rule) : List Rule → List Rule
  | [] => [r]
  | x :: xs => if key x ≤ key r then x :: insertByKey key r xs else r :: x :: xs

def sortByKey (key : Rule → Nat) (l : List Rule) : List Rule := l.foldl (fun acc r => insertByKey key r acc) []

/-- `get_name_with_domain(domain, name)` -/
def nameWithDomain (domain name : String) : String := domain ++ "::" ++ name

/-- `sort_policies_by_subject_hierarchy` for one assertion: `domIdx` = position of the `p_dom` token, if any;
    grouping rules `[child, parent]` or `[child, parent, domain]` -/
def sortBySubjectHierarchy (domIdx : Option Nat) (g : List Rule) (p : List Rule) : Except HErr (List Rule) :=
  let edges : List HEdge := g.filterMap fun r =>
    match r with
    | [c, pa] => some (nameWithDomain "" c, nameWithDomain "" pa)
    | c :: pa :: d :: _ => some (nameWithDomain d c, nameWithDomain d pa)
    | _ => none
  match hierarchyMap edges with
  | .error e => .error e
  | .ok m =>
    let key := fun (r : Rule) =>
      let d := match domIdx with | none => "" | some i => r.getD i ""
      levelOf m (nameWithDomain d (r.getD 0 ""))
    .ok (sortByKey key p)

end Casbin.Policy
