import CasbinV.Model.Basic
import CasbinV.Model.Policy
import CasbinV.Model.Graph
import CasbinV.Model.Effect
/-!
# Model of the enforcer state machine (management API, role links, adapter and watcher traffic)

Sources: `casbin/internal_enforcer.py`, `management_enforcer.py`, `enforcer.py` (RBAC API), `core_enforcer.py`
(`load_policy`, `clear_policy`, `save_policy`, `build_role_links`, flags), `model/assertion.py`
(`build_role_links`, `build_incremental_role_links`) — after the `fix:` commits.

Scope: one permission section `p`, up to two role definitions `g`, `g2`; role managers are represented by their
*link store* (a duplicate-free list of stored links `[user, role]` or `[user, role, domain]`): Props/C03 proves
that every answer of the real managers is a function of that store (caches included).  The adapter is a
parameter of the model: a *faithful* adapter (ordered rule sets per section that apply exactly the call they are
given and never answer `False`), optionally failing while it delivers a policy.  Core Lean only.
-/
namespace Casbin.Enf
open Casbin.Policy

inductive Sec | p | g | g2
  deriving DecidableEq, Repr, Inhabited

/-- static configuration of an enforcer instance -/
structure Cfg where
  /-- number of `_` in the role definitions (2, or 3 with a domain); 0 = the model has no such definition -/
  gCount : Nat := 2
  g2Count : Nat := 0
  hasAdapter : Bool := false
  hasWatcher : Bool := false
  /-- the watcher offers the `WatcherEx` callbacks / the `WatcherUpdatable` callbacks -/
  watcherEx : Bool := false
  watcherUpd : Bool := false
  deriving Repr, Inhabited

/-- calls received by the adapter -/
inductive ACall
  | addPolicy (sec : Sec) (r : Rule)
  | addPolicies (sec : Sec) (rs : List Rule)
  | removePolicy (sec : Sec) (r : Rule)
  | removePolicies (sec : Sec) (rs : List Rule)
  | removeFiltered (sec : Sec) (idx : Nat) (vals : List String)
  | updatePolicy (sec : Sec) (old new : Rule)
  | updatePolicies (sec : Sec) (olds news : List Rule)
  | savePolicy
  | loadPolicy
  /-- `adapter.update_filtered_policies("p", "p", new_rules, idx, *vals)` -/
  | updateFiltered (news : List Rule) (idx : Nat) (vals : List String)
  deriving DecidableEq, Repr

/-- notifications received by the watcher -/
inductive WCall
  | update
  | forAddPolicy (sec : Sec) (r : Rule)
  | forRemovePolicy (sec : Sec) (r : Rule)
  | forRemoveFiltered (sec : Sec) (idx : Nat) (vals : List String)
  | forAddPolicies (sec : Sec) (rs : List Rule)
  | forRemovePolicies (sec : Sec) (rs : List Rule)
  | forUpdatePolicy (old new : Rule)
  | forUpdatePolicies (olds news : List Rule)
  | forSavePolicy
  deriving DecidableEq, Repr

/-- what left the enforcer, in the order it left: calls to the adapter and notifications to the watcher (`St.ev`) -/
inductive Ev
  | adapter (c : ACall)
  | watcher (w : WCall)
  deriving DecidableEq, Repr

/-- three rule lists, one per section -/
structure Pol where
  p : List Rule := []
  g : List Rule := []
  g2 : List Rule := []
  deriving DecidableEq, Repr, Inhabited

def Pol.get (m : Pol) : Sec → List Rule
  | .p => m.p | .g => m.g | .g2 => m.g2

def Pol.set (m : Pol) (sec : Sec) (l : List Rule) : Pol :=
  match sec with
  | .p => { m with p := l } | .g => { m with g := l } | .g2 => { m with g2 := l }

structure St where
  /-- in-memory policy -/
  pol : Pol := {}
  /-- link stores of the role managers of `g`, `g2` (the `p` component is unused) -/
  links : Pol := {}
  autoSave : Bool := true
  autoBuild : Bool := true
  autoNotify : Bool := true
  /-- what the faithful adapter holds -/
  store : Pol := {}
  alog : List ACall := []
  wlog : List WCall := []
  /-- adapter calls and notifications in one sequence (the order between the two logs) -/
  ev : List Ev := []
  deriving DecidableEq, Repr, Inhabited

inductive EErr
  | indexError | priorityMismatch
  | shortGroupingRule     -- "grouping policy elements do not meet role definition"
  | adapterFailure
  | unknownSection
  deriving DecidableEq, Repr, Inhabited

inductive Ret
  | bool (b : Bool)
  | rules (rs : List Rule)
  | unit
  deriving DecidableEq, Repr, Inhabited

def ofPErr : PErr → EErr
  | .indexError => .indexError | .priorityMismatch => .priorityMismatch

def Cfg.count (cfg : Cfg) : Sec → Nat
  | .p => 0 | .g => cfg.gCount | .g2 => cfg.g2Count

/-! ## role links -/

/-- `rm.add_link(*rule[:count])` on the link store (repaired: a stored link is not stored twice) -/
def addLink (store : List Rule) (l : Rule) : List Rule := if store.contains l then store else store ++ [l]

/-- `rm.delete_link`: removing a link that is not stored is a no-op -/
def delLink (store : List Rule) (l : Rule) : List Rule := store.erase l

/-- `Assertion.build_incremental_role_links(rm, op, rules)`: every rule is truncated to `count` fields; a shorter
    rule raises (after the links of the rules before it were processed).  Removal (repaired, F28): rules that differ
    only beyond the role definition share one link, which goes with the last of them - `pol` = the rules of the
    section after the removal. -/
def incLinks (count : Nat) (add : Bool) (pol : List Rule) : List Rule → List Rule → Except EErr (List Rule)
  | store, [] => .ok store
  | store, r :: rs =>
    if r.length < count then .error .shortGroupingRule
    else incLinks count add pol
      (if add then addLink store (r.take count)
       else if pol.any (fun o => o.take count == r.take count) then store else delLink store (r.take count)) rs

/-- `Assertion.build_role_links(rm)` after `rm.clear()` -/
def buildLinks (count : Nat) (rules : List Rule) : Except EErr (List Rule) := incLinks count true [] [] rules

/-- `CoreEnforcer.build_role_links`: clear every manager, then rebuild each from its section -/
def rebuildAll (cfg : Cfg) (pol : Pol) : Except EErr Pol :=
  match buildLinks cfg.gCount pol.g with
  | .error e => .error e
  | .ok lg =>
    match buildLinks cfg.g2Count pol.g2 with
    | .error e => .error e
    | .ok lg2 => .ok { p := [], g := lg, g2 := lg2 }

/-! ## the faithful adapter -/

def applyACall (st : Pol) (cur : Pol) : ACall → Pol
  | .addPolicy sec r => st.set sec (Spec.add (st.get sec) r).1
  | .addPolicies sec rs => st.set sec (rs.foldl (fun acc r => (Spec.add acc r).1) (st.get sec))
  | .removePolicy sec r => st.set sec ((st.get sec).filter (· != r))
  | .removePolicies sec rs => st.set sec ((st.get sec).filter (fun x => !rs.contains x))
  | .removeFiltered sec idx vals => st.set sec (Spec.removeFiltered (st.get sec) idx vals).1
  | .updatePolicy sec old new => st.set sec ((st.get sec).map fun x => if x = old then new else x)
  | .updatePolicies sec olds news =>
      st.set sec ((st.get sec).map fun x => match (olds.zip news).find? (·.1 == x) with | some (_, n) => n | none => x)
  | .savePolicy => cur
  | .loadPolicy => st
  | .updateFiltered news idx vals =>
      st.set .p (news.foldl (fun acc r => (Spec.add acc r).1) ((st.get .p).filter fun r => !Spec.matchesFilter idx vals r))

/-- the common tail of the `_xxx_policy` methods of `internal_enforcer.py`:
    `if adapter and auto_save: adapter.call(...); if watcher and auto_notify_watcher: notify` -/
def persist (cfg : Cfg) (s : St) (call : ACall) (specific : Option WCall) : St :=
  if cfg.hasAdapter && s.autoSave then
    let s1 := { s with alog := s.alog ++ [call], store := applyACall s.store s.pol call, ev := s.ev ++ [.adapter call] }
    if cfg.hasWatcher && s.autoNotify then
      { s1 with wlog := s1.wlog ++ [match specific with | some w => w | none => .update],
                ev := s1.ev ++ [.watcher (match specific with | some w => w | none => .update)] }
    else s1
  else s

def exOnly (cfg : Cfg) (w : WCall) : Option WCall := if cfg.watcherEx then some w else none
def updOnly (cfg : Cfg) (w : WCall) : Option WCall := if cfg.watcherUpd then some w else none

/-! ## management calls -/

inductive Op
  | add (sec : Sec) (r : Rule)
  | addMany (sec : Sec) (rs : List Rule)
  | remove (sec : Sec) (r : Rule)
  | removeMany (sec : Sec) (rs : List Rule)
  | removeFiltered (sec : Sec) (idx : Nat) (vals : List String)
  | update (old new : Rule)
  | updateMany (olds news : List Rule)
  | clearPolicy
  | buildRoleLinks
  | savePolicy
  /-- `load_policy` from the faithful adapter, which raises after delivering `failAfter` rules (if given) -/
  | loadPolicy (failAfter : Option Nat)
  | enableAutoSave (b : Bool)
  | enableAutoBuild (b : Bool)
  | enableAutoNotify (b : Bool)
  deriving Repr

/-- link maintenance after a successful grouping change (`auto_build_role_links and <success>`) -/
def relink (cfg : Cfg) (s : St) (sec : Sec) (add : Bool) (rules : List Rule) : Except EErr St :=
  if sec = .p || !s.autoBuild then .ok s
  else match incLinks (cfg.count sec) add (s.pol.get sec) (s.links.get sec) rules with
    | .error e => .error e
    | .ok l => .ok { s with links := s.links.set sec l }

/-- the tail shared by the grouping-aware calls: incremental link maintenance, then the call's own result (the
    exception of an ill-sized grouping rule surfaces after policy, adapter and watcher were already updated) -/
def finish (cfg : Cfg) (s1 : St) (sec : Sec) (add : Bool) (rules : List Rule) (ret : Ret) : St × Except EErr Ret :=
  match relink cfg s1 sec add rules with
  | .error e => (s1, .error e)
  | .ok s2 => (s2, .ok ret)

/-- does the scripted adapter raise while delivering `total` rules? -/
def failsAt (failAfter : Option Nat) (total : Nat) : Bool :=
  match failAfter with | some k => decide (k < total) | none => false

/-- `load_policy` once the adapter has delivered everything (`new_model` = the adapter's store) -/
def loadCore (cfg : Cfg) (s0 : St) : St × Except EErr Ret :=
  let new := s0.store
  if s0.autoBuild then
    match rebuildAll cfg new with
    | .error e =>
      -- rollback: `self.build_role_links()` rebuilds from the old policy
      match rebuildAll cfg s0.pol with
      | .ok l => ({ s0 with links := l }, .error e)
      | .error _ => ({ s0 with links := {} }, .error e)
    | .ok l => ({ s0 with pol := new, links := l }, .ok .unit)
  else ({ s0 with pol := new }, .ok .unit)

/-- `Policy.add_policy` / `add_policies` (repaired, F27): a grouping rule with fewer fields than its role definition
    has `_` raises `TypeError` before anything is stored -/
def shortFor (cfg : Cfg) (sec : Sec) (rs : List Rule) : Bool :=
  sec != .p && rs.any fun r => r.length < cfg.count sec

/-- one call: new state and result, or the exception.  NB: when a call raises *after* it changed something (only
    possible for ill-sized grouping rules) the state carried by the exception is the changed one. -/
def step (cfg : Cfg) (s : St) : Op → St × Except EErr Ret
  | .add sec r =>
    let (l, ok) := Policy.add none (s.pol.get sec) r
    if !ok then (s, .ok (.bool false))
    else if shortFor cfg sec [r] then (s, .error .shortGroupingRule)   -- repaired (F27): refused before anything is stored
    else
      finish cfg (persist cfg { s with pol := s.pol.set sec l } (.addPolicy sec r) (exOnly cfg (.forAddPolicy sec r))) sec true [r] (.bool true)
  | .addMany sec rs =>
    let (l, ok) := Policy.addMany none (s.pol.get sec) rs
    if !ok then (s, .ok (.bool false))
    else if shortFor cfg sec rs then (s, .error .shortGroupingRule)
    else
      finish cfg (persist cfg { s with pol := s.pol.set sec l } (.addPolicies sec rs) (exOnly cfg (.forAddPolicies sec rs))) sec true rs (.bool true)
  | .remove sec r =>
    let (l, ok) := Policy.remove (s.pol.get sec) r
    if !ok then (s, .ok (.bool false))
    else
      finish cfg (persist cfg { s with pol := s.pol.set sec l } (.removePolicy sec r) (exOnly cfg (.forRemovePolicy sec r))) sec false [r] (.bool true)
  | .removeMany sec rs =>
    let (l, ok) := Policy.removeMany (s.pol.get sec) rs
    if !ok then (s, .ok (.bool false))
    else
      finish cfg (persist cfg { s with pol := s.pol.set sec l } (.removePolicies sec rs) (exOnly cfg (.forRemovePolicies sec rs))) sec false rs (.bool true)
  | .removeFiltered sec idx vals =>
    match sec with
    | .p =>
      match Policy.removeFiltered (s.pol.get .p) idx vals with
      | .error e => (s, .error (ofPErr e))
      | .ok (l, any) =>
        if !any then ({ s with pol := s.pol.set .p l }, .ok (.bool false))
        else
          (persist cfg { s with pol := s.pol.set .p l } (.removeFiltered .p idx vals)
            (exOnly cfg (.forRemoveFiltered .p idx vals)), .ok (.bool true))
    | sec =>
      -- grouping sections go through `_remove_filtered_policy_returns_effects` and answer the removed rules
      match Policy.removeFilteredReturnsEffects (s.pol.get sec) idx vals with
      | .error e => (s, .error (ofPErr e))
      | .ok (l, eff) =>
        if eff.isEmpty then ({ s with pol := s.pol.set sec l }, .ok (.rules []))
        else
          finish cfg (persist cfg { s with pol := s.pol.set sec l } (.removeFiltered sec idx vals)
            (exOnly cfg (.forRemoveFiltered sec idx vals))) sec false eff (.rules eff)
  | .update old new =>
    match Policy.update none (s.pol.p) old new with
    | .error e => (s, .error (ofPErr e))
    | .ok (l, ok) =>
      if !ok then (s, .ok (.bool false))
      else (persist cfg { s with pol := s.pol.set .p l } (.updatePolicy .p old new)
              (updOnly cfg (.forUpdatePolicy old new)), .ok (.bool true))
  | .updateMany olds news =>
    match Policy.updateMany none (s.pol.p) olds news with
    | .error e => (s, .error (ofPErr e))
    | .ok (l, ok) =>
      if !ok then (s, .ok (.bool false))
      else (persist cfg { s with pol := s.pol.set .p l } (.updatePolicies .p olds news)
              (updOnly cfg (.forUpdatePolicies olds news)), .ok (.bool true))
  | .clearPolicy =>
    -- repaired: with auto-build the role managers are cleared together with the rules
    ({ s with pol := {}, links := if s.autoBuild then {} else s.links }, .ok .unit)
  | .buildRoleLinks =>
    match rebuildAll cfg s.pol with
    | .error e => ({ s with links := {} }, .error e)   -- managers were cleared; not reachable with well-sized rules
    | .ok l => ({ s with links := l }, .ok .unit)
  | .savePolicy =>
    let s1 := { s with alog := s.alog ++ [.savePolicy], store := s.pol, ev := s.ev ++ [.adapter .savePolicy] }
    (if cfg.hasWatcher then
        { s1 with wlog := s1.wlog ++ [if cfg.watcherEx then .forSavePolicy else .update],
                  ev := s1.ev ++ [.watcher (if cfg.watcherEx then .forSavePolicy else .update)] }
      else s1, .ok .unit)
  | .loadPolicy failAfter =>
    let s0 := { s with alog := s.alog ++ [.loadPolicy], ev := s.ev ++ [.adapter .loadPolicy] }
    if failsAt failAfter (s.store.p.length + s.store.g.length + s.store.g2.length) then
      (s0, .error .adapterFailure)   -- `new_model` is discarded, nothing was touched
    else loadCore cfg s0
  | .enableAutoSave b => ({ s with autoSave := b }, .ok .unit)
  | .enableAutoBuild b => ({ s with autoBuild := b }, .ok .unit)
  | .enableAutoNotify b => ({ s with autoNotify := b }, .ok .unit)

def run (cfg : Cfg) (s : St) (ops : List Op) : St := ops.foldl (fun s op => (step cfg s op).1) s

/-! ## `update_filtered_policies` (kept apart from `Op`: the adapter is asked *before* memory is looked at, so the
    invariants proved for `step` do not all hold for it - see Props/C06f, C09f) -/

/-- `InternalEnforcer._update_filtered_policies("p", "p", news, idx, *vals)` (repaired, F16: the call is refused
    before anything is touched when nothing is selected, there are no new rules, or a new rule is already held outside
    the selection).  The old rules are the in-memory selection, replaced by what the adapter reports when auto-save is on (the faithful
    adapter filters its own store, replaces the selection by the new rules and returns the selection; when it raises,
    `except: pass` keeps the in-memory selection).  Then `remove_policies(old)`, `add_policies(new)` with the result
    ignored, `removed and len(new) != 0` decides about the (always generic) notification and is returned. -/
def updateFilteredStep (cfg : Cfg) (s : St) (news : List Rule) (idx : Nat) (vals : List String) :
    St × Except EErr Ret :=
  match Policy.getFiltered s.pol.p idx vals with
  | .error e => (s, .error (ofPErr e))
  | .ok oldMem =>
    if Policy.updateFilteredRefused s.pol.p oldMem news then (s, .ok (.bool false)) else
    let (s1, old) :=
      if cfg.hasAdapter && s.autoSave then
        match Policy.getFiltered s.store.p idx vals with
        | .ok oldSt =>
          let c := ACall.updateFiltered news idx vals
          ({ s with alog := s.alog ++ [c], store := applyACall s.store s.pol c, ev := s.ev ++ [.adapter c] }, oldSt)
        | .error _ => ({ s with alog := s.alog ++ [ACall.updateFiltered news idx vals],
                                 ev := s.ev ++ [.adapter (ACall.updateFiltered news idx vals)] }, oldMem)
      else (s, oldMem)
    let (l2, changed) := Policy.updateFilteredWith s1.pol.p old news
    let s2 := { s1 with pol := s1.pol.set .p l2 }
    if !changed then (s2, .ok (.bool false))
    else if cfg.hasWatcher && s2.autoNotify then
      ({ s2 with wlog := s2.wlog ++ [.update], ev := s2.ev ++ [.watcher .update] }, .ok (.bool true))
    else (s2, .ok (.bool true))

/-- management calls including the filtered update -/
inductive OpX
  | base (op : Op)
  | updateFiltered (news : List Rule) (idx : Nat) (vals : List String)
  deriving Repr

def stepX (cfg : Cfg) (s : St) : OpX → St × Except EErr Ret
  | .base op => step cfg s op
  | .updateFiltered news idx vals => updateFilteredStep cfg s news idx vals

/-! ## queries -/

/-- edges of the role graph a manager answers from; with a domain only the links recorded for it -/
def edgesOf (store : List Rule) (dom : Option String) : Graph :=
  store.filterMap fun l =>
    match l, dom with
    | [u, r], none => some (u, r)
    | [u, r, d], some d' => if d == d' then some (u, r) else none
    | _, _ => none

def maxLevel : Nat := 10

/-- `rm.has_link(n1, n2[, dom])` -/
def hasLinkQ (store : List Rule) (n1 n2 : String) (dom : Option String) : Bool :=
  hasLink (edgesOf store dom) maxLevel n1 n2

/-- `rm.get_roles(name[, dom])` — the code answers from a `set`; the order is not observable -/
def getRoles (store : List Rule) (name : String) (dom : Option String) : List String :=
  ((edgesOf store dom).filter (·.1 == name)).map (·.2)

def getUsers (store : List Rule) (name : String) (dom : Option String) : List String :=
  ((edgesOf store dom).filter (·.2 == name)).map (·.1)

/-- the matcher shapes the enforcer-level properties are stated for -/
inductive Shape
  | rbac        -- m = g(r.sub, p.sub) && r.obj == p.obj && r.act == p.act
  | rbacDom     -- m = g(r.sub, p.sub, r.dom) && r.dom == p.dom && r.obj == p.obj && r.act == p.act
  | rbacRes     -- m = g(r.sub, p.sub) && g2(r.obj, p.obj) && r.act == p.act
  deriving DecidableEq, Repr, Inhabited

def Shape.arity : Shape → Nat | .rbac => 3 | .rbacDom => 4 | .rbacRes => 3

def matcher (sh : Shape) (links : Pol) (req pv : List String) : MVal :=
  match sh, req, pv with
  | .rbac, [rs, ro, ra], ps :: po :: pa :: _ => .bool (hasLinkQ links.g rs ps none && ro == po && ra == pa)
  | .rbacDom, [rs, rd, ro, ra], ps :: pd :: po :: pa :: _ =>
      .bool (hasLinkQ links.g rs ps (some rd) && rd == pd && ro == po && ra == pa)
  | .rbacRes, [rs, ro, ra], ps :: po :: pa :: _ =>
      .bool (hasLinkQ links.g rs ps none && hasLinkQ links.g2 ro po none && ra == pa)
  | _, _, _ => .other false

/-- `enforce(*req)` for an allow-override model without effect column -/
def enforceQ (sh : Shape) (s : St) (req : List String) : Except Err Bool :=
  enforce { kind := .allowOverride, rArity := sh.arity, pArity := sh.arity } (matcher sh s.links) s.pol.p req

end Casbin.Enf

/-! ## RBAC query API (`enforcer.py`) -/
namespace Casbin.Enf
open Casbin.Policy

/-- one round of the inner `for r in roles: if r not in res: res.append(r); queue.append(r)` -/
def visitRoles : List String → List String → List String → List String × List String
  | [], queue, res => (queue, res)
  | r :: rs, queue, res =>
    if res.contains r then visitRoles rs queue res else visitRoles rs (queue ++ [r]) (res ++ [r])

/-- `get_implicit_roles_for_user`: the `while queue:` loop with explicit fuel; `none` = fuel exhausted (never
    happens with `fuel ≥` number of names + 1, checked at run time by the driver) -/
def implicitLoop (g : Graph) : Nat → List String → List String → Option (List String)
  | _, [], res => some res
  | 0, _ :: _, _ => none
  | fuel + 1, n :: queue, res =>
    let (q', res') := visitRoles (succs g n) queue res
    implicitLoop g fuel q' res'

def namesOf (g : Graph) : List String := (g.map (·.1) ++ g.map (·.2)).eraseDups

def implicitRoles (store : List Rule) (name : String) (dom : Option String) : Option (List String) :=
  let g := edgesOf store dom
  implicitLoop g ((namesOf g).length + 2) [name] []

/-- `get_permissions_for_user(user)` = `get_filtered_policy(0, user)` (rules whose first field is the user) -/
def permissionsFor (p : List Rule) (user : String) : List Rule := p.filter fun r => r[0]? == some user

/-- `get_implicit_permissions_for_user(user)` (no domain): permissions of the user and of every implicit role -/
def implicitPermissions (s : St) (user : String) : Option (List Rule) :=
  (implicitRoles s.links.g user none).map fun roles => (user :: roles).flatMap (permissionsFor s.pol.p)

/-- keep the first occurrence of every string (`array_remove_duplicates`) -/
def dedupS : List String → List String
  | [] => []
  | x :: xs => x :: (dedupS xs).filter (· != x)

/-- `get_values_for_field_in_policy` on well-sized rules -/
def fieldValues (l : List Rule) (idx : Nat) : List String := dedupS (l.filterMap (·[idx]?))

/-- `get_implicit_users_for_permission(*permission)` for the RBAC shape: the candidate subjects are the subjects of
    `g` and `p` that are not a role (second field of a `g` rule); kept when `enforce` allows -/
def implicitUsersForPermission (s : St) (perm : List String) : List String :=
  let subjects := dedupS (fieldValues s.pol.g 0 ++ fieldValues s.pol.p 0)
  let inherit := fieldValues s.pol.g 1
  (subjects.filter fun x => !inherit.contains x).filter fun u =>
    match enforceQ .rbac s (u :: perm) with
    | .ok true => true
    | _ => false

end Casbin.Enf
