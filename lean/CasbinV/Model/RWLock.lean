/-!
# Model of `casbin/util/rwlock.py` (C16)

Two layers, both import-free:

* **the interpreter** (`step`): the four methods of `RWLockWrite` are instruction lists (`Prog`, regenerated
  from the source by translator T3 into `Gen/RWLockProg.lean`); a system is the three variables plus a finite
  list of threads, each at a program point of one method. One step of thread `i` is one of: start a round,
  take the mutex (`with self._lock:`; enabled only when no thread holds it), execute ONE instruction while
  holding it, go to sleep in `self._cond.wait()` (which releases the mutex), re-take the mutex after having been
  notified, release the mutex at the end of the `with` block, start the release method.
  `threading.RLock` / `Condition` are modelled (trusted): the mutex is "at most one thread in phase `hold`",
  the condition is the set of threads in phase `sleep`; `notify_all` moves all of them to `woken`;
  spurious wake-ups are a separate action (`spurious`).
* **the counter abstraction** (`CS`, `CStep`): threads are symmetric, so a state is the three variables plus the
  number of threads at each program point of the expected program. All invariants are linear arithmetic.
  `abs` maps an interpreter state to a counter state; `Props/C16.lean` proves that every interpreter step of
  the expected program is a `CStep` of the abstraction (`sim_step`), so the theorems transfer.

Python `int` is unbounded and may go negative, hence `Int` for the two counters.
-/
namespace Casbin.RW

inductive Var | ar | ww deriving DecidableEq, Repr        -- _active_readers, _waiting_writers

inductive Cond
  | pos (v : Var)            -- self._v > 0
  | isZero (v : Var)         -- self._v == 0
  | flag                     -- self._writer_active
  | not (c : Cond) | or (a b : Cond) | and (a b : Cond)
  deriving DecidableEq, Repr

/-- statements allowed inside `with self._lock:`; `ifThen c n` guards the next `n` instructions -/
inductive Instr
  | inc (v : Var) | dec (v : Var) | setFlag (b : Bool)
  | waitWhile (c : Cond)     -- while c: self._cond.wait()
  | notifyAll                -- self._cond.notify_all()
  | ifThen (c : Cond) (n : Nat)
  deriving DecidableEq, Repr

inductive Meth | acqR | relR | acqW | relW deriving DecidableEq, Repr
inductive CM | read | write deriving DecidableEq, Repr     -- ReadRWLock / WriteRWLock
inductive Role | reader | writer deriving DecidableEq, Repr  -- a thread round: `with gen_rlock():` / `with gen_wlock():`

structure Prog where
  initAr : Int
  initWw : Int
  initWa : Bool
  acqR : List Instr
  relR : List Instr
  acqW : List Instr
  relW : List Instr
  genR : CM                  -- class returned by gen_rlock
  genW : CM
  readEnter : Meth           -- ReadRWLock.__enter__ calls …
  readExit : Meth
  writeEnter : Meth
  writeExit : Meth
  deriving DecidableEq, Repr

/-- the program `Gen.rwlockProg` is expected to be equal to (first obligation of `Props/C16.lean`) -/
def expected : Prog := {
  initAr := 0, initWw := 0, initWa := false,
  acqR := [.waitWhile (.or (.pos .ww) .flag), .inc .ar],
  relR := [.dec .ar, .ifThen (.isZero .ar) 1, .notifyAll],
  acqW := [.inc .ww, .waitWhile (.or (.pos .ar) .flag), .dec .ww, .setFlag true],
  relW := [.setFlag false, .notifyAll],
  genR := .read, genW := .write,
  readEnter := .acqR, readExit := .relR, writeEnter := .acqW, writeExit := .relW }

def Prog.body (P : Prog) : Meth → List Instr
  | .acqR => P.acqR | .relR => P.relR | .acqW => P.acqW | .relW => P.relW

/-- the method a round of role `r` runs on entering (`leaving = false`) / leaving its section -/
def Prog.methOf (P : Prog) (r : Role) (leaving : Bool) : Meth :=
  match (match r with | .reader => P.genR | .writer => P.genW), leaving with
  | .read, false => P.readEnter | .read, true => P.readExit
  | .write, false => P.writeEnter | .write, true => P.writeExit

structure Vars where
  ar : Int
  ww : Int
  wa : Bool
  deriving DecidableEq, Repr

def Vars.get (v : Vars) : Var → Int | .ar => v.ar | .ww => v.ww
def Vars.set (v : Vars) : Var → Int → Vars | .ar, x => { v with ar := x } | .ww, x => { v with ww := x }

def Cond.eval (v : Vars) : Cond → Bool
  | .pos x => decide (0 < v.get x)
  | .isZero x => decide (v.get x = 0)
  | .flag => v.wa
  | .not c => !(c.eval v)
  | .or a b => a.eval v || b.eval v
  | .and a b => a.eval v && b.eval v

inductive Phase
  | want    -- at `with self._lock:`, contending for the mutex
  | hold    -- holds the mutex; about to execute the head of `rest` (or to leave the `with` block when `rest = []`)
  | sleep   -- inside `self._cond.wait()`, mutex released, not yet notified
  | woken   -- notified, contending for the mutex again (will re-evaluate the `while` condition)
  deriving DecidableEq, Repr

inductive Loc
  | idle
  | exec (r : Role) (leaving : Bool) (ph : Phase) (rest : List Instr)
  | inside (r : Role)
  deriving DecidableEq, Repr

structure Thread where
  loc : Loc
  todo : List Role        -- remaining rounds
  deriving DecidableEq, Repr

structure Sys where
  v : Vars
  ts : List Thread
  deriving DecidableEq, Repr

def Prog.init (P : Prog) (scripts : List (List Role)) : Sys :=
  { v := { ar := P.initAr, ww := P.initWw, wa := P.initWa }, ts := scripts.map fun sc => { loc := .idle, todo := sc } }

def Loc.holds : Loc → Bool
  | .exec _ _ .hold _ => true
  | _ => false

def mutexFree (ts : List Thread) : Bool := ts.all fun t => !t.loc.holds

/-- effect of `notify_all` on another thread -/
def wake (t : Thread) : Thread :=
  match t.loc with
  | .exec r lv .sleep rest => { t with loc := .exec r lv .woken rest }
  | _ => t

/-- one step of thread `i`; `none` = not enabled (absent thread, finished, sleeping, or mutex busy) -/
def step (P : Prog) (s : Sys) (i : Nat) : Option Sys :=
  match s.ts[i]? with
  | none => none
  | some t =>
    match t.loc with
    | .idle =>
      match t.todo with
      | [] => none
      | r :: todo => some { s with ts := s.ts.set i { loc := .exec r false .want (P.body (P.methOf r false)), todo := todo } }
    | .inside r => some { s with ts := s.ts.set i { t with loc := .exec r true .want (P.body (P.methOf r true)) } }
    | .exec r lv .want rest =>
      if mutexFree s.ts then some { s with ts := s.ts.set i { t with loc := .exec r lv .hold rest } } else none
    | .exec r lv .woken rest =>
      if mutexFree s.ts then some { s with ts := s.ts.set i { t with loc := .exec r lv .hold rest } } else none
    | .exec _ _ .sleep _ => none
    | .exec r lv .hold [] =>
      some { s with ts := s.ts.set i { t with loc := if lv then .idle else .inside r } }
    | .exec r lv .hold (.inc x :: rest) =>
      some { v := s.v.set x (s.v.get x + 1), ts := s.ts.set i { t with loc := .exec r lv .hold rest } }
    | .exec r lv .hold (.dec x :: rest) =>
      some { v := s.v.set x (s.v.get x - 1), ts := s.ts.set i { t with loc := .exec r lv .hold rest } }
    | .exec r lv .hold (.setFlag b :: rest) =>
      some { v := { s.v with wa := b }, ts := s.ts.set i { t with loc := .exec r lv .hold rest } }
    | .exec r lv .hold (.waitWhile c :: rest) =>
      if c.eval s.v then some { s with ts := s.ts.set i { t with loc := .exec r lv .sleep (.waitWhile c :: rest) } }
      else some { s with ts := s.ts.set i { t with loc := .exec r lv .hold rest } }
    | .exec r lv .hold (.notifyAll :: rest) =>
      some { s with ts := (s.ts.map wake).set i { t with loc := .exec r lv .hold rest } }
    | .exec r lv .hold (.ifThen c n :: rest) =>
      some { s with ts := s.ts.set i { t with loc := .exec r lv .hold (if c.eval s.v then rest else rest.drop n) } }

/-- a spurious wake-up of thread `i` (allowed by the documentation of `Condition.wait`) -/
def spurious (s : Sys) (i : Nat) : Option Sys :=
  match s.ts[i]? with
  | some t =>
    match t.loc with
    | .exec r lv .sleep rest => some { s with ts := s.ts.set i { t with loc := .exec r lv .woken rest } }
    | _ => none
  | none => none

def enabled (P : Prog) (s : Sys) : List Nat := (List.range s.ts.length).filter fun i => (step P s i).isSome

def allDone (s : Sys) : Bool := s.ts.all fun t => t.loc == .idle && t.todo.isEmpty

/-- run thread `i` through its critical section: at least one step, then further steps while it holds the mutex
    (what the harness' scheduler observes as ONE scheduling step of the real thread) -/
def runHold (P : Prog) (s : Sys) (i : Nat) : Nat → Sys
  | 0 => s
  | fuel + 1 =>
    match s.ts[i]? with
    | some t => if t.loc.holds then (match step P s i with | some s' => runHold P s' i fuel | none => s) else s
    | none => s

def macroStep (P : Prog) (s : Sys) (i : Nat) : Option Sys :=
  match step P s i with
  | none => none
  | some s' => some (runHold P s' i 64)

/-! ## What the property says, evaluated on a state / transition (used by the driver as `spec=`) -/

def nInside (r : Role) (s : Sys) : Nat := s.ts.countP fun t => t.loc == .inside r

/-- a writer inside is alone -/
def exclOk (s : Sys) : Bool := nInside .writer s == 0 || (nInside .writer s == 1 && nInside .reader s == 0)

/-- a writer that has announced itself and is still waiting (asleep or woken inside the acquire of a writer round) -/
def writerWaiting (s : Sys) : Bool :=
  s.ts.any fun t => match t.loc with
    | .exec .writer false .sleep _ => true
    | .exec .writer false .woken _ => true
    | _ => false

/-- transition check: no reader gets inside while a writer is waiting -/
def prefOk (s s' : Sys) : Bool := !(nInside .reader s < nInside .reader s' && writerWaiting s)

def deadlocked (P : Prog) (s : Sys) : Bool := !allDone s && (enabled P s).isEmpty

/-! ## Breadth-first search for a shortest violating schedule (used on the REGENERATED program when the proof
    obligation `generated = expected` or the correspondence breaks) -/

inductive Bad | excl | pref | dead deriving DecidableEq, Repr

def badStep (P : Prog) (b : Bad) (s s' : Sys) : Bool :=
  match b with
  | .excl => !exclOk s'
  | .pref => !prefOk s s'
  | .dead => deadlocked P s'

/-- frontier = (state, reversed schedule); `seen` = visited states -/
def bfsLoop (P : Prog) (b : Bad) (micro : Bool) :
    Nat → List (Sys × List Nat) → List Sys → Option (List Nat)
  | 0, _, _ => none
  | _, [], _ => none
  | fuel + 1, frontier, seen =>
    let expand := frontier.foldl (init := ((none : Option (List Nat)), ([] : List (Sys × List Nat)), seen))
      fun (acc : Option (List Nat) × List (Sys × List Nat) × List Sys) (sp : Sys × List Nat) =>
        match acc.1 with
        | some _ => acc
        | none =>
          (List.range sp.1.ts.length).foldl (init := acc) fun acc i =>
            match acc.1 with
            | some _ => acc
            | none =>
              match (if micro then step P sp.1 i else macroStep P sp.1 i) with
              | none => acc
              | some s' =>
                if badStep P b sp.1 s' then (some (i :: sp.2), acc.2.1, acc.2.2)
                else if acc.2.2.contains s' then acc
                else (none, (s', i :: sp.2) :: acc.2.1, s' :: acc.2.2)
    match expand.1 with
    | some sched => some sched.reverse
    | none => bfsLoop P b micro fuel expand.2.1.reverse expand.2.2

def bfs (P : Prog) (b : Bad) (micro : Bool) (scripts : List (List Role)) (depth : Nat) : Option (List Nat) :=
  let s0 := P.init scripts
  if b == .dead && deadlocked P s0 then some [] else bfsLoop P b micro depth [(s0, [])] [s0]

/-! ## Counter abstraction of the expected program -/

/-- program points of the expected program (`H k` = holds the mutex with `k` instructions of the method done) -/
inductive Cls
  | idle
  | rW | rH0 | rS | rN | rH1 | rH2 | rIn            -- aquire_read: want, hold@while, asleep, notified, hold@inc, hold@end, inside
  | rrW | rrH0 | rrH1 | rrH1n | rrH2                -- release_read: want, hold@dec, hold@if, hold@notify_all, hold@end
  | wW | wH0 | wH1 | wS | wN | wH2 | wH3 | wH4 | wIn -- aquire_write: want, hold@inc, hold@while, asleep, notified, hold@dec, hold@set, hold@end, inside
  | wrW | wrH0 | wrH1 | wrH2                        -- release_write: want, hold@set, hold@notify_all, hold@end
  | bad                                             -- not a program point of the expected program
  deriving DecidableEq, Repr

def cR : Cond := .or (.pos .ww) .flag
def cW : Cond := .or (.pos .ar) .flag

/-- the location of each program point -/
def Cls.loc : Cls → Loc
  | .idle => .idle
  | .rW => .exec .reader false .want [.waitWhile cR, .inc .ar]
  | .rH0 => .exec .reader false .hold [.waitWhile cR, .inc .ar]
  | .rS => .exec .reader false .sleep [.waitWhile cR, .inc .ar]
  | .rN => .exec .reader false .woken [.waitWhile cR, .inc .ar]
  | .rH1 => .exec .reader false .hold [.inc .ar]
  | .rH2 => .exec .reader false .hold []
  | .rIn => .inside .reader
  | .rrW => .exec .reader true .want [.dec .ar, .ifThen (.isZero .ar) 1, .notifyAll]
  | .rrH0 => .exec .reader true .hold [.dec .ar, .ifThen (.isZero .ar) 1, .notifyAll]
  | .rrH1 => .exec .reader true .hold [.ifThen (.isZero .ar) 1, .notifyAll]
  | .rrH1n => .exec .reader true .hold [.notifyAll]
  | .rrH2 => .exec .reader true .hold []
  | .wW => .exec .writer false .want [.inc .ww, .waitWhile cW, .dec .ww, .setFlag true]
  | .wH0 => .exec .writer false .hold [.inc .ww, .waitWhile cW, .dec .ww, .setFlag true]
  | .wH1 => .exec .writer false .hold [.waitWhile cW, .dec .ww, .setFlag true]
  | .wS => .exec .writer false .sleep [.waitWhile cW, .dec .ww, .setFlag true]
  | .wN => .exec .writer false .woken [.waitWhile cW, .dec .ww, .setFlag true]
  | .wH2 => .exec .writer false .hold [.dec .ww, .setFlag true]
  | .wH3 => .exec .writer false .hold [.setFlag true]
  | .wH4 => .exec .writer false .hold []
  | .wIn => .inside .writer
  | .wrW => .exec .writer true .want [.setFlag false, .notifyAll]
  | .wrH0 => .exec .writer true .hold [.setFlag false, .notifyAll]
  | .wrH1 => .exec .writer true .hold [.notifyAll]
  | .wrH2 => .exec .writer true .hold []
  | .bad => .exec .reader false .sleep []

def Cls.all : List Cls :=
  [.idle, .rW, .rH0, .rS, .rN, .rH1, .rH2, .rIn, .rrW, .rrH0, .rrH1, .rrH1n, .rrH2,
   .wW, .wH0, .wH1, .wS, .wN, .wH2, .wH3, .wH4, .wIn, .wrW, .wrH0, .wrH1, .wrH2]

/-- program point of a location (`bad` when it is none of the expected program's) -/
def clsOf (l : Loc) : Cls := (Cls.all.find? fun c => c.loc == l).getD .bad

def cnt (c : Cls) (ts : List Thread) : Nat := ts.countP fun t => clsOf t.loc == c

structure CS where
  ar : Int
  ww : Int
  wa : Nat      -- 1 when `_writer_active`, else 0
  idle : Nat
  rW : Nat
  rH0 : Nat
  rS : Nat
  rN : Nat
  rH1 : Nat
  rH2 : Nat
  rIn : Nat
  rrW : Nat
  rrH0 : Nat
  rrH1 : Nat
  rrH1n : Nat
  rrH2 : Nat
  wW : Nat
  wH0 : Nat
  wH1 : Nat
  wS : Nat
  wN : Nat
  wH2 : Nat
  wH3 : Nat
  wH4 : Nat
  wIn : Nat
  wrW : Nat
  wrH0 : Nat
  wrH1 : Nat
  wrH2 : Nat
  deriving DecidableEq, Repr

def abs (s : Sys) : CS :=
  { ar := s.v.ar, ww := s.v.ww, wa := if s.v.wa then 1 else 0,
    idle := cnt .idle s.ts,
    rW := cnt .rW s.ts, rH0 := cnt .rH0 s.ts, rS := cnt .rS s.ts, rN := cnt .rN s.ts, rH1 := cnt .rH1 s.ts,
    rH2 := cnt .rH2 s.ts, rIn := cnt .rIn s.ts,
    rrW := cnt .rrW s.ts, rrH0 := cnt .rrH0 s.ts, rrH1 := cnt .rrH1 s.ts, rrH1n := cnt .rrH1n s.ts, rrH2 := cnt .rrH2 s.ts,
    wW := cnt .wW s.ts, wH0 := cnt .wH0 s.ts, wH1 := cnt .wH1 s.ts, wS := cnt .wS s.ts, wN := cnt .wN s.ts,
    wH2 := cnt .wH2 s.ts, wH3 := cnt .wH3 s.ts, wH4 := cnt .wH4 s.ts, wIn := cnt .wIn s.ts,
    wrW := cnt .wrW s.ts, wrH0 := cnt .wrH0 s.ts, wrH1 := cnt .wrH1 s.ts, wrH2 := cnt .wrH2 s.ts }

/-- number of threads holding the mutex -/
def CS.holders (s : CS) : Nat :=
  s.rH0 + s.rH1 + s.rH2 + s.rrH0 + s.rrH1 + s.rrH1n + s.rrH2 +
  s.wH0 + s.wH1 + s.wH2 + s.wH3 + s.wH4 + s.wrH0 + s.wrH1 + s.wrH2

/-- threads that are somewhere inside a round -/
def CS.busy (s : CS) : Nat :=
  s.rW + s.rS + s.rN + s.rIn + s.rrW + s.wW + s.wS + s.wN + s.wIn + s.wrW + s.holders

/-- `notify_all`: every sleeper becomes a notified contender -/
def CS.wakeAll (s : CS) : CS := { s with rN := s.rN + s.rS, rS := 0, wN := s.wN + s.wS, wS := 0 }

/-- the invariants of `Props/C16.lean`, as an executable check (the driver evaluates it on every visited state) -/
def CS.invOk (s : CS) : Bool :=
  decide (s.holders ≤ 1) &&
  decide (s.ar = (s.rH2 + s.rIn + s.rrW + s.rrH0 : Nat)) &&
  decide (s.wa = s.wH4 + s.wIn + s.wrW + s.wrH0) &&
  decide (s.ww = (s.wH1 + s.wS + s.wN + s.wH2 : Nat)) &&
  (decide (s.wa = 0) || decide (s.ar = 0))

end Casbin.RW
