/-!
# Model of `casbin/synced_enforcer.py` (C17)

* the row type of the wrapper table regenerated from the source by translator T2 (`Gen/SyncedTable.lean`);
* the classification of the wrapped enforcer's methods into mutating / reading / pure, and the two executable
  checks on a row (`disciplineOk`, `forwardingOk`) that `Props/C17.lean` proves for every generated row;
* a generic concurrent system over any sequential object `(σ, apply : Op → σ → σ × Ret)` whose calls are bracketed
  by an abstract readers-writer lock: `invoke → begin (snapshot of σ) → commit (apply on the snapshot) → idle`.

## The classification (trusted, guarded at run time)

`classify callee` says what a method of the plain `Enforcer` does to the abstract state *policy, role links,
model, configuration (flags, adapter/watcher/effector/role-manager identity, function map, field-index map)*:

* `reads`  — returns information, leaves the abstract state unchanged (caches may be filled): every `get_*`,
  `has_*`, `is_*`, `enforce`, `enforce_ex`, `batch_enforce`, and `save_policy` (writes the *adapter's* store and
  notifies the watcher; the enforcer's own state is untouched).
* `pure`   — does not even read the enforcer: `new_enforce_context` builds a value from its argument.
* `mutates` — everything else (management API, RBAC API, load/clear, `build_role_links`, setters, `enable_*`,
  function/matching-function/condition-function registration, `set_field_index`). Unknown names are `mutates`
  unless they start with `get_`/`has_`/`is_` — so a new wrapper is accepted only with a lock at least as strong as
  its name suggests.

The harness observes every wrapped method on sample enforcers (canonical snapshot before/after): a callee
classified `reads`/`pure` that changes the snapshot is reported, which ties this list to the code.

"Caches may be filled", precisely: a reading call may create the role object of a name the role manager has not met
(`RoleManager._get_role`), build and keep the manager of a domain it has not served (`DomainManager._get_role_manager`)
and re-derive the `g` closures into the function map. The protocol theorems are therefore also stated for an object
that changes its REPRESENTATION under the read lock but not the abstraction the answers are about
(`Props/C17.lean`, `Memo`, `memo_linearizable`, `memo_read_unobservable`). One memoisation is NOT of that kind: with a
role matching function, the first sight of a name links it to the roles its pattern grants, and `get_users_for_role` of
those roles lists it from then on (on a plain enforcer too). Since the repair of F33 that step is atomic and idempotent
(created once under the role manager's own lock, published when linked); its linearizability is checked by the
harness against all sequential orders (first-sight stream), not proved here.
-/
namespace Casbin.Synced

inductive LockMode | none | read | write deriving DecidableEq, Repr

inductive Param
  | pos (name : String)
  | posDefault (name dflt : String)
  | star (name : String)
  | kwonly (name dflt : String)
  | kwargs (name : String)
  deriving DecidableEq, Repr

inductive Arg
  | pos (name : String)          -- a positional argument that is exactly the parameter `name`
  | star (name : String)         -- *name
  | kw (key value : String)      -- key=value, value a bare parameter name
  | kwstar (name : String)       -- **name
  | expr (src : String)          -- anything else
  deriving DecidableEq, Repr

inductive Shape
  | wrap (mode : LockMode) (callee : String) (args : List Arg) (returns : Bool)
  | locked (mode : LockMode) (src : String)
  | other (src : String) (uses : List String)
  deriving DecidableEq, Repr

structure Row where
  name : String
  isPrivate : Bool
  params : List Param
  shape : Shape
  deriving DecidableEq, Repr

inductive Class | mutates | reads | pure deriving DecidableEq, Repr

def readsList : List String := [
  "get_model", "get_role_manager", "get_named_role_manager", "get_adapter", "save_policy", "enforce", "enforce_ex", "batch_enforce",
  "get_all_subjects", "get_all_named_subjects", "get_all_objects", "get_all_named_objects", "get_all_actions",
  "get_all_named_actions", "get_all_roles", "get_all_named_roles", "get_policy", "get_filtered_policy",
  "get_named_policy", "get_filtered_named_policy", "get_grouping_policy", "get_filtered_grouping_policy",
  "get_named_grouping_policy", "get_filtered_named_grouping_policy", "has_policy", "has_named_policy",
  "has_grouping_policy", "has_named_grouping_policy", "get_roles_for_user", "get_users_for_role", "has_role_for_user",
  "get_permissions_for_user", "has_permission_for_user", "get_implicit_roles_for_user",
  "get_implicit_permissions_for_user", "get_named_implicit_permissions_for_user", "get_implicit_users_for_permission",
  "get_roles_for_user_in_domain", "get_users_for_role_in_domain", "get_permissions_for_user_in_domain",
  "get_named_permissions_for_user_in_domain", "is_filtered", "get_field_index", "get_all_roles_by_domain",
  "get_implicit_users_for_resource", "get_implicit_users_for_resource_by_domain"]

def pureList : List String := ["new_enforce_context"]

def classify (callee : String) : Class :=
  if pureList.contains callee then .pure
  else if readsList.contains callee || callee.startsWith "get_" || callee.startsWith "has_" || callee.startsWith "is_" then .reads
  else .mutates

/-- wrapped methods that return `None`: for these a wrapper without `return` is indistinguishable -/
def noneReturning : List String := ["set_role_manager", "set_adapter", "set_watcher", "set_effector", "set_field_index"]

/-- attributes of the auto-reload machinery (disjoint from the wrapped enforcer and the lock) -/
def autoLoadAttrs : List String :=
  ["_auto_loading.value", "_auto_loading_thread", "_auto_loading_thread.start", "is_auto_loading_running", "_auto_load_policy"]

/-- what the private reload loop may touch: the flag, the public `load_policy` wrapper, the logger -/
def reloadLoopAttrs : List String := ["is_auto_loading_running", "load_policy", "_e.logger.error"]

/-- lock discipline of one row -/
def disciplineOk (r : Row) : Bool :=
  match r.shape with
  | .wrap mode callee _ _ =>
    match classify callee with
    | .mutates => mode == .write
    | .reads => mode != .none
    | .pure => true
  | .locked mode _ => mode == .write
  | .other _ uses => if r.isPrivate then uses.all reloadLoopAttrs.contains else uses.all autoLoadAttrs.contains

def Param.forward : Param → Arg
  | .pos n => .pos n
  | .posDefault n _ => .pos n
  | .star n => .star n
  | .kwonly n _ => .kw n n
  | .kwargs n => .kwstar n

/-- a plain forward calls the method of the same name, passes every parameter once, in order, and returns the value -/
def forwardingOk (r : Row) : Bool :=
  match r.shape with
  | .wrap _ callee args returns =>
    callee == r.name && args == r.params.map Param.forward && (returns || noneReturning.contains callee)
  | _ => true

/-- the four attributes everything hangs on -/
def initOk (init : List (String × String)) : Bool :=
  init.lookup "_e" == some "Enforcer(model, adapter)" &&
  init.lookup "_rwlock" == some "RWLockWrite()" &&
  init.lookup "_rl" == some "self._rwlock.gen_rlock()" &&
  init.lookup "_wl" == some "self._rwlock.gen_wlock()" &&
  (init.filter fun p => p.1 == "_e" || p.1 == "_rwlock" || p.1 == "_rl" || p.1 == "_wl").length == 4

/-- the lock mode a row takes (`none` for unlocked bodies) -/
def Row.mode (r : Row) : LockMode :=
  match r.shape with
  | .wrap m _ _ _ => m
  | .locked m _ => m
  | .other _ _ => .none

/-! ## Generic concurrent system: a sequential object behind an abstract readers-writer lock -/

structure Obj (σ Op Ret : Type) where
  apply : Op → σ → σ × Ret
  mode : Op → LockMode

inductive Th (σ Op : Type) where
  | idle
  | waiting (o : Op) (tInv : Nat)                 -- invoked at time tInv, acquiring the lock
  | inside (o : Op) (snap : σ) (tInv : Nat)       -- lock held, the wrapped call is running on what it saw at `begin`

structure Entry (Op Ret : Type) where
  tid : Nat
  op : Op
  ret : Ret
  tInv : Nat
  tCom : Nat

structure St (σ Op Ret : Type) where
  cur : σ
  th : Nat → Th σ Op
  log : List (Entry Op Ret)        -- commit order
  now : Nat                        -- global clock, advanced by every step

def upd {α : Type} (f : Nat → α) (t : Nat) (v : α) : Nat → α := fun u => if u = t then v else f u

variable {σ Op Ret : Type}

def writerInside (O : Obj σ Op Ret) (s : St σ Op Ret) : Prop :=
  ∃ u o sn ti, s.th u = .inside o sn ti ∧ O.mode o = .write

def lockedInside (O : Obj σ Op Ret) (s : St σ Op Ret) : Prop :=
  ∃ u o sn ti, s.th u = .inside o sn ti ∧ O.mode o ≠ .none

inductive Step (O : Obj σ Op Ret) : St σ Op Ret → St σ Op Ret → Prop
  | invoke (s : St σ Op Ret) (t : Nat) (o : Op) : s.th t = .idle →
      Step O s { s with th := upd s.th t (.waiting o s.now), now := s.now + 1 }
  | beginR (s : St σ Op Ret) (t : Nat) (o : Op) (ti : Nat) : s.th t = .waiting o ti → O.mode o = .read → ¬ writerInside O s →
      Step O s { s with th := upd s.th t (.inside o s.cur ti), now := s.now + 1 }
  | beginW (s : St σ Op Ret) (t : Nat) (o : Op) (ti : Nat) : s.th t = .waiting o ti → O.mode o = .write → ¬ lockedInside O s →
      Step O s { s with th := upd s.th t (.inside o s.cur ti), now := s.now + 1 }
  | beginN (s : St σ Op Ret) (t : Nat) (o : Op) (ti : Nat) : s.th t = .waiting o ti → O.mode o = .none →
      Step O s { s with th := upd s.th t (.inside o s.cur ti), now := s.now + 1 }
  | commit (s : St σ Op Ret) (t : Nat) (o : Op) (sn : σ) (ti : Nat) : s.th t = .inside o sn ti → O.mode o ≠ .none →
      Step O s { cur := (O.apply o sn).1, th := upd s.th t .idle,
                 log := s.log ++ [{ tid := t, op := o, ret := (O.apply o sn).2, tInv := ti, tCom := s.now }], now := s.now + 1 }
  | commitN (s : St σ Op Ret) (t : Nat) (o : Op) (sn : σ) (ti : Nat) : s.th t = .inside o sn ti → O.mode o = .none →
      Step O s { s with th := upd s.th t .idle, now := s.now + 1,
                        log := s.log ++ [{ tid := t, op := o, ret := (O.apply o sn).2, tInv := ti, tCom := s.now }] }

def St.init (x : σ) : St σ Op Ret := { cur := x, th := fun _ => .idle, log := [], now := 0 }

inductive Reach (O : Obj σ Op Ret) (x : σ) : St σ Op Ret → Prop
  | init : Reach O x (St.init x)
  | step {s t : St σ Op Ret} : Reach O x s → Step O s t → Reach O x t

/-- the sequential run of a list of calls on the plain object -/
def seqRun (apply : Op → σ → σ × Ret) (x : σ) : List Op → σ × List Ret
  | [] => (x, [])
  | o :: os =>
    let r := apply o x
    let rest := seqRun apply r.1 os
    (rest.1, r.2 :: rest.2)

end Casbin.Synced
