import CasbinV.Model.Basic
/-!
# Model of `CoreEnforcer.enforce_ex` (casbin/core_enforcer.py) and of the effectors
  (casbin/effect/default_effectors.py, casbin/effect/__init__.py)

Import-free (core Lean only) so that the line-protocol driver links as a `lean_exe`.

Python → Lean:
* `policy_effects = set()` over `{ALLOW, INDETERMINATE, DENY}` is `EffSet` (three booleans); sound
  because effectors only ever ask `K in effects` (enforced by translator T1's grammar).
* the matcher (`expression.eval(parameters)`) is a parameter `m : List ρ → List String → MVal`;
  `MVal` keeps exactly what the loop looks at: `isinstance(result, bool)`, `isinstance(result, float)`,
  zero-ness, and Python truthiness (used only by the empty-policy branch).
* exceptions are `Except Err`.
-/
namespace Casbin

inductive Eft | allow | indet | deny
  deriving DecidableEq, Repr, Inhabited

inductive EffectKind | allowOverride | denyOverride | allowAndDeny | priority
  deriving DecidableEq, Repr, Inhabited

/-- the Python `set` of collected effects -/
structure EffSet where
  a : Bool := false
  i : Bool := false
  d : Bool := false
  deriving DecidableEq, Repr, Inhabited

def EffSet.add (s : EffSet) : Eft → EffSet
  | .allow => { s with a := true }
  | .indet => { s with i := true }
  | .deny  => { s with d := true }

def EffSet.mem (s : EffSet) : Eft → Bool
  | .allow => s.a
  | .indet => s.i
  | .deny  => s.d

/-- `Effector.intermediate_effect` of the four bundled effectors (hand-written; `Props/C01` proves by
    `decide` that the definitions regenerated from the source by translator T1 are equal to these). -/
def intermediate : EffectKind → EffSet → Eft
  | .allowOverride, s => if s.a then .allow else .indet
  | .denyOverride,  s => if s.d then .deny else .indet
  | .allowAndDeny,  s => if s.d then .deny else .indet
  | .priority,      s => if s.a then .allow else if s.d then .deny else .indet

/-- `Effector.final_effect` -/
def final : EffectKind → EffSet → Eft
  | .allowOverride, s => if s.a then .allow else .deny
  | .denyOverride,  s => if s.d then .deny else .allow
  | .allowAndDeny,  s => if s.d || !s.a then .deny else .allow
  | .priority,      s => if s.a then .allow else if s.d then .deny else .deny

inductive Err
  | invalidRequestSize | invalidPolicySize | matcherResultType | evalOnEmptyPolicy | effectToBool
  | unsupportedEffect
  deriving DecidableEq, Repr, Inhabited

/-- `effect_to_bool` -/
def effectToBool : Eft → Except Err Bool
  | .allow => .ok true
  | .deny  => .ok false
  | .indet => .error .effectToBool

/-- what the rule loop observes of a matcher result -/
inductive MVal
  | bool (b : Bool)            -- `isinstance(result, bool)`
  | float (nonzero : Bool)     -- `isinstance(result, (int, float))` (numeric); `0 == result`
  | other (truthy : Bool)      -- anything else (str, None …); truthiness is used by the empty-policy branch only
  deriving DecidableEq, Repr, Inhabited

def MVal.truthy : MVal → Bool
  | .bool b => b | .float nz => nz | .other t => t

/-- outcome of one rule, as the property statement classifies it -/
inductive Outcome | noMatch | mAllow | mDeny | mOther
  deriving DecidableEq, Repr, Inhabited

def Outcome.eft : Outcome → Eft
  | .noMatch => .indet | .mAllow => .allow | .mDeny => .deny | .mOther => .indet

structure Cfg where
  kind    : EffectKind
  enabled : Bool := true
  rArity  : Nat
  pArity  : Nat
  /-- position of the `p_eft` token among the policy tokens, if the model has an effect column -/
  eftCol  : Option Nat := none
  /-- `util.has_eval(exp_string)` -/
  hasEval : Bool := false
  deriving Repr, Inhabited

/-- effect named by a matching rule: `parameters[p_eft]` compared with "allow"/"deny", or ALLOW when
    the model has no effect column -/
def ruleEft (cfg : Cfg) (pvals : List String) : Outcome :=
  match cfg.eftCol with
  | none => .mAllow
  | some c =>
    match pvals[c]? with
    | some "allow" => .mAllow
    | some "deny"  => .mDeny
    | _ => .mOther

/-- one iteration's classification, with the two `raise`s of the loop body -/
def ruleOutcome {ρ : Type} (cfg : Cfg) (m : List ρ → List String → MVal) (req : List ρ)
    (pvals : List String) : Except Err Outcome :=
  if pvals.length != cfg.pArity then .error .invalidPolicySize
  else match m req pvals with
    | .bool false => .ok .noMatch
    | .float false => .ok .noMatch
    | .other _ => .error .matcherResultType
    | _ => .ok (ruleEft cfg pvals)

/-- the `for i, pvals in enumerate(policy)` loop: returns the collected set and `explain_index` -/
def loop {ρ : Type} (cfg : Cfg) (m : List ρ → List String → MVal) (req : List ρ) :
    List (List String) → EffSet → Nat → Except Err (EffSet × Option Nat)
  | [], s, _ => .ok (s, none)
  | pvals :: rest, s, idx =>
    match ruleOutcome cfg m req pvals with
    | .error e => .error e
    | .ok .noMatch => loop cfg m req rest (s.add .indet) (idx + 1)
    | .ok o =>
      let s' := s.add o.eft
      if intermediate cfg.kind s' != .indet then .ok (s', some idx)
      else loop cfg m req rest s' (idx + 1)

/-- `enforce_ex`: decision and explanation index (`none` = `[]`) -/
def enforceEx {ρ : Type} (cfg : Cfg) (m : List ρ → List String → MVal)
    (policy : List (List String)) (req : List ρ) : Except Err (Bool × Option Nat) :=
  if !cfg.enabled then .ok (true, none)
  else if cfg.rArity != req.length then .error .invalidRequestSize
  else if policy.isEmpty then
    if cfg.hasEval then .error .evalOnEmptyPolicy
    else
      let s : EffSet := if (m req (List.replicate cfg.pArity "")).truthy then ({} : EffSet).add .allow
                        else ({} : EffSet).add .indet
      match effectToBool (final cfg.kind s) with
      | .ok b => .ok (b, none)
      | .error e => .error e
  else
    match loop cfg m req policy {} 0 with
    | .error e => .error e
    | .ok (s, ex) =>
      match effectToBool (final cfg.kind s) with
      | .ok b => .ok (b, ex)      -- `explain_index < policy_len` always holds here (Props/C08)
      | .error e => .error e

def enforce {ρ : Type} (cfg : Cfg) (m : List ρ → List String → MVal)
    (policy : List (List String)) (req : List ρ) : Except Err Bool :=
  match enforceEx cfg m policy req with
  | .ok (b, _) => .ok b
  | .error e => .error e

/-! ## The declarative side: the policy-effect expressions over rule outcomes -/

def Outcome.isAllow : Outcome → Bool | .mAllow => true | _ => false
def Outcome.isDeny : Outcome → Bool | .mDeny => true | _ => false
def Outcome.isNoMatch : Outcome → Bool | .noMatch => true | _ => false

def decisive (o : Outcome) : Bool := o.isAllow || o.isDeny

/-- the five effect expressions (`priority` and `subjectPriority` share one) as the property states them -/
def spec : EffectKind → List Outcome → Bool
  | .allowOverride, os => os.any (·.isAllow)
  | .denyOverride,  os => !os.any (·.isDeny)
  | .allowAndDeny,  os => os.any (·.isAllow) && !os.any (·.isDeny)
  | .priority,      os =>
    match os.find? decisive with
    | some .mAllow => true
    | _ => false

/-- the rule that explains a decision: index of the earliest rule that is decisive *for this effector* -/
def decisiveFor : EffectKind → Outcome → Bool
  | .allowOverride, o => o.isAllow
  | .denyOverride,  o => o.isDeny
  | .allowAndDeny,  o => o.isDeny
  | .priority,      o => decisive o

def specExplain (k : EffectKind) (os : List Outcome) : Option Nat :=
  let i := os.findIdx (decisiveFor k)
  if i < os.length then some i else none

/-- the effect-expression strings of casbin/constant/constants.py and the effector each selects -/
def effectTable : List (String × EffectKind) := [
  ("some(where (p_eft == allow))", .allowOverride),
  ("!some(where (p_eft == deny))", .denyOverride),
  ("some(where (p_eft == allow)) && !some(where (p_eft == deny))", .allowAndDeny),
  ("priority(p_eft) || deny", .priority),
  ("subjectPriority(p_eft) || deny", .priority)]

/-- `get_effector`: first entry whose string equals `expr`; none => `raise RuntimeError("unsupported effect")` -/
def lookupEffector {α : Type} (table : List (String × α)) (expr : String) : Except Err α :=
  match table.find? (·.1 == expr) with
  | some (_, k) => .ok k
  | none => .error .unsupportedEffect

def getEffector (expr : String) : Except Err EffectKind := lookupEffector effectTable expr

end Casbin
