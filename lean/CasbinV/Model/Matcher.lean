/-!
# Model of the textual matcher pipeline (C02)

Import-free (core Lean only). Strings are `List Char` (`Str`); the driver converts at the boundary.

Transcribed function by function from
* `casbin/core_enforcer.py`  `_get_expression` (after the F01 repair: `" and "`, `" or "`; after the F01b repair:
  applied outside string literals only, see "String literals" below), result typing of
  `enforce_ex` (after the F17b repair: an `int` result is numeric), enforce-context selection;
* `casbin/util/util.py`      `escape_assertion`, `remove_comments`, `has_eval`, `get_eval_value`, `replace_eval`;
* `casbin/model/model.py`    `add_def` (token naming of `r`/`p` definitions, matcher post-processing), `_load_section`;
* `casbin/config/config.py`  `_parse_buffer`, `_write`, `add_config`, `get`.

Third-party code is modelled, not verified: the regular expressions `\bp(\d*)\.`, `\beval\(([^)]*)\)`,
`!(?!=)` are written out as scanners (`\b`, `\d`, `\w` on ASCII text: the model's domain is ASCII model
text); `ast.parse` + `simpleeval` are represented by the reference evaluator `evalExpr` over the Casbin
expression AST (second half of this file).
-/
namespace Casbin.Matcher

abbrev Str := List Char

/-! ## Python string primitives -/

/-- `str.isspace()` for one character (CPython's table: bidirectional class WS/B/S or category Zs) -/
def isSpace (c : Char) : Bool :=
  let n := c.toNat
  (9 ≤ n && n ≤ 13) || (28 ≤ n && n ≤ 32) || n == 0x85 || n == 0xA0 || n == 0x1680 ||
  (0x2000 ≤ n && n ≤ 0x200A) || n == 0x2028 || n == 0x2029 || n == 0x202F || n == 0x205F || n == 0x3000

def lstrip (s : Str) : Str := s.dropWhile isSpace
def rstrip (s : Str) : Str := (s.reverse.dropWhile isSpace).reverse
/-- `str.strip()` -/
def strip (s : Str) : Str := rstrip (lstrip s)

/-- `\w` of `re` on ASCII text -/
def isWord (c : Char) : Bool := c.isAlphanum || c == '_'
/-- `\d` of `re` on ASCII text -/
def isDigit (c : Char) : Bool := c.isDigit

/-- `s.split(sep)` for a one-character separator -/
def splitOn (sep : Char) : Str → List Str
  | [] => [[]]
  | c :: t =>
    match splitOn sep t with
    | [] => [[]]          -- unreachable: the result is never empty
    | p :: ps => if c == sep then [] :: p :: ps else (c :: p) :: ps

/-- `s.split(sep, 1)`: `none` when `sep` does not occur (the result has one element) -/
def splitFirst (sep : Char) : Str → Option (Str × Str)
  | [] => none
  | c :: t =>
    if c == sep then some ([], t)
    else match splitFirst sep t with
      | some (a, b) => some (c :: a, b)
      | none => none

/-- literal prefix test returning the remainder -/
def dropPrefix? : Str → Str → Option Str
  | [], s => some s
  | _ :: _, [] => none
  | p :: ps, c :: t => if p == c then dropPrefix? ps t else none

/-! ## `_get_expression` (casbin/core_enforcer.py) -/

/-- `s.replace(aa, R)` for the two-character pattern `a a`: left to right, non-overlapping -/
def replace2 (a : Char) (R : Str) : Str → Str
  | [] => []
  | [c] => [c]
  | c :: d :: rest => if c = a ∧ d = a then R ++ replace2 a R rest else c :: replace2 a R (d :: rest)

/-- `re.sub(r"!(?!=)", R, s)` -/
def subNot (R : Str) : Str → Str
  | [] => []
  | c :: rest =>
    if c = '!' then
      match rest with
      | '=' :: _ => c :: subNot R rest
      | _ => R ++ subNot R rest
    else c :: subNot R rest

def andR : Str := [' ', 'a', 'n', 'd', ' ']
def orR : Str := [' ', 'o', 'r', ' ']
def notR : Str := ['n', 'o', 't', ' ']

/-- the text handed to `ast.parse` (repaired code: blanks around `and` / `or`) -/
def getExpression (s : Str) : Str := subNot notR (replace2 '|' orR (replace2 '&' andR s))

/-- the unrepaired code (`"and"`, `"or"`), kept for the negative witness of F01 -/
def getExpressionUnrepaired (s : Str) : Str :=
  subNot notR (replace2 '|' ['o', 'r'] (replace2 '&' ['a', 'n', 'd'] s))

/-! ## `escape_assertion` (casbin/util/util.py) -/

/-- `k\d*\.` at the head of the text (the caller has checked `\b`): the digit suffix -/
def refSuffixAt (k : Char) : Str → Option Str
  | [] => none
  | c :: t =>
    if c = k then
      match t.dropWhile isDigit with
      | '.' :: _ => some (t.takeWhile isDigit)
      | _ => none
    else none

/-- `re.search(r"\bk(\d*)\.", s)`: group 1 of the first match; `pw` = the previous character is a word character -/
def searchRef (k : Char) : Bool → Str → Option Str
  | _, [] => none
  | pw, c :: t =>
    match (if pw then none else refSuffixAt k (c :: t)) with
    | some suf => some suf
    | none => searchRef k (isWord c) t

/-- `re.sub(r"\bk{suf}\.", "k{suf}_", s)`. First argument: number of characters of a match still to be
    copied (the last of them is the dot and becomes `_`). -/
def subRef (k : Char) (suf : Str) : Nat → Bool → Str → Str
  | _, _, [] => []
  | n + 1, _, c :: t => (if n = 0 then '_' else c) :: subRef k suf n false t
  | 0, pw, c :: t =>
    if !pw && c == k && (suf ++ ['.']).isPrefixOf t then c :: subRef k suf (suf.length + 1) true t
    else c :: subRef k suf 0 (isWord c) t

def escapeKind (k : Char) (s : Str) : Str :=
  match searchRef k false s with
  | some suf => subRef k suf 0 false s
  | none => s

def escapeAssertion (s : Str) : Str := escapeKind 'r' (escapeKind 'p' s)

/-! ## `remove_comments` -/

def removeComments (s : Str) : Str :=
  if s.contains '#' then strip (s.takeWhile (· != '#')) else s

/-! ## `eval_reg = \beval\s*\(\s*(?P<rule>[^)]*?)\s*\)`: `has_eval`, `get_eval_value`, `replace_eval`
     (after the F01c repair: white space is tolerated between `eval` and `(` and around the argument; the
     group is the argument without the surrounding white space) -/

def evalWord : Str := ['e', 'v', 'a', 'l']

/-- `eval\s*\(\s*([^)]*?)\s*\)` at the head of the text: the group, and the number of characters of the match
    after its first one. The lazy group followed by `\s*\)` is the text up to the first `)` without its leading
    (taken by the greedy `\s*` before it) and trailing white space. -/
def evalAt (s : Str) : Option (Str × Nat) :=
  match dropPrefix? evalWord s with
  | none => none
  | some t =>
    match t.dropWhile isSpace with
    | '(' :: u =>
      if u.contains ')' then
        some (strip (u.takeWhile (· != ')')),
              3 + (t.takeWhile isSpace).length + 1 + (u.takeWhile (· != ')')).length + 1)
      else none
    | _ => none

/-- `eval_reg.findall(s)`. First argument: characters of the current match still to be skipped. -/
def findEvals : Nat → Bool → Str → List Str
  | _, _, [] => []
  | n + 1, _, _ :: t => findEvals n false t
  | 0, pw, c :: t =>
    match (if pw then none else evalAt (c :: t)) with
    | some (name, skip) => name :: findEvals skip false t
    | none => findEvals 0 (isWord c) t

def getEvalValue (s : Str) : List Str := findEvals 0 false s
def hasEval (s : Str) : Bool := !(getEvalValue s).isEmpty

/-- `replace_eval(expr, rules)`; `none` = `IndexError` of `rules.pop(0)` -/
def replaceEvalAux : Nat → Bool → Str → List Str → Option Str
  | _, _, [], _ => some []
  | n + 1, _, _ :: t, rules => replaceEvalAux n false t rules
  | 0, pw, c :: t, rules =>
    match (if pw then none else evalAt (c :: t)) with
    | some (_, skip) =>
      match rules with
      | [] => none
      | r :: rs => (replaceEvalAux skip false t rs).map fun out => '(' :: (r ++ ')' :: out)
    | none => (replaceEvalAux 0 (isWord c) t rules).map (c :: ·)

def replaceEval (s : Str) (rules : List Str) : Option Str := replaceEvalAux 0 false s rules

/-! ## String literals (after the F01b repair): `literal_reg`, `split_literals`, `sub_outside_literals`,
     `search_outside_literals` of casbin/util/util.py

A string literal runs from a quote (`"` or `'`) to the next quote of the same kind that is not escaped with a
backslash, or to the end of the text when there is none
(`"(?:[^"\\]|\\[\s\S])*(?:"|\\?\Z)` and the same with `'`). Every rewriting step of the pipeline is applied to the
texts *outside* string literals only, one text at a time; the functions above (`getExpression`,
`subRef`, `searchRef`, `findEvals`, `replaceEval`, the `#` search) are the per-text steps. -/

def isQuote (c : Char) : Bool := c == '"' || c == '\''

/-- an item of `split_literals`: a text outside literals, or a literal (quote kind, body, is it closed) -/
inductive Piece
  | out (s : Str)
  | lit (q : Char) (body : Str) (closed : Bool)
  deriving DecidableEq, Repr

def Piece.text : Piece → Str
  | .out s => s
  | .lit q b closed => q :: (b ++ if closed then [q] else [])

def Piece.isLit : Piece → Bool
  | .lit .. => true
  | .out _ => false

/-- one more character in front of the first piece -/
def consPiece (c : Char) : List Piece → List Piece
  | .out s :: r => .out (c :: s) :: r
  | .lit q b closed :: r => .lit q (c :: b) closed :: r
  | [] => []          -- unreachable: `pieces` never returns the empty list

/-- `split_literals` as a scanner; the state is `none` outside a literal, `some (q, esc)` inside a literal opened
    by `q` (`esc`: the previous character is an unescaped backslash, so this one cannot close the literal) -/
def pieces : Option (Char × Bool) → Str → List Piece
  | none, [] => [.out []]
  | some (q, _), [] => [.lit q [] false]
  | none, c :: t => if isQuote c then .out [] :: pieces (some (c, false)) t else consPiece c (pieces none t)
  | some (q, true), c :: t => consPiece c (pieces (some (q, false)) t)
  | some (q, false), c :: t =>
    if c = q then .lit q [] true :: pieces none t
    else consPiece c (pieces (some (q, c == '\\')) t)

/-- `sub_outside_literals(fn, s)` -/
def outside (f : Str → Str) (s : Str) : Str :=
  ((pieces none s).map fun p => match p with | .out x => f x | p => p.text).flatten

/-- `split_literals(s)[::2]` -/
def outs (s : Str) : List Str := (pieces none s).filterMap fun p => match p with | .out x => some x | _ => none

/-- the string literals of a text, in order -/
def literals (s : Str) : List Piece := (pieces none s).filter Piece.isLit

/-- `_get_expression`: the operator rewriting, outside string literals -/
def getExpressionL (s : Str) : Str := outside getExpression s

/-- one kind of `escape_assertion`: the first reference outside string literals decides the suffix, every text
    outside string literals is rewritten -/
def escapeKindL (k : Char) (s : Str) : Str :=
  match (outs s).findSome? (searchRef k false) with
  | some suf => outside (subRef k suf 0 false) s
  | none => s

/-- `escape_assertion` -/
def escapeAssertionL (s : Str) : Str := escapeKindL 'r' (escapeKindL 'p' s)

/-- the text before the first `#` outside string literals (`none`: there is no such `#`) -/
def cutComment : List Piece → Option Str
  | [] => none
  | .out x :: r => if x.contains '#' then some (x.takeWhile (· != '#')) else (cutComment r).map (x ++ ·)
  | p :: r => (cutComment r).map (p.text ++ ·)

/-- `remove_comments` -/
def removeCommentsL (s : Str) : Str :=
  match cutComment (pieces none s) with
  | some x => strip x
  | none => s

/-- `get_eval_value` -/
def getEvalValueL (s : Str) : List Str := (outs s).flatMap getEvalValue

/-- `has_eval` -/
def hasEvalL (s : Str) : Bool := !(getEvalValueL s).isEmpty

def replaceEvalPieces : List Piece → List Str → Option Str
  | [], _ => some []
  | .out x :: r, rules =>
    -- the calls of this text take their rule texts from the front of the list
    match replaceEval x (rules.take (getEvalValue x).length) with
    | none => none
    | some y => (replaceEvalPieces r (rules.drop (getEvalValue x).length)).map (y ++ ·)
  | p :: r, rules => (replaceEvalPieces r rules).map (p.text ++ ·)

/-- `replace_eval(expr, rules)`; `none` = `IndexError` of `rules.pop(0)` -/
def replaceEvalL (s : Str) (rules : List Str) : Option Str := replaceEvalPieces (pieces none s) rules

/-! ## `Model.add_def` -/

/-- tokens of an `r` / `p` definition: `key + "_" + token.strip()` for `value.split(",")` -/
def defTokens (key value : Str) : List Str := (splitOn ',' value).map fun t => key ++ '_' :: strip t

/-- value stored for an `e` / `m` definition -/
def matcherValue (value : Str) : Str := removeCommentsL (escapeAssertionL value)

/-! ## `Config._parse_buffer` / `_write` / `add_config` / `get` (casbin/config/config.py) -/

inductive CfgErr | parse
  deriving DecidableEq, Repr

/-- the lines `readline()` yields (each is stripped by the caller, so the terminator is dropped here) -/
def pyLines (s : Str) : List Str :=
  let ps := splitOn '\n' s
  if ps.getLast? == some [] then ps.dropLast else ps

structure PState where
  sect : Str := []
  buf : List Str := []
  canWrite : Bool := false
  /-- `_data`: (section, option, value), insertion order, one entry per (section, option) -/
  data : List (Str × Str × Str) := []
  deriving Repr, DecidableEq

def defaultSection : Str := "default".toList

/-- `add_config`: dict assignment (an existing key keeps its position, the value is replaced) -/
def addConfig (data : List (Str × Str × Str)) (sect opt val : Str) : List (Str × Str × Str) :=
  let sect := if sect = [] then defaultSection else sect
  if data.any (fun e => e.1 = sect ∧ e.2.1 = opt) then
    data.map fun e => if e.1 = sect ∧ e.2.1 = opt then (sect, opt, val) else e
  else data ++ [(sect, opt, val)]

/-- `_write` -/
def write (st : PState) : Except CfgErr PState :=
  let joined := st.buf.flatten
  if joined = [] then .ok st
  else match splitFirst '=' joined with
    | none => .error .parse
    | some (o, v) => .ok { st with data := addConfig st.data st.sect (strip o) (strip v), buf := [] }

/-- head of every iteration: `if can_write: self._write(...); can_write = False` -/
def preWrite (st : PState) : Except CfgErr PState :=
  if st.canWrite then (write st).map ({ · with canWrite := false }) else .ok st

/-- one iteration of the `while True` loop of `_parse_buffer` on a line that was read -/
def stepLine (st : PState) (raw : Str) : Except CfgErr PState :=
  match preWrite st with
  | .error e => .error e
  | .ok st =>
    let line := strip raw
    match line with
    | [] => .ok { st with canWrite := true }
    | h :: _ =>
      if h = '#' ∨ h = ';' then .ok { st with canWrite := true }
      else if h = '[' ∧ line.getLast? = some ']' then
        match (if st.buf ≠ [] then (write st).map ({ · with canWrite := false }) else .ok st) with
        | .error e => .error e
        | .ok st => .ok { st with sect := (line.drop 1).dropLast }
      else if line.getLast? = some '\\' then
        .ok { st with buf := st.buf ++ [strip line.dropLast ++ [' ']] }
      else .ok { st with buf := st.buf ++ [line], canWrite := true }

/-- the last iteration (`readline()` returned `""`) -/
def finish (st : PState) : Except CfgErr PState :=
  match (if st.canWrite then write st else .ok st) with
  | .error e => .error e
  | .ok st => if st.buf ≠ [] then write st else .ok st

def parseLines : PState → List Str → Except CfgErr PState
  | st, [] => finish st
  | st, raw :: rest =>
    match stepLine st raw with
    | .error e => .error e
    | .ok st' => parseLines st' rest

def parseBuffer (text : Str) : Except CfgErr (List (Str × Str × Str)) :=
  (parseLines {} (pyLines text)).map (·.data)

/-- `Config.get("section::option")` on the parsed data (`""` when absent) -/
def cfgGet (data : List (Str × Str × Str)) (sect opt : Str) : Str :=
  match data.find? (fun e => e.1 = sect ∧ e.2.1 = opt) with
  | some e => e.2.2
  | none => []

/-! ## The whole textual pipeline up to the text given to `ast.parse` -/

inductive PipeErr
  | config            -- `RuntimeError("parse the content error …")`
  | undefinedModel    -- `"m"` section missing
  | keyError          -- a definition selected by the enforce context, or an `eval()` argument, is absent
  | indexError        -- `rules.pop(0)` on an empty list
  | invalidRequestSize | invalidPolicySize
  deriving DecidableEq, Repr

def matchersSection : Str := "matchers".toList
def requestSection : Str := "request_definition".toList
def policySection : Str := "policy_definition".toList

/-- `_load_section`: `k`, `k2`, `k3`, … until one is missing; `n` bounds the scan (a config has finitely many keys) -/
def loadSection (data : List (Str × Str × Str)) (sect : Str) (k : Char) : Nat → Nat → List (Str × Str)
  | 0, _ => []
  | fuel + 1, i =>
    let key : Str := if i = 1 then [k] else k :: (toString i).toList
    let v := cfgGet data sect key
    if v = [] then [] else (key, v) :: loadSection data sect k fuel (i + 1)

/-- the expression text evaluated for one rule: definitions `rtype`/`ptype`/`mtype` of the model text,
    the rule's values `pvals`; follows `enforce_ex` up to `_get_expression` -/
def pipeline (text : Str) (rtype ptype mtype : Str) (nreq : Nat) (pvals : List Str) : Except PipeErr Str :=
  match parseBuffer text with
  | .error _ => .error .config
  | .ok data =>
    let fuel := data.length + 1
    let rs := loadSection data requestSection 'r' fuel 1
    let ps := loadSection data policySection 'p' fuel 1
    let ms := loadSection data matchersSection 'm' fuel 1
    if ms.lookup ['m'] = none then .error .undefinedModel
    else match rs.lookup rtype, ps.lookup ptype, ms.lookup mtype with
      | some rv, some pv, some mv =>
        let rTokens := defTokens rtype rv
        let pTokens := defTokens ptype pv
        if rTokens.length ≠ nreq then .error .invalidRequestSize
        else if pTokens.length ≠ pvals.length then .error .invalidPolicySize
        else
          let expr := matcherValue mv
          if hasEvalL expr then
            let names := getEvalValueL expr
            let params := pTokens.zip pvals
            match names.mapM (fun n => params.lookup n) with
            | none => .error .keyError
            | some rules =>
              match replaceEvalL expr (rules.map escapeAssertionL) with
              | none => .error .indexError
              | some e => .ok (getExpressionL e)
          else .ok (getExpressionL expr)
      | _, _, _ => .error .keyError

/-! ## Result typing of `enforce_ex` (casbin/core_enforcer.py) -/

inductive MatchErr | resultType
  deriving DecidableEq, Repr

/-- what `isinstance` distinguishes in a matcher result -/
inductive ResKind
  | bool (b : Bool)
  | float (nonzero : Bool)
  | int (nonzero : Bool)
  | other
  deriving DecidableEq, Repr

/-- does the rule take part: `bool` as is, numeric iff non-zero, anything else raises -/
def resultMatches : ResKind → Except MatchErr Bool
  | .bool b => .ok b
  | .float nz => .ok nz
  | .int nz => .ok nz
  | .other => .error .resultType

end Casbin.Matcher
