/-!
# The Casbin expression language: AST and reference evaluator `evalExpr` (C02, the oracle)

Import-free. This is the *specification* side of C02: what "the matcher expression is true of request and
rule" means, independent of any text. The evaluator is deliberately partial: wherever the Casbin expression
language gives no meaning (ill-typed operands, undefined names, a function result that was not supplied),
it answers `open`, and the harness then does not judge the implementation on that case.

Values: `bool`, numbers (`int`, and `float` as an exact dyadic rational `num / 2^exp` — the generators only
use such floats, so that Python's floating point is exact on them), `str`, tuples, records (request objects
with attributes), `none`.
Functions (built-ins, user functions, the role functions `g`, `g2`, …) come from an environment of
*oracle results*: a finite table `(name, argument values) ↦ value` computed by the harness with the real
functions (their correctness is the subject of C03/C13/C14, not of this property).
-/
namespace Casbin.Matcher

inductive Val
  | bool (b : Bool)
  | int (i : Int)
  | flt (num : Int) (exp : Nat)
  | str (s : String)
  | tuple (vs : List Val)
  | obj (fields : List (String × Val))
  | none
  deriving Repr, Inhabited

inductive BinOp
  | and | or | eq | ne | lt | le | gt | ge | add | sub | mul | mod | isIn
  deriving DecidableEq, Repr, Inhabited

inductive Expr
  | ref (name : String)               -- `r.sub`, `p2.obj`: a request / policy field
  | attr (e : Expr) (a : String)      -- `e.a`
  | str (s : String)
  | int (i : Int)
  | flt (num : Int) (exp : Nat)
  | tuple (es : List Expr)
  | not (e : Expr)
  | bin (op : BinOp) (a b : Expr)
  | call (f : String) (args : List Expr)
  deriving Repr, Inhabited

/-- why the language gives no value -/
inductive Open | type | name | attr | func | arith
  deriving DecidableEq, Repr, Inhabited

/-- numeric view: `n / 2^e` -/
def Val.num? : Val → Option (Int × Nat)
  | .int i => some (i, 0)
  | .flt n e => some (n, e)
  | _ => Option.none

def numCmp (a b : Int × Nat) : Ordering :=
  compare (a.1 * (2 : Int) ^ b.2) (b.1 * (2 : Int) ^ a.2)

def strCmp (a b : String) : Ordering := compare (a.toList.map Char.toNat) (b.toList.map Char.toNat)

mutual
/-- `==` of the expression language; `none` = not specified (bool against number, records) -/
def valEq : Val → Val → Option Bool
  | .bool a, .bool b => some (a == b)
  | .str a, .str b => some (a == b)
  | .none, .none => some true
  | .int a, .int b => some (a == b)
  | .int a, .flt n e => some (numCmp (a, 0) (n, e) == .eq)
  | .flt n e, .int b => some (numCmp (n, e) (b, 0) == .eq)
  | .flt n e, .flt m f => some (numCmp (n, e) (m, f) == .eq)
  | .tuple as, .tuple bs => valsEq as bs
  | .bool _, .int _ => Option.none
  | .bool _, .flt _ _ => Option.none
  | .int _, .bool _ => Option.none
  | .flt _ _, .bool _ => Option.none
  | .obj _, _ => Option.none
  | _, .obj _ => Option.none
  | _, _ => some false
def valsEq : List Val → List Val → Option Bool
  | [], [] => some true
  | a :: as, b :: bs =>
    match valEq a b with
    | Option.none => Option.none
    | some false => some false
    | some true => valsEq as bs
  | _, _ => some false
end

/-- `x in (v1, …, vn)` -/
def valIn (x : Val) : List Val → Option Bool
  | [] => some false
  | v :: vs =>
    match valEq x v with
    | Option.none => Option.none
    | some true => some true
    | some false => valIn x vs

def mkNum (n : Int) (e : Nat) (isFloat : Bool) : Val := if isFloat then .flt n e else .int n

def isFlt : Val → Bool | .flt _ _ => true | _ => false

def arith (op : BinOp) (a b : Val) : Except Open Val :=
  match op, a, b with
  | .add, .str x, .str y => .ok (.str (x ++ y))
  | .mod, .int x, .int y => if y = 0 then .error .arith else .ok (.int (Int.fmod x y))
  | .mod, _, _ => .error .type
  | op, a, b =>
    match a.num?, b.num? with
    | some (n, e), some (m, f) =>
      let fl := isFlt a || isFlt b
      match op with
      | .add => .ok (mkNum (n * (2 : Int) ^ f + m * (2 : Int) ^ e) (e + f) fl)
      | .sub => .ok (mkNum (n * (2 : Int) ^ f - m * (2 : Int) ^ e) (e + f) fl)
      | .mul => .ok (mkNum (n * m) (e + f) fl)
      | _ => .error .type
    | _, _ => .error .type

def compareVals (op : BinOp) (a b : Val) : Except Open Val :=
  let fromOrd (o : Ordering) : Val :=
    .bool (match op with
      | .lt => o == .lt | .le => o != .gt | .gt => o == .gt | .ge => o != .lt | _ => false)
  match a, b with
  | .str x, .str y => .ok (fromOrd (strCmp x y))
  | a, b =>
    match a.num?, b.num? with
    | some x, some y => .ok (fromOrd (numCmp x y))
    | _, _ => .error .type

structure Env where
  /-- request and policy fields, keyed by their source text (`r.sub`, `p2.obj`) -/
  vars : List (String × Val)
  /-- oracle results of function calls: `(name, encoded argument values) ↦ value` -/
  funcs : List ((String × String) × Val)
  /-- canonical text of an argument list, used as the table key (supplied by the driver) -/
  key : List Val → String

mutual
def evalExpr (env : Env) : Expr → Except Open Val
  | .ref n => match env.vars.lookup n with | some v => .ok v | Option.none => .error .name
  | .attr e a =>
    match evalExpr env e with
    | .error o => .error o
    | .ok (.obj fs) => (match fs.lookup a with | some v => .ok v | Option.none => .error .attr)
    | .ok _ => .error .attr
  | .str s => .ok (.str s)
  | .int i => .ok (.int i)
  | .flt n e => .ok (.flt n e)
  | .tuple es => (evalList env es).map Val.tuple
  | .not e =>
    match evalExpr env e with
    | .error o => .error o
    | .ok (.bool b) => .ok (.bool !b)
    | .ok _ => .error .type
  | .bin .and a b =>
    match evalExpr env a with
    | .error o => .error o
    | .ok (.bool false) => .ok (.bool false)      -- short circuit: `b` is not evaluated
    | .ok (.bool true) =>
      (match evalExpr env b with
       | .error o => .error o
       | .ok (.bool c) => .ok (.bool c)
       | .ok _ => .error .type)
    | .ok _ => .error .type
  | .bin .or a b =>
    match evalExpr env a with
    | .error o => .error o
    | .ok (.bool true) => .ok (.bool true)
    | .ok (.bool false) =>
      (match evalExpr env b with
       | .error o => .error o
       | .ok (.bool c) => .ok (.bool c)
       | .ok _ => .error .type)
    | .ok _ => .error .type
  | .bin op a b =>
    match evalExpr env a, evalExpr env b with
    | .error o, _ => .error o
    | _, .error o => .error o
    | .ok x, .ok y =>
      match op with
      | .eq => (match valEq x y with | some r => .ok (.bool r) | Option.none => .error .type)
      | .ne => (match valEq x y with | some r => .ok (.bool !r) | Option.none => .error .type)
      | .lt | .le | .gt | .ge => compareVals op x y
      | .isIn =>
        (match y with
         | .tuple vs => (match valIn x vs with | some r => .ok (.bool r) | Option.none => .error .type)
         | _ => .error .type)
      | _ => arith op x y
  | .call f args =>
    match evalList env args with
    | .error o => .error o
    | .ok vs => match env.funcs.lookup (f, env.key vs) with | some v => .ok v | Option.none => .error .func
def evalList (env : Env) : List Expr → Except Open (List Val)
  | [] => .ok []
  | e :: es =>
    match evalExpr env e with
    | .error o => .error o
    | .ok v => match evalList env es with | .error o => .error o | .ok vs => .ok (v :: vs)
end

/-- the verdict the property prescribes for one (request, rule) pair -/
inductive Verdict
  | matches (b : Bool)
  | resultTypeError       -- the expression has a value that is neither bool nor a number
  | open (o : Open)
  deriving DecidableEq, Repr, Inhabited

def verdictOf : Except Open Val → Verdict
  | .error o => .open o
  | .ok (.bool b) => .matches b
  | .ok (.int i) => .matches (i != 0)
  | .ok (.flt n _) => .matches (n != 0)
  | .ok _ => .resultTypeError

def specMatch (env : Env) (e : Expr) : Verdict := verdictOf (evalExpr env e)

end Casbin.Matcher
