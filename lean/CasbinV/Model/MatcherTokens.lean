import CasbinV.Model.Matcher
/-!
# Token sequences, layouts and the decidable hypotheses of the C02 layout theorems

A matcher is a sequence of tokens, each followed by a *gap* (blanks; possibly empty). `render` is the text a
layout produces. The theorems of `Props/C02.lean` say that each textual step maps *every* layout of a token
sequence to a layout of the translated token sequence. Everything here is executable (used by the driver's
`layout` operation, which compares the real code, the model and the theorems' right-hand sides).
-/
namespace Casbin.Matcher

inductive Tok
  | ref (k : Char) (suf : Str) (field : Str)   -- `p2.sub`: kind `p`/`r`, digit suffix, field name
  | word (s : Str)                             -- identifier, number, keyword (`in`)
  | andOp | orOp | notOp | neOp               -- `&&`  `||`  `!`  `!=`
  | other (s : Str)                            -- any other lexeme: punctuation, comparison, string literal
  deriving DecidableEq, Repr, Inhabited

/-- source text of a token (Casbin syntax) -/
def Tok.src : Tok → Str
  | .ref k suf f => k :: (suf ++ '.' :: f)
  | .word s => s
  | .andOp => ['&', '&']
  | .orOp => ['|', '|']
  | .notOp => ['!']
  | .neOp => ['!', '=']
  | .other s => s

/-- text of a token in the evaluator's (Python) syntax -/
def Tok.py : Tok → Str
  | .andOp => ['a', 'n', 'd']
  | .orOp => ['o', 'r']
  | .notOp => ['n', 'o', 't']
  | t => t.src

/-- a layout: every token is followed by its gap -/
def render : List (Tok × Str) → Str
  | [] => []
  | (t, g) :: r => t.src ++ g ++ render r

/-- a layout of the translated sequence: gap before and after each token -/
def renderPy : List (Str × Tok × Str) → Str
  | [] => []
  | (g0, t, g1) :: r => g0 ++ t.py ++ g1 ++ renderPy r

/-- the layout the (repaired) `_get_expression` produces -/
def pad : Tok × Str → Str × Tok × Str
  | (.andOp, g) => ([' '], .andOp, ' ' :: g)
  | (.orOp, g) => ([' '], .orOp, ' ' :: g)
  | (.notOp, g) => ([], .notOp, ' ' :: g)
  | (t, g) => ([], t, g)

/-- word-like tokens: two of them must not touch (Python's tokenizer, and Casbin's) -/
def Tok.wordy : Tok → Bool
  | .ref .. => true | .word _ => true | .andOp => true | .orOp => true | .notOp => true
  | .neOp => false | .other _ => false

def Tok.wordySrc : Tok → Bool
  | .ref .. => true | .word _ => true | _ => false

/-- validity of a translated layout: adjacent word-like tokens are separated by at least one character of gap -/
def pySeparated : List (Str × Tok × Str) → Bool
  | (_, t, g1) :: (g0', t', g1') :: r =>
    (!(t.wordy && t'.wordy) || !(g1 ++ g0').isEmpty) && pySeparated ((g0', t', g1') :: r)
  | _ => true

def opChar (c : Char) : Bool := c == '&' || c == '|' || c == '!'

def isBlank (c : Char) : Bool := c == ' ' || c == '\t'

def startsEq : Str → Bool
  | '=' :: _ => true
  | _ => false

/-- token-local well-formedness for `_get_expression`: no operator character inside a lexeme other than the
    operator tokens themselves; gaps are blanks -/
def Tok.wf : Tok → Bool
  | .ref k suf f => !opChar k && !suf.any opChar && !f.any opChar
  | .word s => !s.any opChar && !s.isEmpty
  | .other s => !s.any opChar && !s.isEmpty
  | _ => true

/-- `wfToks`: lexemes and gaps are well-formed; a `!` is never directly followed by `=`; a word is never
    glued to a following word or `!` (source separation) -/
def wfToks : List (Tok × Str) → Bool
  | [] => true
  | (t, g) :: rest =>
    t.wf && g.all isBlank &&
    (match rest with
     | [] => true
     | (t', _) :: _ =>
       (!(t == .notOp && g.isEmpty) || !startsEq t'.src) &&
       (!(t.wordySrc && g.isEmpty) || !(t'.wordySrc || t' == .notOp))) &&
    wfToks rest

/-! ### `escape_assertion` -/

/-- scanner state after a text: is the last character a word character -/
def lastWord (pw : Bool) (x : Str) : Bool :=
  match x.getLast? with
  | some c => isWord c
  | none => pw

/-- the digit run at the head stops inside the text, at a character other than `.` -/
def stopsWithin (t : Str) : Bool :=
  match t.dropWhile isDigit with
  | [] => false
  | c :: _ => c != '.'

/-- no position of the text can start a match of `\bk\d*\.`, whatever follows the text -/
def quiet (k : Char) : Bool → Str → Bool
  | _, [] => true
  | pw, c :: t => (pw || c != k || stopsWithin t) && quiet k (isWord c) t

/-- `escTok` for one kind -/
def escK (k : Char) : Tok → Tok
  | .ref k' suf f => if k' = k then .word (k :: (suf ++ '_' :: f)) else .ref k' suf f
  | t => t

def escTok (t : Tok) : Tok := escK 'r' (escK 'p' t)

def mapToks (f : Tok → Tok) (ts : List (Tok × Str)) : List (Tok × Str) := ts.map fun p => (f p.1, p.2)

/-- `singleSuffix` + `noShadow` for kind `k` with suffix `suf`, threaded through the scanner state:
    every `k`-reference has the suffix `suf`, starts at a word boundary, and nothing else looks like one -/
def okFor (k : Char) (suf : Str) : Bool → List (Tok × Str) → Bool
  | _, [] => true
  | pw, (t, g) :: rest =>
    (match t with
     | .ref k' s f =>
       if k' = k then !pw && s == suf && s.all isDigit && quiet k false f else quiet k pw t.src
     | _ => quiet k pw t.src) &&
    quiet k (lastWord pw t.src) g &&
    okFor k suf (lastWord (lastWord pw t.src) g) rest

def hasRef (k : Char) : List (Tok × Str) → Bool
  | [] => false
  | (.ref k' _ _, _) :: rest => k' == k || hasRef k rest
  | _ :: rest => hasRef k rest

/-! ### string literals (F01b repaired): token sequences with literals, and their layouts -/

/-- a string literal token: quote kind, body, and the gap after it -/
structure Lit where
  q : Char
  body : Str
  gap : Str := []
  deriving DecidableEq, Repr, Inhabited

def Lit.src (l : Lit) : Str := l.q :: (l.body ++ [l.q])

/-- the body does not close the literal: no unescaped quote of the literal's kind, no pending backslash at its end;
    `esc`: the previous character is an unescaped backslash -/
def bodyOk (q : Char) : Bool → Str → Bool
  | esc, [] => !esc
  | true, _ :: t => bodyOk q false t
  | false, c :: t => c != q && bodyOk q (c == '\\') t

/-- a literal the scanner (and Python's tokenizer) reads as one literal; its gap is blanks -/
def Lit.ok (l : Lit) : Bool := isQuote l.q && bodyOk l.q false l.body && l.gap.all isBlank

/-- a text with literals: the text before the first literal, then each literal with the text after it -/
def renderSegs (head : Str) : List (Lit × Str) → Str
  | [] => head
  | (l, x) :: r => head ++ (l.src ++ renderSegs x r)

def noQuote (x : Str) : Bool := !x.any isQuote

/-- a token sequence with string literals: a run of other tokens, then each literal with the run after it.
    (`Tok.other` still accepts any lexeme; in an `LToks` the literals are the `Lit`s and the runs are quote-free.) -/
structure LToks where
  head : List (Tok × Str)
  tail : List (Lit × List (Tok × Str))
  deriving DecidableEq, Repr, Inhabited

/-- the texts after the literals, for a rendering `f` of the runs: the literal's gap, then the run -/
def LToks.segs (f : List (Tok × Str) → Str) (m : LToks) : List (Lit × Str) :=
  m.tail.map fun p => (p.1, p.1.gap ++ f p.2)

/-- a layout of a token sequence with literals -/
def renderL (m : LToks) : Str := renderSegs (render m.head) (m.segs render)

/-- the translated layout: every run is translated, the literals stay -/
def renderPyL (m : LToks) : Str :=
  renderSegs (renderPy (m.head.map pad)) (m.segs fun ts => renderPy (ts.map pad))

def LToks.map (fn : Tok → Tok) (m : LToks) : LToks :=
  { head := mapToks fn m.head, tail := m.tail.map fun p => (p.1, mapToks fn p.2) }

def LToks.runs (m : LToks) : List (List (Tok × Str)) := m.head :: m.tail.map (·.2)
def LToks.lits (m : LToks) : List Lit := m.tail.map (·.1)

/-- the string literals of a token sequence, as the scanner reports them -/
def LToks.litPieces (m : LToks) : List Piece := m.lits.map fun l => .lit l.q l.body true

def noQuoteToks (ts : List (Tok × Str)) : Bool := ts.all fun p => noQuote p.1.src && noQuote p.2

/-- literals are literals, runs contain no quote character -/
def LToks.shape (m : LToks) : Bool := m.runs.all noQuoteToks && m.lits.all Lit.ok

/-- hypotheses of `getExpressionL_layout`: `wfToks` for every run — **nothing** is asked of the literal bodies -/
def wfL (m : LToks) : Bool := m.shape && m.runs.all wfToks

def hasRefL (k : Char) (m : LToks) : Bool := m.runs.any (hasRef k)

/-- hypotheses of `escapeKindL_layout`: `okFor` for every run — **nothing** is asked of the literal bodies -/
def okForL (k : Char) (suf : Str) (m : LToks) : Bool := m.shape && m.runs.all (okFor k suf false)

/-- one flat item of a matcher: a token or a literal, each with its gap -/
inductive LItem
  | tok (t : Tok) (g : Str)
  | lit (l : Lit)
  deriving DecidableEq, Repr, Inhabited

/-- group a flat sequence into runs and literals -/
def group : List LItem → LToks
  | [] => { head := [], tail := [] }
  | .tok t g :: r => let m := group r; { m with head := (t, g) :: m.head }
  | .lit l :: r => let m := group r; { head := [], tail := (l, m.head) :: m.tail }

def ungroupTail : List (Lit × List (Tok × Str)) → List LItem
  | [] => []
  | (l, ts) :: r => .lit l :: (ts.map fun p => LItem.tok p.1 p.2) ++ ungroupTail r

def ungroup (m : LToks) : List LItem := (m.head.map fun p => LItem.tok p.1 p.2) ++ ungroupTail m.tail

/-- the text of a flat sequence -/
def renderItems : List LItem → Str
  | [] => []
  | .tok t g :: r => t.src ++ g ++ renderItems r
  | .lit l :: r => l.src ++ l.gap ++ renderItems r

/-! ### `eval()` splicing -/

/-- one `eval( name )` occurrence with its layout: the text before it, the white space between `eval` and `(`,
    after `(`, and before `)` -/
structure EvalCall where
  pre : Str
  ws1 : Str
  ws2 : Str
  name : Str
  ws3 : Str
  deriving DecidableEq, Repr, Inhabited

/-- the same call written without any white space -/
def EvalCall.tight (c : EvalCall) : EvalCall := { c with ws1 := [], ws2 := [], ws3 := [] }

/-- a matcher text with `eval(name)` occurrences, then the text after the last one -/
def renderEvals : List EvalCall → Str → Str
  | [], tail => tail
  | c :: rest, tail =>
    c.pre ++ (evalWord ++ (c.ws1 ++ '(' :: (c.ws2 ++ (c.name ++ (c.ws3 ++ ')' :: renderEvals rest tail)))))

/-- the text `replace_eval` must produce -/
def spliced : List EvalCall → List Str → Str → Str
  | c :: rest, r :: rs, tail => c.pre ++ ('(' :: (r ++ ')' :: spliced rest rs tail))
  | _, _, tail => tail

/-- the literal and the text differ at a position both have -/
def mismatch : Str → Str → Bool
  | p :: ps, c :: t => p != c || mismatch ps t
  | _, _ => false

/-- the text cannot be the beginning of a match of `eval\s*\(`, whatever follows it: it differs from `eval`, or
    after `eval` and white space it continues with a character other than `(` -/
def noStart (s : Str) : Bool :=
  mismatch evalWord s ||
  (match dropPrefix? evalWord s with
   | some t => (match t.dropWhile isSpace with | c :: _ => c != '(' | [] => false)
   | none => false)

/-- no position of the text starts (or could start, once more text follows) a match of `\beval\s*\(` -/
def quietE : Bool → Str → Bool
  | _, [] => true
  | pw, c :: t => (pw || noStart (c :: t)) && quietE (isWord c) t

/-- the same for the text after the last `eval()` (nothing follows it) -/
def quietEnd : Bool → Str → Bool
  | _, [] => true
  | pw, c :: t => (pw || (evalAt (c :: t)).isNone) && quietEnd (isWord c) t

/-- no white space at either end -/
def trimmed (x : Str) : Bool :=
  (match x with | c :: _ => !isSpace c | [] => true) &&
  (match x.reverse with | c :: _ => !isSpace c | [] => true)

/-- hypotheses of the `eval` theorems: the texts between the calls contain nothing that looks like one, each
    call starts at a word boundary, the gaps inside a call are white space, names contain no `)` and carry no
    white space at their ends -/
def okEvals : Bool → List EvalCall → Str → Bool
  | pw, [], tail => quietEnd pw tail
  | pw, c :: rest, tail =>
    quietE pw c.pre && !lastWord pw c.pre && c.ws1.all isSpace && c.ws2.all isSpace && c.ws3.all isSpace &&
    !c.name.contains ')' && trimmed c.name && okEvals false rest tail

end Casbin.Matcher
