/-!
# Level-bounded breadth-first reachability, as in `RoleManager._has_link` (role_manager.py)

```python
def _has_link(self, targets, roles, level):
    if level <= 0 or len(roles) == 0: return False
    next_roles = {}
    for role in roles.values():
        if targets.name == role.name or (match_fn and match_fn(role.name, targets.name)): return True
        role.range_roles(lambda key, value: next_roles[key] = value)
    return self._has_link(targets, next_roles, level - 1)
```
`has_link(n1, n2)` returns True when `n1 == n2` and otherwise calls `_has_link(role(n2), {n1: user}, max_hierarchy_level)`.
Core Lean only.
-/
namespace Casbin

abbrev Name := String
/-- a role graph: the set of (user, role) edges as a list; duplicates and order are irrelevant to every definition below -/
abbrev Graph := List (Name × Name)

def succs (g : Graph) (u : Name) : List Name := (g.filter (·.1 == u)).map (·.2)

/-- `_has_link` with the frontier as a list (the dict of next roles; duplicates harmless) -/
def hasLinkAux (g : Graph) (target : Name) : Nat → List Name → Bool
  | 0, _ => false
  | _, [] => false
  | lvl + 1, roles =>
    if roles.any (· == target) then true else hasLinkAux g target lvl (roles.flatMap (succs g))

/-- `RoleManager.has_link` (no matching function) -/
def hasLink (g : Graph) (maxLevel : Nat) (n1 n2 : Name) : Bool :=
  if n1 == n2 then true else hasLinkAux g n2 maxLevel [n1]

/-- a path of exactly `n` edges -/
inductive Path (g : Graph) : Name → Name → Nat → Prop
  | refl (u) : Path g u u 0
  | step {u v w n} : (u, v) ∈ g → Path g v w n → Path g u w (n + 1)

theorem succs_mem {g : Graph} {u v : Name} : v ∈ succs g u ↔ (u, v) ∈ g := by simp [succs]

/-- the BFS answers true exactly when some frontier member reaches the target in fewer than `lvl` edges —
    for every graph (cycles, self-loops, diamonds), every level and every frontier -/
theorem hasLinkAux_iff (g : Graph) (t : Name) (lvl : Nat) (roles : List Name) :
    hasLinkAux g t lvl roles = true ↔ ∃ r ∈ roles, ∃ n, n < lvl ∧ Path g r t n := by
  induction lvl generalizing roles with
  | zero => simp [hasLinkAux]
  | succ l ih =>
    cases roles with
    | nil => simp [hasLinkAux]
    | cons r rs =>
      unfold hasLinkAux
      split
      · rename_i h
        simp only [true_iff]
        obtain ⟨x, hx, hxt⟩ := List.any_eq_true.mp h
        exact ⟨x, hx, 0, Nat.succ_pos _, by simp at hxt; subst hxt; exact Path.refl _⟩
      · rename_i h
        rw [ih]
        constructor
        · rintro ⟨v, hv, n, hn, hp⟩
          obtain ⟨u, hu, huv⟩ := List.mem_flatMap.mp hv
          exact ⟨u, hu, n + 1, by omega, Path.step (succs_mem.mp huv) hp⟩
        · rintro ⟨u, hu, n, hn, hp⟩
          cases hp with
          | refl => exact absurd (List.any_eq_true.mpr ⟨_, hu, by simp⟩) h
          | step he hp' => exact ⟨_, List.mem_flatMap.mpr ⟨u, hu, succs_mem.mpr he⟩, _, by omega, hp'⟩

/-- `has_link` ⇔ a path of fewer than `maxLevel` edges (every name holds itself, whatever the level) -/
theorem hasLink_iff (g : Graph) (maxLevel : Nat) (n1 n2 : Name) :
    hasLink g maxLevel n1 n2 = true ↔ n1 = n2 ∨ ∃ n, n < maxLevel ∧ Path g n1 n2 n := by
  unfold hasLink
  split
  · rename_i h; simp at h; simp [h]
  · rename_i h
    simp at h
    rw [hasLinkAux_iff]
    simp [h]

end Casbin
