/-! shared basics for the model files (core Lean only) -/
deriving instance DecidableEq for Except
