/-!
# Model of `casbin/util/builtin_operators.py` (C13) — core Lean only, no proofs

Strings are `List Char` (`Str`). Every function is transcribed from the Python function named in its doc-string.
`re`, `ipaddress` are modelled only on the fragment the anchored code emits / the documented inputs; outside it a
model function answers `Out.outside` (the correspondence then says nothing, and reports how often).

The glob matcher is modelled AS REPAIRED by `fix: glob_match …` (finding F09): stars are collapsed without consuming
the next character, the `*/` shortcut continues the main loop, the general star loop returns `False` when exhausted.
-/
namespace Casbin.Builtin

abbrev Str := List Char

/-- what a modelled function answers -/
inductive Err | reError | valueError | k4Tokens
  deriving DecidableEq, Repr

inductive Out (α : Type) where
  | ok (a : α)
  | err (e : Err)
  /-- the input is outside the modelled fragment of `re` / `ipaddress` -/
  | outside
  deriving DecidableEq, Repr

def Out.map {α β : Type} (f : α → β) : Out α → Out β
  | .ok a => .ok (f a) | .err e => .err e | .outside => .outside

def Out.bind {α β : Type} (x : Out α) (f : α → Out β) : Out β :=
  match x with | .ok a => f a | .err e => .err e | .outside => .outside

/-! ## key_match / key_get -/

/-- `s.find(c)` for a one-character needle -/
def findIdx (c : Char) : Str → Option Nat
  | [] => none
  | x :: s => if x = c then some 0 else (findIdx c s).map (· + 1)

/-- `key_match(key1, key2)` -/
def keyMatch (k p : Str) : Bool :=
  match findIdx '*' p with
  | none => k == p
  | some i => if k.length > i then k.take i == p.take i else k == p.take i

/-- `key_get(key1, key2)` -/
def keyGet (k p : Str) : Str :=
  match findIdx '*' p with
  | none => []
  | some i => if k.length > i then (if k.take i == p.take i then k.drop i else []) else []

/-! ## range_match / glob_match -/

/-- one item of a class in `range_match`, after a possible backslash has been resolved to the character `c`:
    `c-c2` (with `c2` possibly escaped) unless the `-` is last or directly before `]`; `k` continues the loop -/
def rangeStep (test : Char) (k : Str → Bool → Option (Bool × Str)) (ok : Bool) (c : Char) (p : Str) :
    Option (Bool × Str) :=
  match p with
  | d :: c2 :: p2 =>
    if d = '-' then
      if c2 = ']' then k p (ok || c == test)
      else if c2 = '\\' then
        (match p2 with
         | [] => none
         | c2' :: p3 => k p3 (ok || (c ≤ test && test ≤ c2')))
      else k p2 (ok || (c ≤ test && test ≤ c2))
    else k p (ok || c == test)
  | _ => k p (ok || c == test)

/-- the `range_match` loop: the pattern after the current position, the test character, `ok` so far.
    Answers `none` for the early `return -1` (dangling backslash), else `(ok, rest of the pattern)`. -/
def rangeLoop (test : Char) : Nat → Str → Bool → Option (Bool × Str)
  | 0, _, _ => none
  | _ + 1, [], ok => some (ok, [])
  | fuel + 1, c :: p, ok =>
    if c = ']' then some (ok, p)
    else if c = '\\' then
      (match p with
       | [] => none
       | c' :: p' => rangeStep test (rangeLoop test fuel) ok c' p')
    else rangeStep test (rangeLoop test fuel) ok c p

/-- `range_match(pattern, pattern_index, test)` on the pattern suffix at `pattern_index`:
    `none` = `-1`, `some rest` = the new index (as the remaining pattern) -/
def rangeMatch (p : Str) (test : Char) : Option Str :=
  match p with
  | [] => none
  | c :: p' =>
    let negate := c == '!' || c == '^'
    let body := if negate then p' else p
    match rangeLoop test (body.length + 1) body false with
    | none => none
    | some (ok, rest) => if ok == negate then none else some rest

def noSlash : Str → Bool
  | [] => true
  | c :: s => c != '/' && noSlash s

/-- `string.find("/", i)`: the suffix *after* the first '/' -/
def afterSlash : Str → Option Str
  | [] => none
  | c :: s => if c = '/' then some s else afterSlash s

/-- the general star case: try every suffix, never stepping over '/'; does not try the empty suffix -/
def starLoop (m : Str → Bool) : Str → Bool
  | [] => false
  | c :: s => m (c :: s) || (c != '/' && starLoop m s)

def dropStars : Str → Str
  | '*' :: p => dropStars p
  | p => p

theorem dropStars_le (p : Str) : (dropStars p).length ≤ p.length := by
  fun_induction dropStars p <;> simp_all <;> omega

theorem rangeStep_le (test : Char) (k : Str → Bool → Option (Bool × Str)) (ok : Bool) (c : Char) (p : Str)
    (hk : ∀ q o b r, k q o = some (b, r) → r.length ≤ q.length) (b : Bool) (r : Str)
    (h : rangeStep test k ok c p = some (b, r)) : r.length ≤ p.length := by
  unfold rangeStep at h
  split at h
  · split at h
    · split at h
      · exact hk _ _ _ _ h
      · split at h
        · split at h
          · simp at h
          · have := hk _ _ _ _ h; simp only [List.length_cons]; omega
        · have := hk _ _ _ _ h; simp only [List.length_cons]; omega
    · exact hk _ _ _ _ h
  · exact hk _ _ _ _ h

theorem rangeLoop_le (test : Char) (fuel : Nat) (p : Str) (ok : Bool) (b : Bool) (r : Str)
    (h : rangeLoop test fuel p ok = some (b, r)) : r.length ≤ p.length := by
  induction fuel generalizing p ok b r with
  | zero => simp [rangeLoop] at h
  | succ fuel ih =>
    cases p with
    | nil => simp [rangeLoop] at h; simp [h]
    | cons c p =>
      simp only [rangeLoop] at h
      split at h
      · simp at h; simp [← h.2]
      · split at h
        · split at h
          · simp at h
          · have := rangeStep_le _ _ _ _ _ (fun q o b r => ih q o b r) _ _ h
            simp only [List.length_cons]; omega
        · have := rangeStep_le _ _ _ _ _ (fun q o b r => ih q o b r) _ _ h
          simp only [List.length_cons]; omega

theorem rangeMatch_lt (p : Str) (test : Char) (r : Str) (h : rangeMatch p test = some r) :
    r.length ≤ p.length := by
  cases p with
  | nil => simp [rangeMatch] at h
  | cons c p' =>
    simp only [rangeMatch] at h
    split at h
    · simp at h
    · rename_i ok rest heq
      have := rangeLoop_le _ _ _ _ _ _ heq
      split at h
      · simp at h
      · simp at h; subst h
        split at this <;> simp_all <;> omega

/-- `glob_match(string, pattern)` (arguments in the order pattern, string), repaired star case -/
def glob (p s : Str) : Bool :=
  match p with
  | [] => s.isEmpty
  | '?' :: p' => (match s with | [] => false | c :: s' => c != '/' && glob p' s')
  | '*' :: p' =>
    (match _h : dropStars p' with
     | [] => noSlash s
     | '/' :: q => (match afterSlash s with | none => false | some s' => glob q s')
     | c :: q => starLoop (fun s'' => glob (c :: q) s'') s)
  | '[' :: p' =>
    (match s with
     | [] => false
     | c :: s' =>
       if c = '/' then false
       else match _h : rangeMatch p' c with
         | none => false
         | some rest => glob rest s')
  | '\\' :: [] => (match s with | [] => false | c :: s' => c == '\\' && glob [] s')
  | '\\' :: e :: p' => (match s with | [] => false | c :: s' => c == e && glob p' s')
  | c :: p' => (match s with | [] => false | x :: s' => x == c && glob p' s')
termination_by p.length
decreasing_by
  all_goals simp_wf
  all_goals (try omega)
  all_goals (first
    | (have := dropStars_le p'; simp_all; omega)
    | (have := rangeMatch_lt _ _ _ _h; omega))

/-! ## The regex fragment the key matchers emit

`re.match("(?s)^" + key2 + r"\Z", key1)` for `key2` a sequence of quantified one-character atoms, optionally inside a
capturing group: literal, `.`, `[^/]`, `[^\/]` with quantifier none / `*` / `+` / `+?`.  Backtracking order is
CPython's (greedy: longest first, lazy: shortest first), so the captures of the *first* successful match are returned.
`.` matches every character, the line feed included (the code prefixes the inline flag `(?s)` = `re.DOTALL`, after
`fix: … let '*' match line feeds`); the pattern is anchored by `^` … `\Z`. -/

inductive Atom | chr (c : Char) | dot | notSlash
  deriving DecidableEq, Repr

def Atom.ok : Atom → Char → Bool
  | .chr c, x => x == c
  | .dot, _ => true
  | .notSlash, x => x != '/'

inductive Quant | one | star | plus | plusLazy
  deriving DecidableEq, Repr

structure Node where
  atom : Atom
  q : Quant
  cap : Bool
  deriving DecidableEq, Repr

/-- `\Z`: the end of the key (after `fix: … anchor the pattern with \Z`; `$` would also match before a final
    line feed) -/
def atEnd (s : Str) : Bool := s.isEmpty

/-- greedy repetition of a one-character test, then the continuation `k`; returns (consumed text, `k`'s answer) -/
def repG {α : Type} (ok : Char → Bool) (k : Str → Option α) : Bool → Str → Option (Str × α)
  | canStop, [] => if canStop then (k []).map (fun r => ([], r)) else none
  | canStop, c :: s =>
    match (if ok c then (repG ok k true s).map (fun wr => (c :: wr.1, wr.2)) else none) with
    | some x => some x
    | none => if canStop then (k (c :: s)).map (fun r => ([], r)) else none

/-- lazy repetition -/
def repL {α : Type} (ok : Char → Bool) (k : Str → Option α) : Bool → Str → Option (Str × α)
  | canStop, [] => if canStop then (k []).map (fun r => ([], r)) else none
  | canStop, c :: s =>
    match (if canStop then (k (c :: s)).map (fun r => (([] : Str), r)) else none) with
    | some x => some x
    | none => if ok c then (repL ok k true s).map (fun wr => (c :: wr.1, wr.2)) else none

/-- first successful match of the node sequence followed by `\Z`; answer = the captured groups in order -/
def matchNodes : List Node → Str → Option (List Str)
  | [], s => if atEnd s then some [] else none
  | n :: r, s =>
    let res : Option (Str × List Str) :=
      match n.q with
      | .one => (match s with
                 | [] => none
                 | c :: s' => if n.atom.ok c then (matchNodes r s').map (fun caps => ([c], caps)) else none)
      | .star => repG n.atom.ok (matchNodes r) true s
      | .plus => repG n.atom.ok (matchNodes r) false s
      | .plusLazy => repL n.atom.ok (matchNodes r) false s
    res.map (fun wc => if n.cap then wc.1 :: wc.2 else wc.2)

/-- characters that are special to `re` (a pattern containing one outside the emitted forms is not modelled) -/
def isMeta (c : Char) : Bool :=
  c == '.' || c == '^' || c == '$' || c == '*' || c == '+' || c == '?' || c == '{' || c == '}' ||
  c == '[' || c == ']' || c == '\\' || c == '|' || c == '(' || c == ')'

inductive PRes (α : Type) where
  | ok (a : α) (rest : Str)
  | err
  | outside
  deriving Repr

/-- one atom at the head of a regex string -/
def parseAtom : Str → PRes Atom
  | [] => .outside
  | c :: r =>
    if c = '[' then
      if r.take 3 = ['^', '/', ']'] then .ok .notSlash (r.drop 3)            -- `[^/]`
      else if r.take 4 = ['^', '\\', '/', ']'] then .ok .notSlash (r.drop 4)  -- `[^\/]`
      else .outside
    else if c = '.' then .ok .dot r
    else if c = '*' ∨ c = '+' ∨ c = '?' then .err       -- nothing to repeat
    else if c = '{' then
      (match r with
       | d :: _ => if d.isDigit || d == ',' then .outside else .ok (.chr '{') r
       | [] => .ok (.chr '{') r)
    else if c = '}' then .ok (.chr '}') r
    else if isMeta c then .outside else .ok (.chr c) r

def isQuantChar (c : Char) : Bool := c == '*' || c == '+' || c == '?'

/-- `{m,n}`-style quantifier start -/
def braceQuant : Str → Bool
  | c :: d :: _ => c == '{' && (d.isDigit || d == ',')
  | _ => false

/-- the quantifier after an atom -/
def parseQuant (s : Str) : PRes Quant :=
  match s with
  | [] => .ok .one []
  | c :: r =>
    if c = '*' then
      (match r with
       | d :: _ =>
         if d = '*' then .err                              -- multiple repeat
         else if d = '?' ∨ d = '+' then .outside            -- lazy star / possessive: not emitted
         else if braceQuant r then .outside else .ok .star r
       | [] => .ok .star r)
    else if c = '+' then
      (match r with
       | d :: r' =>
         if d = '?' then
           (match r' with
            | e :: _ => if isQuantChar e then .err else if braceQuant r' then .outside else .ok .plusLazy r'
            | [] => .ok .plusLazy r')
         else if d = '*' then .err
         else if d = '+' then .outside
         else if braceQuant r then .outside else .ok .plus r
       | [] => .ok .plus r)
    else if c = '?' then .outside
    else if braceQuant s then .outside else .ok .one s

/-- one item at the head of a regex string: a quantified atom, or a capturing group around one quantified atom
    (a quantified group is outside the fragment) -/
def parseItem (s : Str) : PRes Node :=
  match s with
  | [] => .outside
  | c :: r =>
    if c = '(' then
      (match parseAtom r with
       | .err => if r.head? = some '?' then .outside else .err   -- `(?…` is extension syntax, not an error
       | .outside => .outside
       | .ok a r1 =>
         match parseQuant r1 with
         | .err => .err
         | .outside => .outside
         | .ok q r2 =>
           match r2 with
           | d :: r3 =>
             if d = ')' then
               (match r3 with
                | e :: _ => if isQuantChar e || braceQuant r3 then .outside else .ok { atom := a, q := q, cap := true } r3
                | [] => .ok { atom := a, q := q, cap := true } r3)
             else .outside
           | [] => .outside)
    else
      (match parseAtom s with
       | .err => .err
       | .outside => .outside
       | .ok a r1 =>
         match parseQuant r1 with
         | .err => .err
         | .outside => .outside
         | .ok q r2 => .ok { atom := a, q := q, cap := false } r2)

/-- the body of a regex (between `^` and `\Z`) as a node list; `fuel` > the length suffices -/
def parseRe : Nat → Str → Out (List Node)
  | 0, _ => .outside
  | _ + 1, [] => .ok []
  | fuel + 1, c :: r =>
    match parseItem (c :: r) with
    | .err => .err .reError
    | .outside => .outside
    | .ok n rest => (parseRe fuel rest).map (fun ns => n :: ns)

/-- `re.match("(?s)^" + body + r"\Z", key)`: `ok none` = no match, `ok (some groups)` -/
def reMatchBody (body key : Str) : Out (Option (List Str)) :=
  (parseRe (body.length + 1) body).map (fun ns => matchNodes ns key)

/-- `re.match(re, key)` for a full regex string: must be `(?s)^…\Z` -/
def reMatchFull (re key : Str) : Out (Option (List Str)) :=
  match re with
  | '(' :: '?' :: 's' :: ')' :: '^' :: r =>
    (match r.reverse with
     | 'Z' :: '\\' :: br => reMatchBody br.reverse key
     | _ => .outside)
  | _ => .outside

/-! ## The rewrites (`str.replace`, `re.sub`, `re.findall` on the pattern) as character scanners -/

/-- `key2.replace("/*", "/.*")` -/
def replSlashStar : Str → Str
  | '/' :: '*' :: r => '/' :: '.' :: '*' :: replSlashStar r
  | c :: r => c :: replSlashStar r
  | [] => []

/-- maximal prefix without '/' -/
def takeSeg : Str → Str
  | [] => []
  | c :: s => if c = '/' then [] else c :: takeSeg s

/-- index of the first `}` before the next '/' -/
def firstClose : Str → Option Nat
  | [] => none
  | c :: s => if c = '}' then some 0 else if c = '/' then none else (firstClose s).map (· + 1)

/-- index of the last `}` inside the maximal run of non-'/' characters -/
def lastClose : Str → Option Nat
  | [] => none
  | c :: s =>
    if c = '/' then none
    else match lastClose s with
      | some i => some (i + 1)
      | none => if c = '}' then some 0 else none

/-- length of the match of `:[^/]+` at the head of the string (greedy: the whole run up to the next '/') -/
def varLenColon : Str → Option Nat
  | c :: d :: s => if c = ':' ∧ d ≠ '/' then some (2 + (takeSeg s).length) else none
  | _ => none

/-- length of the match of `{[^/]+?}` at the head (lazy: one character, then up to the first `}`) -/
def varLenBraceLazy : Str → Option Nat
  | c :: d :: s => if c = '{' ∧ d ≠ '/' then (firstClose s).map (· + 3) else none
  | _ => none

/-- length of the match of `{[^/]+}` at the head (greedy: up to the last `}` of the run; at least one character) -/
def varLenBraceGreedy : Str → Option Nat
  | c :: s => if c = '{' then (match lastClose s with | some (i + 1) => some (i + 3) | _ => none) else none
  | [] => none

/-- `re.sub(pat, emit, s)` for a pattern that cannot match the empty string (`(.*?)pat(.*?)` with `\g<1>…\g<2>`
    is the same substitution): scan left to right; where `pat` matches (`varLen` = length of its match at the
    head) emit the replacement and skip the match, otherwise copy one character. The `Nat` = characters still to skip. -/
def subVar (varLen : Str → Option Nat) (emit : Str) : Nat → Str → Str
  | _, [] => []
  | n + 1, _ :: s => subVar varLen emit n s
  | 0, c :: s =>
    match varLen (c :: s) with
    | some (n + 1) => emit ++ subVar varLen emit n s
    | _ => c :: subVar varLen emit 0 s

/-- `re.findall(pat, s)` mapped through `nameOf` (strip the colon / the braces) -/
def namesVar (varLen : Str → Option Nat) (nameOf : Str → Str) : Nat → Str → List Str
  | _, [] => []
  | n + 1, _ :: s => namesVar varLen nameOf n s
  | 0, c :: s =>
    match varLen (c :: s) with
    | some (n + 1) => nameOf ((c :: s).take (n + 1)) :: namesVar varLen nameOf n s
    | _ => namesVar varLen nameOf 0 s

/-- `key[1:]` -/
def nameColon (m : Str) : Str := m.drop 1
/-- `key[1:len(key)-1]` / `group(1)` -/
def nameBrace (m : Str) : Str := (m.drop 1).dropLast

def reNotSlashEsc : Str := "[^\\/]+".toList        -- `[^\/]+`
def reNotSlash : Str := "[^/]+".toList
def capNotSlashEsc : Str := "([^\\/]+)".toList
def capNotSlash : Str := "([^/]+)".toList
def capNotSlashLazy : Str := "([^/]+?)".toList
def capAll : Str := "(.*)".toList
def starStr : Str := ['*']

def rewrite2 (p : Str) : Str :=
  let r := subVar varLenColon reNotSlashEsc 0 (replSlashStar p)
  if r = starStr then capAll else r

def rewrite3 (p : Str) : Str := subVar varLenBraceLazy reNotSlashEsc 0 (replSlashStar p)
def rewrite4 (p : Str) : Str := subVar varLenBraceGreedy capNotSlash 0 (replSlashStar p)
def rewrite5 (p : Str) : Str := subVar varLenBraceGreedy reNotSlash 0 (replSlashStar p)

def rewriteGet2 (p : Str) : Str :=
  let r := subVar varLenColon capNotSlashEsc 0 (replSlashStar p)
  if r = starStr then capAll else r

def rewriteGet3 (p : Str) : Str :=
  let r := subVar varLenBraceLazy capNotSlashLazy 0 (replSlashStar p)
  if r = starStr then capAll else r

def asBool : Out (Option (List Str)) → Out Bool := Out.map Option.isSome

/-- `key_match2(key1, key2)` -/
def keyMatch2 (k p : Str) : Out Bool := asBool (reMatchBody (rewrite2 p) k)
/-- `key_match3(key1, key2)` -/
def keyMatch3 (k p : Str) : Out Bool := asBool (reMatchBody (rewrite3 p) k)

/-- `key1[:key1.find("?")]` -/
def dropQuery : Str → Str
  | [] => []
  | c :: s => if c = '?' then [] else c :: dropQuery s

/-- `key_match5(key1, key2)` -/
def keyMatch5 (k p : Str) : Out Bool := asBool (reMatchBody (rewrite5 p) (dropQuery k))

/-- the token/binding loop of `key_match4`: first occurrence binds, later ones must be equal -/
def bindCheck : List (Str × Str) → List (Str × Str) → Bool
  | _, [] => true
  | seen, (t, v) :: r =>
    match seen.lookup t with
    | none => bindCheck ((t, v) :: seen) r
    | some v0 => if v0 = v then bindCheck seen r else false

/-- `key_match4(key1, key2)` -/
def keyMatch4 (k p : Str) : Out Bool :=
  let p1 := replSlashStar p
  let toks := namesVar varLenBraceGreedy nameBrace 0 p1
  (reMatchBody (subVar varLenBraceGreedy capNotSlash 0 p1) k).bind fun m =>
    match m with
    | none => .ok false
    | some caps => if toks.length != caps.length then .err .k4Tokens else .ok (bindCheck [] (toks.zip caps))

/-- the final loop of `key_get2` / `key_get3` -/
def pickGroup (v : Str) : List Str → List Str → Str
  | n :: ns, g :: gs => if v = n then g else pickGroup v ns gs
  | _, _ => []

/-- does the `for` loop index `values.groups()` out of range before finding `path_var`? (IndexError) -/
def pickOverrun (v : Str) : List Str → List Str → Bool
  | n :: ns, _ :: gs => if v = n then false else pickOverrun v ns gs
  | n :: _, [] => v = n
  | [], _ => false

/-- `key_get2(key1, key2, path_var)` -/
def keyGet2 (k p v : Str) : Out Str :=
  let p1 := replSlashStar p
  let names := namesVar varLenColon nameColon 0 p1
  (reMatchBody (rewriteGet2 p) k).bind fun m =>
    match m with
    | none => .ok []
    | some caps => if pickOverrun v names caps then .outside else .ok (pickGroup v names caps)

/-- `key_get3(key1, key2, path_var)` -/
def keyGet3 (k p v : Str) : Out Str :=
  let p1 := replSlashStar p
  let names := namesVar varLenBraceLazy nameBrace 0 p1
  (reMatchBody (rewriteGet3 p) k).bind fun m =>
    match m with
    | none => .ok []
    | some caps => if pickOverrun v names caps then .outside else .ok (pickGroup v names caps)

/-! ## ip_match (IPv4 and IPv6)

`ipaddress.ip_address(ip1)`, `ipaddress.ip_network(ip2, strict=False)`, `ip1 in network` of CPython 3.12, transcribed
function by function. `none` = `AddressValueError` / `NetmaskValueError` (both are `ValueError`s). -/

def splitOn (sep : Char) : Str → List Str
  | [] => [[]]
  | c :: s =>
    if c = sep then [] :: splitOn sep s
    else match splitOn sep s with
      | [] => [[c]]       -- unreachable: `splitOn` never returns `[]`
      | w :: ws => (c :: w) :: ws

def isAsciiDigit (c : Char) : Bool := '0' ≤ c && c ≤ '9'

/-- `int(s)` for a string of ASCII digits -/
def digitsVal : Str → Nat → Nat
  | [], acc => acc
  | c :: s, acc => digitsVal s (acc * 10 + (c.toNat - '0'.toNat))

/-- `IPv4Address._parse_octet` -/
def parseOctet (s : Str) : Option Nat :=
  if s.isEmpty then none
  else if !s.all isAsciiDigit then none
  else if s.length > 3 then none
  else if s != ['0'] && s.head? == some '0' then none
  else
    let v := digitsVal s 0
    if v > 255 then none else some v

/-- `IPv4Address(s)._ip`; `none` = `AddressValueError` -/
def parseV4 (s : Str) : Option Nat :=
  match splitOn '.' s with
  | [a, b, c, d] =>
    (match parseOctet a, parseOctet b, parseOctet c, parseOctet d with
     | some a, some b, some c, some d => some (((a * 256 + b) * 256 + c) * 256 + d)
     | _, _, _, _ => none)
  | _ => none

/-- `_prefix_from_prefix_string` for a family whose `_max_prefixlen` is `w`: ASCII digits only (no sign, no blank,
    not empty; leading zeros are accepted by `int`), `0 ≤ value ≤ w`; `none` = `NetmaskValueError` -/
def parsePrefixW (w : Nat) (s : Str) : Option Nat :=
  if s.isEmpty || !s.all isAsciiDigit then none
  else
    let v := digitsVal s 0
    if v > w then none else some v

/-- `IPv4Network._prefix_from_prefix_string` -/
def parsePrefix (s : Str) : Option Nat := parsePrefixW 32 s

/-- `IPv6Network._prefix_from_prefix_string` (`_BaseV6._make_netmask` accepts nothing else: no netmask / hostmask
    spelling exists for IPv6) -/
def parsePrefix6 (s : Str) : Option Nat := parsePrefixW 128 s

/-- value of one character of `_BaseV6._HEX_DIGITS = frozenset('0123456789ABCDEFabcdef')`; `none` = not in the set -/
def hexVal (c : Char) : Option Nat :=
  if '0' ≤ c && c ≤ '9' then some (c.toNat - '0'.toNat)
  else if 'a' ≤ c && c ≤ 'f' then some (c.toNat - 'a'.toNat + 10)
  else if 'A' ≤ c && c ≤ 'F' then some (c.toNat - 'A'.toNat + 10)
  else none

def isHexDigit (c : Char) : Bool := (hexVal c).isSome

/-- `int(s, 16)` for a string of hex digits -/
def hexDigitsVal : Str → Nat → Nat
  | [], acc => acc
  | c :: s, acc => hexDigitsVal s (acc * 16 + (hexVal c).getD 0)

/-- `_BaseV6._parse_hextet`: only the 22 ASCII hex digits, at most 4 of them; the empty text fails in `int('', 16)`.
    `none` = `ValueError` -/
def parseHextet (s : Str) : Option Nat :=
  if !s.all isHexDigit then none
  else if s.length > 4 then none
  else if s.isEmpty then none
  else some (hexDigitsVal s 0)

/-- one element of the list `parts` of `_ip_int_from_string`: a piece of the text between two colons, or one of the
    two hextets `'%x' % …` that replace a dotted-quad suffix (the rendering is not modelled: such a part is not
    empty and `_parse_hextet` gives the number back) -/
inductive Part where
  | txt (s : Str)
  | num (v : Nat)
  deriving DecidableEq, Repr

/-- `not parts[i]` -/
def Part.isEmpty : Part → Bool
  | .txt s => s.isEmpty
  | .num _ => false

/-- `cls._parse_hextet(parts[i])` -/
def Part.val : Part → Option Nat
  | .txt s => parseHextet s
  | .num v => some v

/-- the two loops `ip_int <<= 16; ip_int |= cls._parse_hextet(parts[i])` (a hextet is below 2^16, so `|` adds) -/
def hextets (acc : Nat) : List Part → Option Nat
  | [] => some acc
  | p :: ps =>
    match p.val with
    | none => none
    | some v => hextets (acc * 65536 + v) ps

/-- the parts before the first empty part and, if there is one, the parts after it -/
def breakEmpty : List Part → List Part × Option (List Part)
  | [] => ([], none)
  | p :: ps =>
    if p.isEmpty then ([], some ps)
    else ((p :: (breakEmpty ps).1), (breakEmpty ps).2)

/-- `_BaseV6._ip_int_from_string` from the length check `len(parts) > _max_parts` on. `first`, `middle`, `last` =
    `parts[0]`, `parts[1:-1]`, `parts[-1]` (there are at least three parts). An empty part in the middle is `::`
    (`skip_index`), a second one is an error; with `::` an empty first (last) part is allowed only directly before
    (after) it, and at least one hextet must be skipped; without `::` exactly 8 non-empty parts. -/
def parseV6Parts (first : Part) (middle : List Part) (last : Part) : Option Nat :=
  if middle.length + 2 > 9 then none
  else match breakEmpty middle with
    | (_, none) =>
      if middle.length + 2 != 8 then none
      else if first.isEmpty then none
      else if last.isEmpty then none
      else hextets 0 (first :: middle ++ [last])
    | (h, some l) =>
      if l.any Part.isEmpty then none                       -- "At most one '::' permitted"
      else if first.isEmpty && !h.isEmpty then none         -- "Leading ':' only permitted as part of '::'"
      else if last.isEmpty && !l.isEmpty then none          -- "Trailing ':' only permitted as part of '::'"
      else
        let hi := if first.isEmpty then [] else first :: h
        let lo := if last.isEmpty then [] else l ++ [last]
        if hi.length + lo.length > 7 then none              -- `parts_skipped < 1`
        else
          match hextets 0 hi with
          | none => none
          | some x => hextets (x * 65536 ^ (8 - (hi.length + lo.length))) lo

/-- `(first, middle, last)` of a list with at least two elements -/
def ends : List Part → Option (Part × List Part × Part)
  | [] => none
  | [_] => none
  | p :: q :: r =>
    match ends (q :: r) with
    | none => some (p, [], q)                 -- `r = []`
    | some (q', m, l) => some (p, q' :: m, l)

/-- `_BaseV6._ip_int_from_string`: not empty, at least three colon-separated parts (counted BEFORE a dotted-quad
    suffix is replaced), a last part containing '.' must be an IPv4 address and becomes two hextets -/
def parseV6Core (s : Str) : Option Nat :=
  if s.isEmpty then none
  else
    let ps := splitOn ':' s
    if ps.length < 3 then none
    else
      let lastS := ps.getLast?.getD []
      let parts : Option (List Part) :=
        if lastS.contains '.' then
          (match parseV4 lastS with
           | none => none
           | some v => some (ps.dropLast.map Part.txt ++ [Part.num (v / 65536 % 65536), Part.num (v % 65536)]))
        else some (ps.map Part.txt)
      match parts with
      | none => none
      | some parts =>
        match ends parts with
        | none => none
        | some (f, m, l) => parseV6Parts f m l

/-- `IPv6Address._split_scope_id`: `addr, sep, scope_id = ip_str.partition('%')`; an empty zone or a second '%' is
    an error. Answers the address part (the zone takes no part in `in`). -/
def splitScope (s : Str) : Option Str :=
  match splitOn '%' s with
  | [a] => some a
  | [a, z] => if z.isEmpty then none else some a
  | _ => none

/-- `IPv6Address(s)._ip`; `none` = `AddressValueError` -/
def parseV6 (s : Str) : Option Nat :=
  if s.contains '/' then none          -- "Unexpected '/'"
  else match splitScope s with
    | none => none
    | some addr => parseV6Core addr

/-- address family; `width` = `_max_prefixlen` -/
inductive Fam | v4 | v6
  deriving DecidableEq, Repr

def Fam.width : Fam → Nat
  | .v4 => 32
  | .v6 => 128

/-- `ipaddress.ip_address(s)`: `IPv4Address(s)`, on failure `IPv6Address(s)`; `none` = `ValueError` -/
def parseAddr (s : Str) : Option (Fam × Nat) :=
  match parseV4 s with
  | some x => some (.v4, x)
  | none =>
    match parseV6 s with
    | some x => some (.v6, x)
    | none => none

/-- `addr & netmask` for a prefix length in a family of width `w`: clear the low `w - len` bits -/
def maskTo (w len : Nat) (x : Nat) : Nat := x - x % 2 ^ (w - len)

/-- `_prefix_from_ip_int`: the 32-bit number is `len` ones followed by zeros; `none` = `ValueError`
    ("mixes zeroes & ones") -/
def prefixFromInt (v : Nat) : Option Nat :=
  (List.range 33).find? (fun len => v == 2 ^ 32 - 2 ^ (32 - len))

/-- `IPv4Network._prefix_from_ip_string`: the mask text is parsed like an address; a netmask (ones then zeros, the
    all-zero and all-one words count as netmasks), else after `ip_int ^= _ALL_ONES` (= `2^32 - 1 - v`, the number is
    below 2^32) a hostmask (zeros then ones) -/
def prefixFromDotted (m : Str) : Option Nat :=
  match parseV4 m with
  | none => none
  | some v =>
    match prefixFromInt v with
    | some len => some len
    | none => prefixFromInt (4294967295 - v)

/-- `IPv4Network._make_netmask` on a text: a prefix length, else a dotted netmask / hostmask -/
def parseMask4 (m : Str) : Option Nat :=
  match parsePrefix m with
  | some len => some len
  | none => prefixFromDotted m

/-- `IPv4Network(b, strict=False)`: `_split_optional_netmask` (at most one '/'), the address, then the mask;
    answers (address as written, prefix length), `none` = `AddressValueError` / `NetmaskValueError` -/
def parseNet4 (b : Str) : Option (Nat × Nat) :=
  match splitOn '/' b with
  | [addr] =>
    (match parseV4 addr with
     | none => none
     | some y => some (y, 32))
  | [addr, m] =>
    (match parseV4 addr with
     | none => none
     | some y =>
       match parseMask4 m with
       | some len => some (y, len)
       | none => none)
  | _ => none

/-- `IPv6Network(b, strict=False)`; the network part may carry a zone (`IPv6Address(addr)` accepts it, the masked
    network address drops it); the mask is a prefix length, nothing else (`_BaseV6._make_netmask`) -/
def parseNet6 (b : Str) : Option (Nat × Nat) :=
  match splitOn '/' b with
  | [addr] =>
    (match parseV6 addr with
     | none => none
     | some y => some (y, 128))
  | [addr, m] =>
    (match parseV6 addr with
     | none => none
     | some y =>
       match parsePrefix6 m with
       | some len => some (y, len)
       | none => none)
  | _ => none

/-- `ip_match(ip1, ip2)`: `ip_address(ip1)` raises outside the `try`; `ip_network(ip2, strict=False)` tries
    `IPv4Network`, then `IPv6Network`; `ip1 in network` is `False` for different versions, else
    `ip1._ip & netmask == network_address._ip` (the network address is already masked, `strict=False`);
    an invalid pattern gives `ip1 == ip2`, an address object against a `str`: `False`.
    Nothing is left outside the model (`Out.outside` is never answered). -/
def ipMatch (a b : Str) : Out Bool :=
  match parseAddr a with
  | none => .err .valueError
  | some (f, x) =>
    match parseNet4 b with
    | some (y, len) =>
      (match f with
       | .v4 => .ok (maskTo 32 len x == maskTo 32 len y)
       | .v6 => .ok false)
    | none =>
      match parseNet6 b with
      | some (y, len) =>
        (match f with
         | .v4 => .ok false
         | .v6 => .ok (maskTo 128 len x == maskTo 128 len y))
      | none => .ok false

end Casbin.Builtin
