import CasbinV.Model.Enforcer
/-!
# Model of the remaining RBAC query API of `casbin/enforcer.py` (and its twin `async_enforcer.py`)

`get_implicit_users_for_resource`, `get_implicit_users_for_resource_by_domain`, `get_all_roles`,
`get_all_roles_by_domain`, `get_permissions_for_user`, `get_permissions_for_user_in_domain`,
`has_permission_for_user`, `get_(named_)implicit_permissions_for_user` with a domain / `filter_policy_dom`.
`get_roles_for_user_in_domain` / `get_users_for_role_in_domain` are `getRoles` / `getUsers` of Model/Enforcer.lean
with `some dom`; `get_implicit_roles_for_user(name, dom)` is `implicitRoles … (some dom)`.

Scope: the subject is field 0 of a permission rule (all three shapes); no domain matching function is registered
(`domain_matching_func is None`), so the `partial(...)` branch of `get_named_implicit_permissions_for_user` is not
taken.  Permission rules are assumed to have the object (and domain) field (`rule[object_index]` would raise
`IndexError` otherwise - not reachable through the management API of a well-formed model).  Core Lean only.
-/
namespace Casbin.Enf
open Casbin.Policy

/-- index of the `obj` / `dom` token in the permission definition of the shape (`get_field_index("p", …)`) -/
def Shape.objIdx : Shape → Nat | .rbac => 1 | .rbacDom => 2 | .rbacRes => 1
def Shape.domIdx : Shape → Nat | .rbac => 0 | .rbacDom => 1 | .rbacRes => 0   -- only meaningful for `.rbacDom`

/-- keys of the `permissions = dict()` accumulator in insertion order: the first occurrence of every rule -/
def dedupR : List Rule → List Rule
  | [] => []
  | x :: xs => x :: (dedupR xs).filter (· != x)

/-- `get_all_roles()` = `get_values_for_field_in_policy("g", "g", 1)`: computed from the stored grouping *rules* -/
def allRoles (s : St) : List String := fieldValues s.pol.g 1

/-- `get_all_roles_by_domain(domain)`: the last-but-one field of every stored grouping rule whose last field is the
    domain (a `set` in the code: each once, order not observable) -/
def allRolesByDomain (g : List Rule) (dom : String) : List String :=
  dedupS (g.filterMap fun r => if r.getLast? == some dom then r[r.length - 2]? else none)

/-- the body of `for rule in self.get_policy(): if rule[object_index] == resource: …` once the rule is selected:
    a rule whose subject is not a role is listed as it is; otherwise once per *direct* user of that role
    (`rm.get_users(sub[, domain])`), with the subject replaced -/
def expandRule (isRole : String → Bool) (users : String → List String) (rule : Rule) : List Rule :=
  match rule[0]? with
  | none => []
  | some sub => if isRole sub then (users sub).map fun u => rule.set 0 u else [rule]

/-- the loop of both resource-centred views -/
def usersForResourceCore (isRole : String → Bool) (users : String → List String) (sel : Rule → Bool)
    (p : List Rule) : List Rule :=
  dedupR ((p.filter sel).flatMap (expandRule isRole users))

/-- `get_implicit_users_for_resource(resource)` (model without domains): "is a role" = second field of a stored
    `g` rule; users from the role manager of `g` (its link store) -/
def implicitUsersForResource (sh : Shape) (s : St) (resource : String) : List Rule :=
  usersForResourceCore (fun x => (allRoles s).contains x) (fun sub => getUsers s.links.g sub none)
    (fun r => r[sh.objIdx]? == some resource) s.pol.p

/-- `get_implicit_users_for_resource_by_domain(resource, domain)` (after F11: rules of another domain are skipped):
    "is a role" = `get_all_roles_by_domain(domain)`; users from the role manager, restricted to the domain -/
def implicitUsersForResourceByDomain (sh : Shape) (s : St) (resource dom : String) : List Rule :=
  usersForResourceCore (fun x => (allRolesByDomain s.pol.g dom).contains x)
    (fun sub => getUsers s.links.g sub (some dom))
    (fun r => r[sh.objIdx]? == some resource && r[sh.domIdx]? == some dom) s.pol.p

/-- `get_permissions_for_user(user)` = `get_filtered_policy(0, user)` -/
def permissionsForUser (s : St) (user : String) : Except PErr (List Rule) := Policy.getFiltered s.pol.p 0 [user]

/-- `get_permissions_for_user_in_domain(user, domain)` = `get_filtered_named_policy("p", 0, user, domain)` -/
def permissionsForUserInDomain (s : St) (user dom : String) : Except PErr (List Rule) :=
  Policy.getFiltered s.pol.p 0 [user, dom]

/-- `has_permission_for_user(user, *permission)` = `has_policy([user, *permission])` -/
def hasPermissionForUser (s : St) (user : String) (perm : List String) : Bool := s.pol.p.contains (user :: perm)

/-- `for role in roles: res.extend(get_named_permissions_for_user_in_domain(ptype, role, dom'))`; the first
    exception wins -/
def gatherPermissions (p : List Rule) (dom' : String) : List String → Except PErr (List Rule)
  | [] => .ok []
  | role :: roles =>
    match Policy.getFiltered p 0 [role, dom'] with
    | .error e => .error e
    | .ok l => match gatherPermissions p dom' roles with
      | .error e => .error e
      | .ok rest => .ok (l ++ rest)

/-- `get_implicit_permissions_for_user(user, domain, filter_policy_dom)` on the domain model: the roles come from
    `get_implicit_roles_for_user(user, domain)`; `none` = the worklist loop ran out of fuel (never, Props/C15f) -/
def implicitPermissionsDom (s : St) (user dom : String) (filterDom : Bool) : Option (Except PErr (List Rule)) :=
  (implicitRoles s.links.g user (some dom)).map fun roles =>
    gatherPermissions s.pol.p (if filterDom then dom else "") (user :: roles)

end Casbin.Enf
