/-!
# Python `str` primitives used by the persistence code (core Lean only, no proofs)

Strings are `List Char` (Unicode scalar values, no lone surrogates).  Every definition here is validated against
CPython by `tools/harness/props/c10.py` (`isspace` over all 0x110000 code points, the others exhaustively over a
small alphabet) on every run of C10 / C12.
-/
namespace Casbin.Py

abbrev Str := List Char

/-- `str.isspace()` of a one-character string: Unicode bidirectional class WS/B/S or category Zs
    (CPython `_PyUnicode_IsWhitespace`). -/
def isSpace (c : Char) : Bool :=
  let n := c.toNat
  (0x09 ≤ n && n ≤ 0x0D) || (0x1C ≤ n && n ≤ 0x20) || n == 0x85 || n == 0xA0 || n == 0x1680 ||
  (0x2000 ≤ n && n ≤ 0x200A) || n == 0x2028 || n == 0x2029 || n == 0x202F || n == 0x205F || n == 0x3000

/-- `s.lstrip()` -/
def lstrip : Str → Str
  | [] => []
  | c :: s => if isSpace c then lstrip s else c :: s

/-- `s.rstrip()` -/
def rstrip : Str → Str
  | [] => []
  | c :: s =>
    match rstrip s with
    | [] => if isSpace c then [] else [c]
    | r => c :: r

/-- `s.strip()` -/
def strip (s : Str) : Str := rstrip (lstrip s)

/-- `s.rstrip(ch)` for a one-character argument -/
def rstripChar (ch : Char) : Str → Str
  | [] => []
  | c :: s =>
    match rstripChar ch s with
    | [] => if c = ch then [] else [c]
    | r => c :: r

/-- `s.split(sep)` for a one-character separator: never empty, `"".split(",") == [""]` -/
def splitOn (sep : Char) : Str → List Str
  | [] => [[]]
  | c :: s =>
    if c = sep then [] :: splitOn sep s
    else match splitOn sep s with
      | [] => [[c]]
      | p :: ps => (c :: p) :: ps

/-- `sep.join(parts)` -/
def join (sep : Str) : List Str → Str
  | [] => []
  | [p] => p
  | p :: q :: ps => p ++ sep ++ join sep (q :: ps)

end Casbin.Py
