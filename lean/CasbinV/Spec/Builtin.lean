import CasbinV.Model.Builtin
/-!
# C13 — executable specifications (what the property says), core Lean only

* `keyMatchSpec`, `keyGetSpec`: `*` = any remainder.
* glob: `tokenize` reads a pattern as tokens (`lit`, `?`, `*`, `[class]`), `den` is the shell/pathname denotation
  in which `*`, `?` and classes never match '/'.
* keyMatch2/3/5: `tok2` / `tok3` / `tok5` read a pattern *of the documented form* (`none` otherwise) as
  `lit c | star | var`; `denK` is the denotation: `star` = any text, `var` = one non-empty run without '/'.
* keyMatch4 / keyGet2 / keyGet3 (binding): `segs2` / `segsB` read a pattern whose variables and `*` are whole
  segments (`*` last); `segMatch` is the deterministic segment-wise matcher returning the bindings.
* ipMatch: equality of the leading `len` bits.
-/
namespace Casbin.Builtin.Spec
open Casbin.Builtin

/-! ## keyMatch / keyGet -/

/-- text before the first `*` -/
def beforeStar : Str → Str
  | [] => []
  | c :: s => if c = '*' then [] else c :: beforeStar s

def keyMatchSpec (k p : Str) : Bool :=
  if p.contains '*' then (beforeStar p).isPrefixOf k else k == p

def keyGetSpec (k p : Str) : Str :=
  if p.contains '*' && (beforeStar p).isPrefixOf k then k.drop (beforeStar p).length else []

/-! ## glob -/

/-- a class item: `lo-hi` (a single character is `c-c`) -/
abbrev Item := Char × Char

def inItems (t : Char) (items : List Item) : Bool := items.any (fun it => it.1 ≤ t && t ≤ it.2)

inductive GTok
  | lit (c : Char)
  | any1
  | star
  | cls (neg : Bool) (items : List Item)
  /-- a class that ends in a dangling backslash: matches nothing -/
  | bad
  deriving Repr, DecidableEq

/-- one item `c` or `c-c2` (`c2` possibly escaped); a `-` that is last or directly before `]` is an ordinary member -/
def itemStep (k : Str → Option (List Item × Str)) (c : Char) (p : Str) : Option (List Item × Str) :=
  match p with
  | d :: c2 :: p2 =>
    if d = '-' then
      if c2 = ']' then (k p).map (fun r => ((c, c) :: r.1, r.2))
      else if c2 = '\\' then
        (match p2 with
         | [] => none
         | c2' :: p3 => (k p3).map (fun r => ((c, c2') :: r.1, r.2)))
      else (k p2).map (fun r => ((c, c2) :: r.1, r.2))
    else (k p).map (fun r => ((c, c) :: r.1, r.2))
  | _ => (k p).map (fun r => ((c, c) :: r.1, r.2))

/-- the items of a class body up to the closing `]` (or the end of the pattern); `none` = dangling backslash -/
def classItems : Nat → Str → Option (List Item × Str)
  | 0, _ => none
  | _ + 1, [] => some ([], [])
  | fuel + 1, c :: p =>
    if c = ']' then some ([], p)
    else if c = '\\' then
      (match p with
       | [] => none
       | c' :: p' => itemStep (classItems fuel) c' p')
    else itemStep (classItems fuel) c p

/-- a class after its `[`: negation flag, items, rest of the pattern -/
def parseClass (p : Str) : Option (Bool × List Item × Str) :=
  match p with
  | [] => none
  | c :: p' =>
    let negate := c == '!' || c == '^'
    let body := if negate then p' else p
    (classItems (body.length + 1) body).map (fun r => (negate, r.1, r.2))

theorem itemStep_le (k : Str → Option (List Item × Str)) (c : Char) (p : Str)
    (hk : ∀ q its r, k q = some (its, r) → r.length ≤ q.length) (its : List Item) (r : Str)
    (h : itemStep k c p = some (its, r)) : r.length ≤ p.length := by
  unfold itemStep at h
  have key : ∀ q (f : List Item × Str → List Item × Str), (k q).map f = some (its, r) →
      (∀ x, (f x).2 = x.2) → r.length ≤ q.length := by
    intro q f hq hf
    simp only [Option.map_eq_some_iff] at hq
    obtain ⟨⟨a, b⟩, h1, h2⟩ := hq
    have := hf (a, b); rw [h2] at this; simp at this; subst this
    exact hk _ _ _ h1
  split at h
  · split at h
    · split at h
      · exact key _ _ h (fun _ => rfl)
      · split at h
        · split at h
          · simp at h
          · have := key _ _ h (fun _ => rfl); simp only [List.length_cons]; omega
        · have := key _ _ h (fun _ => rfl); simp only [List.length_cons]; omega
    · exact key _ _ h (fun _ => rfl)
  · exact key _ _ h (fun _ => rfl)

theorem classItems_le (fuel : Nat) (p : Str) (its : List Item) (r : Str)
    (h : classItems fuel p = some (its, r)) : r.length ≤ p.length := by
  induction fuel generalizing p its r with
  | zero => simp [classItems] at h
  | succ fuel ih =>
    cases p with
    | nil => simp [classItems] at h; simp [h]
    | cons c p =>
      simp only [classItems] at h
      split at h
      · simp at h; simp [← h.2]
      · split at h
        · split at h
          · simp at h
          · have := itemStep_le _ _ _ (fun q its r => ih q its r) _ _ h
            simp only [List.length_cons]; omega
        · have := itemStep_le _ _ _ (fun q its r => ih q its r) _ _ h
          simp only [List.length_cons]; omega

theorem parseClass_le (p : Str) (n : Bool) (its : List Item) (r : Str)
    (h : parseClass p = some (n, its, r)) : r.length ≤ p.length := by
  cases p with
  | nil => simp [parseClass] at h
  | cons c p' =>
    simp only [parseClass, Option.map_eq_some_iff] at h
    obtain ⟨⟨a, b⟩, h1, h2⟩ := h
    have := classItems_le _ _ _ _ h1
    simp at h2; obtain ⟨_, _, rfl⟩ := h2
    split at this <;> simp_all <;> omega

def tokenize : Str → List GTok
  | [] => []
  | '?' :: p => .any1 :: tokenize p
  | '*' :: p => .star :: tokenize p
  | '[' :: p =>
    (match _h : parseClass p with
     | none => [.bad]
     | some (neg, items, rest) => .cls neg items :: tokenize rest)
  | '\\' :: [] => [.lit '\\']
  | '\\' :: e :: p => .lit e :: tokenize p
  | c :: p => .lit c :: tokenize p
termination_by p => p.length
decreasing_by
  all_goals simp_wf
  all_goals (try omega)
  have := parseClass_le _ _ _ _ _h; omega

/-- the denotation, executable: `*` = any run of non-'/' characters, `?` / a class = one non-'/' character -/
def den : List GTok → Str → Bool
  | [], s => s.isEmpty
  | .lit c :: ts, s => (match s with | [] => false | x :: s' => x == c && den ts s')
  | .any1 :: ts, s => (match s with | [] => false | x :: s' => x != '/' && den ts s')
  | .cls neg items :: ts, s =>
    (match s with | [] => false | x :: s' => x != '/' && (inItems x items != neg) && den ts s')
  | .bad :: _, _ => false
  | .star :: ts, s => den ts s || (match s with | [] => false | x :: s' => x != '/' && den (.star :: ts) s')
termination_by ts s => (ts.length, s.length)

def globSpec (p s : Str) : Bool := den (tokenize p) s

/-! ## keyMatch2 / 3 / 5 -/

inductive KTok
  | lit (c : Char)
  | star
  | var
  deriving Repr, DecidableEq

/-- `k s ∨ k (tail s) ∨ …` : any split -/
def anySuffix (k : Str → Bool) : Str → Bool
  | [] => k []
  | c :: s => k (c :: s) || anySuffix k s

/-- `k` after a (possibly empty) run of non-'/' characters -/
def anyRun (k : Str → Bool) : Str → Bool
  | [] => k []
  | c :: s => k (c :: s) || (c != '/' && anyRun k s)

def denK : List KTok → Str → Bool
  | [], s => s.isEmpty
  | .lit c :: ts, s => (match s with | [] => false | x :: s' => x == c && denK ts s')
  | .star :: ts, s => anySuffix (denK ts) s
  | .var :: ts, s => (match s with | [] => false | x :: s' => x != '/' && anyRun (denK ts) s')

/-- the documented form, generic in the variable syntax (`varLen` = length of a variable at the head, the same
    function the model's `re.sub` scanner uses; `okVar` = extra condition on the variable's text): `/*`, variables,
    and literal characters that are not special to `re`. `none` = not of the documented form. -/
def tokVar (varLen : Str → Option Nat) (okVar : Str → Bool) : Nat → Str → Option (List KTok)
  | 0, [] => some []
  | _ + 1, [] => none
  | n + 1, _ :: s => tokVar varLen okVar n s
  | 0, '/' :: '*' :: r => (tokVar varLen okVar 0 r).map (fun ts => .lit '/' :: .star :: ts)
  | 0, c :: s =>
    match varLen (c :: s) with
    | some (n + 1) =>
      if okVar ((c :: s).take (n + 1)) then (tokVar varLen okVar n s).map (fun ts => .var :: ts) else none
    | _ => if isMeta c then none else (tokVar varLen okVar 0 s).map (fun ts => .lit c :: ts)

def okAny (_ : Str) : Bool := true
/-- the name between the braces contains no brace -/
def okBraceName (m : Str) : Bool := !(nameBrace m).contains '{' && !(nameBrace m).contains '}'

/-- documented form for keyMatch2 (`:name` runs to the next '/'; the whole pattern may be `*`) -/
def docTok2 (p : Str) : Option (List KTok) := if p = ['*'] then some [.star] else tokVar varLenColon okAny 0 p
/-- documented form for keyMatch3 (`{name}` up to the first `}`) -/
def tok3 (p : Str) : Option (List KTok) := tokVar varLenBraceLazy okAny 0 p
/-- documented form for keyMatch5 (and, with whole-segment variables, keyMatch4): `{name}`, the name without braces -/
def tok5 (p : Str) : Option (List KTok) := tokVar varLenBraceGreedy okBraceName 0 p

/-! ## binding: keyMatch4, keyGet2, keyGet3 -/

/-- every variable is directly followed by '/' or the end of the pattern, and `*` is last -/
def detForm : List KTok → Bool
  | [] => true
  | .var :: ts => (match ts with | [] => true | .lit c :: _ => c == '/' | _ => false) && detForm ts
  | .star :: ts => ts.isEmpty
  | .lit _ :: ts => detForm ts

/-- the texts bound by the variables, left to right (`none` = the key is not denoted) -/
def capsOf : List KTok → Str → Option (List Str)
  | [], s => if s.isEmpty then some [] else none
  | .lit c :: ts, s => (match s with | [] => none | x :: s' => if x = c then capsOf ts s' else none)
  | .star :: _, _ => some []
  | .var :: ts, s =>
    if (takeSeg s).isEmpty then none
    else (capsOf ts (s.drop (takeSeg s).length)).map (fun caps => takeSeg s :: caps)

/-- documented form for the binding functions: the documented form of the boolean function, and in addition
    every variable ends at a '/' or at the end of the pattern and `*` is last (then the match is unique) -/
def bindForm (toks : Option (List KTok)) : Option (List KTok) :=
  toks.bind (fun ts => if detForm ts then some ts else none)

/-- equal names bind equal texts (first occurrence binds) -/
def keyMatch4Spec (k p : Str) : Option Bool :=
  (bindForm (tok5 p)).map fun ts =>
    match capsOf ts k with
    | none => false
    | some caps => bindCheck [] ((namesVar varLenBraceGreedy nameBrace 0 p).zip caps)

/-- the text bound by the first variable named `v` (empty when the key is not denoted or no variable has that name) -/
def keyGet2Spec (k p v : Str) : Option Str :=
  if p = ['*'] then some []
  else (bindForm (tokVar varLenColon okAny 0 p)).map fun ts =>
    match capsOf ts k with
    | none => []
    | some caps => (((namesVar varLenColon nameColon 0 p).zip caps).lookup v).getD []

def keyGet3Spec (k p v : Str) : Option Str :=
  (bindForm (tok3 p)).map fun ts =>
    match capsOf ts k with
    | none => []
    | some caps => (((namesVar varLenBraceLazy nameBrace 0 p).zip caps).lookup v).getD []

/-! ## ipMatch

An address text denotes a family (IPv4: 32 bits, IPv6: 128 bits) and a number (`parseAddr`: dotted quad, or the
RFC 4291 text forms with an optional `%zone`). A pattern denotes a family, a number and a prefix length: an address
text (the length is the family's width: a single address), or `address/len` with `0 ≤ len ≤ width`. The pattern
denotes the block of the addresses OF ITS FAMILY whose leading `len` bits equal its own. -/

/-- membership of address `x` in the block of `y` with prefix length `len`, for addresses of `w` bits:
    the leading `len` bits agree -/
def sameBlock (w len x y : Nat) : Bool := x / 2 ^ (w - len) == y / 2 ^ (w - len)

/-- what a pattern denotes: (family, address, prefix length); `none` = not a documented pattern -/
def blockDen (b : Str) : Option (Fam × Nat × Nat) :=
  match splitOn '/' b with
  | [addr] =>
    (match parseAddr addr with
     | some (f, y) => some (f, y, f.width)
     | none => none)
  | [addr, m] =>
    (match parseAddr addr with
     | some (f, y) =>
       (match parsePrefixW f.width m with
        | some len => some (f, y, len)
        | none => none)
     | none => none)
  | _ => none

def ipSpec (a b : Str) : Option Bool :=
  match parseAddr a, blockDen b with
  | some (f, x), some (g, y, len) => some (f == g && sameBlock g.width len x y)
  | _, _ => none

end Casbin.Builtin.Spec
