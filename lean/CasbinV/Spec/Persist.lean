import CasbinV.Model.Persist
/-!
# What C10 and C12 say, as executable definitions (core Lean only; used by the driver's `spec=` column and by the
theorems of `Props/C10.lean`, `Props/C12.lean`)
-/
namespace Casbin.Persist.Spec
open Casbin.Py Casbin.Persist

/-! ## C10: admissible field values -/

/-- no top-level comma, no line break, only balanced brackets (`d` = brackets currently open).  Bracket kinds are not
    distinguished — the code does not distinguish them either — so this is weaker than "properly nested". -/
def fieldScan : Nat → Str → Bool
  | d, [] => d == 0
  | d, c :: s =>
    if isOpen c then fieldScan (d + 1) s
    else if isClose c then (match d with | 0 => false | d' + 1 => fieldScan d' s)
    else if c == ',' then d != 0 && fieldScan d s
    else c != '\n' && fieldScan d s

/-- `FieldOK`: the hypothesis of C10 on a field value — also no leading or trailing blank -/
def fieldOK (f : Str) : Bool := fieldScan 0 f && strip f == f

/-- a policy-type name as `Model.load_section` produces them (`p`, `p2`, `g`, `g3` …): non-empty, not starting a
    comment, without blanks, commas or brackets -/
def keyOK (k : Str) : Bool :=
  !k.isEmpty && k.head? != some '#' && k.all fun c => !isSpace c && c != ',' && !isOpen c && !isClose c

/-- a rule as every policy definition admits it: at least one field, all fields admissible -/
def ruleOK (r : Rule) : Bool := !r.isEmpty && r.all fieldOK

/-- the model defines every policy type once (keys of a Python dict) -/
def keysNodup : Store → Bool
  | [] => true
  | e :: es => !(es.any fun x => x.key == e.key) && keysNodup es

def isPG (e : Entry) : Bool := e.sec == some 'p' || e.sec == some 'g'

/-- the hypothesis of C10 on a whole policy: the `p` and `g` sections hold admissible rules under proper names -/
def policyOK (st : Store) : Bool :=
  keysNodup st && st.all fun e => !isPG e || (keyOK e.key && e.rules.all ruleOK)

/-! ## C10: what a policy line means -/

/-- every character with the number of brackets open before it -/
def annotate : Nat → Str → List (Char × Nat)
  | _, [] => []
  | d, c :: s => (c, d) :: annotate (if isOpen c then d + 1 else if isClose c then d - 1 else d) s

/-- cut at the commas that are outside brackets -/
def splitTop : List (Char × Nat) → List Str
  | [] => [[]]
  | (c, d) :: s =>
    if c == ',' && d == 0 then [] :: splitTop s
    else match splitTop s with
      | [] => [[c]]
      | p :: ps => (c :: p) :: ps

/-- "split at commas that are outside brackets with surrounding blanks trimmed" -/
def specFields (line : Str) : List Str := (splitTop (annotate 0 line)).map strip

/-- no closing bracket without an open one -/
def neverNegative : Nat → Str → Bool
  | _, [] => true
  | d, c :: s =>
    if isOpen c then neverNegative (d + 1) s
    else if isClose c then (match d with | 0 => false | d' + 1 => neverNegative d' s)
    else neverNegative d s

/-- the line grammar `type, field, field …`: the line starts with the type name (not with a comma or a bracket), the
    type name is not blank, brackets do not close below zero.  Open brackets may stay open. -/
def lineWF (line : Str) : Bool :=
  match line with
  | [] => true
  | c :: _ =>
    c == '#' ||
    (c != ',' && !isOpen c && !isClose c && neverNegative 0 line &&
      (match specFields line with | [] => false | k :: _ => !k.isEmpty))

/-- a line's meaning: nothing for an empty line or a comment, else (type, fields) -/
def specLine (line : Str) : Option (Str × Rule) :=
  if line.isEmpty || line.head? == some '#' then none
  else match specFields line with
    | [] => none
    | k :: r => some (k, r)

/-- the lines of a policy text as the file adapters (`trim = true`: each line is stripped first) resp. the string
    adapter see them -/
def textLines (trim : Bool) (text : Str) : List Str :=
  (splitOn '\n' text).map fun l => if trim then strip l else l

/-- the rules a text contributes to policy type `key`: "its non-empty, non-comment lines …, each attached to the
    policy type named by its first field" -/
def rulesFor (key : Str) (lines : List Str) : List Rule :=
  lines.filterMap fun l =>
    match specLine l with
    | some (k, r) => if k == key then some r else none
    | none => none

/-- what the loader extracts from one line (nothing from a line it skips) -/
def parsed (l : Str) : Option (Str × Rule) :=
  match parseLine l with | .ok (some kr) => some kr | _ => none

def parsedPairs (lines : List Str) : List (Str × Rule) := lines.filterMap parsed

/-- the rules a list of (type, fields) pairs holds for policy type `key`, in order -/
def rulesOf (kr : List (Str × Rule)) (key : Str) : List Rule := (kr.filter fun p => p.1 == key).map (·.2)

/-- append to every policy type the rules `kr` holds for it -/
def extend (m : Store) (kr : List (Str × Rule)) : Store :=
  m.map fun e => { e with rules := e.rules ++ rulesOf kr e.key }

/-! ## C12: the filter predicate -/

/-- every non-blank filter value equals the corresponding leading field (values compared after `strip`; a rule too
    short to have the field does not equal it) -/
def matchesFilter : List Str → Rule → Bool
  | [], _ => true
  | v :: vs, [] => blank v && matchesFilter vs []
  | v :: vs, w :: ws => (blank v || strip v == w) && matchesFilter vs ws

/-- which stored rules a filter keeps: `p` by `P`, `g` by `G`, other policy types unfiltered -/
def keeps (f : Filter) (key : Str) (r : Rule) : Bool :=
  if key == ['p'] then matchesFilter f.P r
  else if key == ['g'] then matchesFilter f.G r
  else true

def filterStore (f : Filter) (st : Store) : Store :=
  st.map fun e => { e with rules := e.rules.filter (keeps f e.key) }

/-- entry-wise concatenation of two stores over the same keys -/
def appendStore (a b : Store) : Store :=
  a.map fun e => { e with rules := e.rules ++ b.get e.key }

end Casbin.Persist.Spec
