import CasbinV.Proofs.RWLockInv
/-!
# Simulation: the instruction-list interpreter of `Model/RWLock.lean` on the expected program refines the counter
abstraction (helper of C16)

`sim_step` / `sim_spurious`: every interpreter step (one instruction of one thread, or a spurious wake-up) from a
well-formed state is a `CStep` between the abstractions, and well-formedness (every thread at a program point of the
expected program) is preserved. `interp_reach`: hence every state the interpreter reaches from `expected.init scripts`
abstracts to a `Reach`-able counter state. No stuttering: the abstraction is as fine as the interpreter.
-/
set_option linter.unusedSimpArgs false
namespace Casbin.C16
open Casbin.RW

/-! ## Simulation: every step of the instruction-list interpreter on the expected program is a step of the counter
    abstraction -/

/-- every thread is at a program point of the expected program -/
def WF (s : Sys) : Prop := ∀ t ∈ s.ts, clsOf t.loc ≠ .bad

theorem clsOf_loc (c : Cls) (h : c ≠ .bad) : clsOf c.loc = c := by
  cases c <;> first | rfl | exact absurd rfl h

theorem loc_of_cls {l : Loc} {c : Cls} (h : clsOf l = c) (hb : c ≠ .bad) : l = c.loc := by
  unfold clsOf at h
  cases hf : Cls.all.find? (fun c => c.loc == l) with
  | none => rw [hf] at h; simp at h; exact absurd h.symm hb
  | some c' =>
    rw [hf] at h
    simp at h
    subst h
    have := List.find?_some hf
    exact (by simpa using this : c'.loc = l).symm

theorem cnt_set (c : Cls) (ts : List Thread) (i : Nat) (t' : Thread) (hi : i < ts.length) :
    cnt c (ts.set i t') = cnt c ts - (if clsOf ts[i].loc = c then 1 else 0) + (if clsOf t'.loc = c then 1 else 0) := by
  unfold cnt
  rw [List.countP_set hi]
  simp

theorem cnt_pos (c : Cls) (ts : List Thread) (i : Nat) (hi : i < ts.length) (h : clsOf ts[i].loc = c) : 0 < cnt c ts := by
  unfold cnt
  rw [List.countP_pos_iff]
  exact ⟨ts[i], List.getElem_mem hi, by simp [h]⟩

theorem cnt_hold_zero (c : Cls) (ts : List Thread) (hfree : mutexFree ts = true) (hc : c.loc.holds = true) (hb : c ≠ .bad) :
    cnt c ts = 0 := by
  unfold cnt
  rw [List.countP_eq_zero]
  intro t ht hcl
  simp at hcl
  have hl := loc_of_cls hcl hb
  unfold mutexFree at hfree
  rw [List.all_eq_true] at hfree
  have := hfree t ht
  rw [hl, hc] at this
  simp at this

theorem holders_zero (s : Sys) (hfree : mutexFree s.ts = true) : (abs s).holders = 0 := by
  simp only [CS.holders, abs]
  rw [cnt_hold_zero .rH0 _ hfree rfl (by decide), cnt_hold_zero .rH1 _ hfree rfl (by decide), cnt_hold_zero .rH2 _ hfree rfl (by decide),
    cnt_hold_zero .rrH0 _ hfree rfl (by decide), cnt_hold_zero .rrH1 _ hfree rfl (by decide), cnt_hold_zero .rrH1n _ hfree rfl (by decide),
    cnt_hold_zero .rrH2 _ hfree rfl (by decide), cnt_hold_zero .wH0 _ hfree rfl (by decide), cnt_hold_zero .wH1 _ hfree rfl (by decide),
    cnt_hold_zero .wH2 _ hfree rfl (by decide), cnt_hold_zero .wH3 _ hfree rfl (by decide), cnt_hold_zero .wH4 _ hfree rfl (by decide),
    cnt_hold_zero .wrH0 _ hfree rfl (by decide), cnt_hold_zero .wrH1 _ hfree rfl (by decide), cnt_hold_zero .wrH2 _ hfree rfl (by decide)]

/-- effect of `notify_all` on a program point -/
def wakeCls : Cls → Cls
  | .rS => .rN
  | .wS => .wN
  | c => c

theorem clsOf_wake (t : Thread) (hb : clsOf t.loc ≠ .bad) : clsOf (wake t).loc = wakeCls (clsOf t.loc) := by
  have hl := loc_of_cls rfl hb
  generalize clsOf t.loc = c at hl hb
  obtain ⟨loc, todo⟩ := t
  simp only at hl
  subst hl
  cases c <;> first | rfl | decide | exact absurd rfl hb

theorem wake_ne_bad (t : Thread) (hb : clsOf t.loc ≠ .bad) : clsOf (wake t).loc ≠ .bad := by
  rw [clsOf_wake t hb]
  generalize clsOf t.loc = c at hb
  cases c <;> simp_all [wakeCls]


theorem cnt_map_wake (c : Cls) (ts : List Thread) (hwf : ∀ t ∈ ts, clsOf t.loc ≠ .bad) :
    cnt c (ts.map wake) = ts.countP (fun t => wakeCls (clsOf t.loc) == c) := by
  unfold cnt
  rw [List.countP_map]
  apply List.countP_congr
  intro t ht
  simp [clsOf_wake t (hwf t ht)]

/-- how many threads are at `c` after a `notify_all` -/
def wokenCnt (c : Cls) (ts : List Thread) : Nat :=
  if c = .rS ∨ c = .wS then 0
  else if c = .rN then cnt .rN ts + cnt .rS ts
  else if c = .wN then cnt .wN ts + cnt .wS ts
  else cnt c ts

set_option maxHeartbeats 2000000 in
theorem countP_wakeCls (c : Cls) (ts : List Thread) :
    ts.countP (fun t => wakeCls (clsOf t.loc) == c) = wokenCnt c ts := by
  induction ts with
  | nil => cases c <;> simp [wokenCnt, cnt]
  | cons t ts ih =>
    rw [List.countP_cons, ih]
    unfold wokenCnt cnt
    simp only [List.countP_cons]
    generalize clsOf t.loc = k
    cases c <;> cases k <;> simp [wakeCls] <;> omega

theorem cnt_wake (c : Cls) (ts : List Thread) (hwf : ∀ t ∈ ts, clsOf t.loc ≠ .bad) :
    cnt c (ts.map wake) = wokenCnt c ts := by
  rw [cnt_map_wake c ts hwf, countP_wakeCls]


/-- abstract state after one thread moved from program point `a` to `b` (variables given) -/
def moved (cs : CS) (a b : Cls) (ar ww : Int) (wa : Nat) : CS :=
  let f := fun (c : Cls) (n : Nat) => n - (if a = c then 1 else 0) + (if b = c then 1 else 0)
  { ar := ar, ww := ww, wa := wa, idle := f .idle cs.idle,
    rW := f .rW cs.rW, rH0 := f .rH0 cs.rH0, rS := f .rS cs.rS, rN := f .rN cs.rN, rH1 := f .rH1 cs.rH1,
    rH2 := f .rH2 cs.rH2, rIn := f .rIn cs.rIn,
    rrW := f .rrW cs.rrW, rrH0 := f .rrH0 cs.rrH0, rrH1 := f .rrH1 cs.rrH1, rrH1n := f .rrH1n cs.rrH1n, rrH2 := f .rrH2 cs.rrH2,
    wW := f .wW cs.wW, wH0 := f .wH0 cs.wH0, wH1 := f .wH1 cs.wH1, wS := f .wS cs.wS, wN := f .wN cs.wN,
    wH2 := f .wH2 cs.wH2, wH3 := f .wH3 cs.wH3, wH4 := f .wH4 cs.wH4, wIn := f .wIn cs.wIn,
    wrW := f .wrW cs.wrW, wrH0 := f .wrH0 cs.wrH0, wrH1 := f .wrH1 cs.wrH1, wrH2 := f .wrH2 cs.wrH2 }

def waNat (v : Vars) : Nat := if v.wa then 1 else 0

theorem abs_set (s : Sys) (i : Nat) (hi : i < s.ts.length) (t' : Thread) (v' : Vars) :
    abs { v := v', ts := s.ts.set i t' } = moved (abs s) (clsOf s.ts[i].loc) (clsOf t'.loc) v'.ar v'.ww (waNat v') := by
  simp [abs, moved, cnt_set _ _ _ _ hi, waNat]

theorem abs_wake (s : Sys) (hwf : WF s) : abs { v := s.v, ts := s.ts.map wake } = (abs s).wakeAll := by
  simp [abs, CS.wakeAll, cnt_wake _ _ hwf, wokenCnt]

theorem wf_set {s : Sys} (hwf : WF s) (i : Nat) (t' : Thread) (v' : Vars) (hb : clsOf t'.loc ≠ .bad) :
    WF { v := v', ts := s.ts.set i t' } := by
  intro t ht
  rcases List.mem_or_eq_of_mem_set ht with h | h
  · exact hwf t h
  · subst h; exact hb

theorem wf_wake {s : Sys} (hwf : WF s) : WF { v := s.v, ts := s.ts.map wake } := by
  intro t ht
  simp only [List.mem_map] at ht
  obtain ⟨u, hu, rfl⟩ := ht
  exact wake_ne_bad u (hwf u hu)

theorem cR_eval (v : Vars) : cR.eval v = true ↔ (0 < v.ww ∨ 0 < waNat v) := by
  cases hw : v.wa <;> simp [cR, Cond.eval, Vars.get, waNat, hw] <;> exact decide_eq_true_iff

theorem cW_eval (v : Vars) : cW.eval v = true ↔ (0 < v.ar ∨ 0 < waNat v) := by
  cases hw : v.wa <;> simp [cW, Cond.eval, Vars.get, waNat, hw] <;> exact decide_eq_true_iff


theorem sim_move {v : Vars} {ts : List Thread} (hwf : WF ⟨v, ts⟩) {i : Nat} (hi : i < ts.length) (a b : Cls)
    (ha : clsOf ts[i].loc = a) (hb : b ≠ .bad) (t' : Thread) (hl : t'.loc = b.loc) (v' : Vars) :
    WF ⟨v', ts.set i t'⟩ ∧ abs ⟨v', ts.set i t'⟩ = moved (abs ⟨v, ts⟩) a b v'.ar v'.ww (waNat v') := by
  have hcb : clsOf t'.loc = b := by rw [hl]; exact clsOf_loc b hb
  refine ⟨wf_set hwf i t' v' (by rw [hcb]; exact hb), ?_⟩
  have := abs_set ⟨v, ts⟩ i hi t' v'
  simp only at this
  rw [this, ha, hcb]

set_option maxHeartbeats 4000000 in
theorem sim_step {s s' : Sys} {i : Nat} (hwf : WF s) (h : step expected s i = some s') :
    WF s' ∧ ∃ l, CStep l (abs s) (abs s') := by
  unfold step at h
  cases hget : s.ts[i]? with
  | none => simp [hget] at h
  | some t =>
    obtain ⟨hi, hti⟩ := List.getElem?_eq_some_iff.mp hget
    have hb := hwf t (hti ▸ List.getElem_mem hi)
    have hloc := loc_of_cls (rfl : clsOf t.loc = clsOf t.loc) hb
    have hcls : clsOf s.ts[i].loc = clsOf t.loc := by rw [hti]
    have hpos := cnt_pos (clsOf t.loc) s.ts i hi hcls
    simp only [hget] at h
    generalize hc : clsOf t.loc = c at hloc hb hcls hpos
    obtain ⟨v, ts⟩ := s
    obtain ⟨tl, todo⟩ := t
    simp only at hloc hi hti hpos hcls h hget
    subst hloc
    obtain ⟨A, hA⟩ : ∃ A, A = abs ⟨v, ts⟩ := ⟨_, rfl⟩
    cases c with
    | bad => exact absurd rfl hb
    | rW =>
      simp only [Cls.loc] at h
      split at h
      · rename_i hfree
        cases h
        show WF ⟨v, ts.set i ⟨Cls.rH0.loc, todo⟩⟩ ∧ ∃ l, CStep l (abs ⟨v, ts⟩) (abs ⟨v, ts.set i ⟨Cls.rH0.loc, todo⟩⟩)
        have hposA : 0 < A.rW := by rw [hA]; exact hpos
        obtain ⟨hw', he⟩ := sim_move hwf hi _ .rH0 hcls (by decide) ⟨Cls.rH0.loc, todo⟩ rfl (v)
        refine ⟨hw', .rLock, ?_⟩
        rw [he, ← hA]
        have hstep := CStep.rLock A hposA (by rw [hA]; exact holders_zero ⟨v, ts⟩ hfree)
        have e : moved A .rW .rH0 (v).ar (v).ww (waNat (v)) = { A with rW := A.rW - 1, rH0 := A.rH0 + 1 } := by
          simp [moved, hA, abs, waNat, Vars.set, Vars.get] <;> (by_cases hw : v.wa = true <;> simp [hw])
        rw [e]; exact hstep
      · cases h
    | rN =>
      simp only [Cls.loc] at h
      split at h
      · rename_i hfree
        cases h
        show WF ⟨v, ts.set i ⟨Cls.rH0.loc, todo⟩⟩ ∧ ∃ l, CStep l (abs ⟨v, ts⟩) (abs ⟨v, ts.set i ⟨Cls.rH0.loc, todo⟩⟩)
        have hposA : 0 < A.rN := by rw [hA]; exact hpos
        obtain ⟨hw', he⟩ := sim_move hwf hi _ .rH0 hcls (by decide) ⟨Cls.rH0.loc, todo⟩ rfl (v)
        refine ⟨hw', .rRelock, ?_⟩
        rw [he, ← hA]
        have hstep := CStep.rRelock A hposA (by rw [hA]; exact holders_zero ⟨v, ts⟩ hfree)
        have e : moved A .rN .rH0 (v).ar (v).ww (waNat (v)) = { A with rN := A.rN - 1, rH0 := A.rH0 + 1 } := by
          simp [moved, hA, abs, waNat, Vars.set, Vars.get] <;> (by_cases hw : v.wa = true <;> simp [hw])
        rw [e]; exact hstep
      · cases h
    | rH0 =>
      simp only [Cls.loc] at h
      split at h
      · rename_i hev
        cases h
        have hg := (cR_eval v).mp hev
        show WF ⟨v, ts.set i ⟨Cls.rS.loc, todo⟩⟩ ∧ ∃ l, CStep l (abs ⟨v, ts⟩) (abs ⟨v, ts.set i ⟨Cls.rS.loc, todo⟩⟩)
        have hposA : 0 < A.rH0 := by rw [hA]; exact hpos
        obtain ⟨hw', he⟩ := sim_move hwf hi _ .rS hcls (by decide) ⟨Cls.rS.loc, todo⟩ rfl (v)
        refine ⟨hw', .rWait, ?_⟩
        rw [he, ← hA]
        have hstep := CStep.rWait A hposA (by simpa [hA, abs, waNat] using hg)
        have e : moved A .rH0 .rS (v).ar (v).ww (waNat (v)) = { A with rH0 := A.rH0 - 1, rS := A.rS + 1 } := by
          simp [moved, hA, abs, waNat, Vars.set, Vars.get] <;> (by_cases hw : v.wa = true <;> simp [hw])
        rw [e]; exact hstep
      · rename_i hev
        cases h
        have hg : ¬ _ := fun hh => hev ((cR_eval v).mpr hh)
        show WF ⟨v, ts.set i ⟨Cls.rH1.loc, todo⟩⟩ ∧ ∃ l, CStep l (abs ⟨v, ts⟩) (abs ⟨v, ts.set i ⟨Cls.rH1.loc, todo⟩⟩)
        have hposA : 0 < A.rH0 := by rw [hA]; exact hpos
        obtain ⟨hw', he⟩ := sim_move hwf hi _ .rH1 hcls (by decide) ⟨Cls.rH1.loc, todo⟩ rfl (v)
        refine ⟨hw', .rPass, ?_⟩
        rw [he, ← hA]
        have hstep := CStep.rPass A hposA (by simpa [hA, abs, waNat] using hg)
        have e : moved A .rH0 .rH1 (v).ar (v).ww (waNat (v)) = { A with rH0 := A.rH0 - 1, rH1 := A.rH1 + 1 } := by
          simp [moved, hA, abs, waNat, Vars.set, Vars.get] <;> (by_cases hw : v.wa = true <;> simp [hw])
        rw [e]; exact hstep
    | rS =>
      simp only [Cls.loc] at h
      cases h
    | rH1 =>
      simp only [Cls.loc] at h
      cases h
      show WF ⟨v.set .ar (v.get .ar + 1), ts.set i ⟨Cls.rH2.loc, todo⟩⟩ ∧ ∃ l, CStep l (abs ⟨v, ts⟩) (abs ⟨v.set .ar (v.get .ar + 1), ts.set i ⟨Cls.rH2.loc, todo⟩⟩)
      have hposA : 0 < A.rH1 := by rw [hA]; exact hpos
      obtain ⟨hw', he⟩ := sim_move hwf hi _ .rH2 hcls (by decide) ⟨Cls.rH2.loc, todo⟩ rfl (v.set .ar (v.get .ar + 1))
      refine ⟨hw', .rInc, ?_⟩
      rw [he, ← hA]
      have hstep := CStep.rInc A hposA
      have e : moved A .rH1 .rH2 (v.set .ar (v.get .ar + 1)).ar (v.set .ar (v.get .ar + 1)).ww (waNat (v.set .ar (v.get .ar + 1))) = { A with rH1 := A.rH1 - 1, rH2 := A.rH2 + 1, ar := A.ar + 1 } := by
        simp [moved, hA, abs, waNat, Vars.set, Vars.get] <;> (by_cases hw : v.wa = true <;> simp [hw])
      rw [e]; exact hstep
    | rH2 =>
      simp only [Cls.loc] at h
      cases h
      show WF ⟨v, ts.set i ⟨Cls.rIn.loc, todo⟩⟩ ∧ ∃ l, CStep l (abs ⟨v, ts⟩) (abs ⟨v, ts.set i ⟨Cls.rIn.loc, todo⟩⟩)
      have hposA : 0 < A.rH2 := by rw [hA]; exact hpos
      obtain ⟨hw', he⟩ := sim_move hwf hi _ .rIn hcls (by decide) ⟨Cls.rIn.loc, todo⟩ rfl (v)
      refine ⟨hw', .rUnlock, ?_⟩
      rw [he, ← hA]
      have hstep := CStep.rUnlock A hposA
      have e : moved A .rH2 .rIn (v).ar (v).ww (waNat (v)) = { A with rH2 := A.rH2 - 1, rIn := A.rIn + 1 } := by
        simp [moved, hA, abs, waNat, Vars.set, Vars.get] <;> (by_cases hw : v.wa = true <;> simp [hw])
      rw [e]; exact hstep
    | rIn =>
      simp only [Cls.loc] at h
      cases h
      show WF ⟨v, ts.set i ⟨Cls.rrW.loc, todo⟩⟩ ∧ ∃ l, CStep l (abs ⟨v, ts⟩) (abs ⟨v, ts.set i ⟨Cls.rrW.loc, todo⟩⟩)
      have hposA : 0 < A.rIn := by rw [hA]; exact hpos
      obtain ⟨hw', he⟩ := sim_move hwf hi _ .rrW hcls (by decide) ⟨Cls.rrW.loc, todo⟩ rfl (v)
      refine ⟨hw', .rrStart, ?_⟩
      rw [he, ← hA]
      have hstep := CStep.rrStart A hposA
      have e : moved A .rIn .rrW (v).ar (v).ww (waNat (v)) = { A with rIn := A.rIn - 1, rrW := A.rrW + 1 } := by
        simp [moved, hA, abs, waNat, Vars.set, Vars.get] <;> (by_cases hw : v.wa = true <;> simp [hw])
      rw [e]; exact hstep
    | rrW =>
      simp only [Cls.loc] at h
      split at h
      · rename_i hfree
        cases h
        show WF ⟨v, ts.set i ⟨Cls.rrH0.loc, todo⟩⟩ ∧ ∃ l, CStep l (abs ⟨v, ts⟩) (abs ⟨v, ts.set i ⟨Cls.rrH0.loc, todo⟩⟩)
        have hposA : 0 < A.rrW := by rw [hA]; exact hpos
        obtain ⟨hw', he⟩ := sim_move hwf hi _ .rrH0 hcls (by decide) ⟨Cls.rrH0.loc, todo⟩ rfl (v)
        refine ⟨hw', .rrLock, ?_⟩
        rw [he, ← hA]
        have hstep := CStep.rrLock A hposA (by rw [hA]; exact holders_zero ⟨v, ts⟩ hfree)
        have e : moved A .rrW .rrH0 (v).ar (v).ww (waNat (v)) = { A with rrW := A.rrW - 1, rrH0 := A.rrH0 + 1 } := by
          simp [moved, hA, abs, waNat, Vars.set, Vars.get] <;> (by_cases hw : v.wa = true <;> simp [hw])
        rw [e]; exact hstep
      · cases h
    | rrH0 =>
      simp only [Cls.loc] at h
      cases h
      show WF ⟨v.set .ar (v.get .ar - 1), ts.set i ⟨Cls.rrH1.loc, todo⟩⟩ ∧ ∃ l, CStep l (abs ⟨v, ts⟩) (abs ⟨v.set .ar (v.get .ar - 1), ts.set i ⟨Cls.rrH1.loc, todo⟩⟩)
      have hposA : 0 < A.rrH0 := by rw [hA]; exact hpos
      obtain ⟨hw', he⟩ := sim_move hwf hi _ .rrH1 hcls (by decide) ⟨Cls.rrH1.loc, todo⟩ rfl (v.set .ar (v.get .ar - 1))
      refine ⟨hw', .rrDec, ?_⟩
      rw [he, ← hA]
      have hstep := CStep.rrDec A hposA
      have e : moved A .rrH0 .rrH1 (v.set .ar (v.get .ar - 1)).ar (v.set .ar (v.get .ar - 1)).ww (waNat (v.set .ar (v.get .ar - 1))) = { A with rrH0 := A.rrH0 - 1, rrH1 := A.rrH1 + 1, ar := A.ar - 1 } := by
        simp [moved, hA, abs, waNat, Vars.set, Vars.get] <;> (by_cases hw : v.wa = true <;> simp [hw])
      rw [e]; exact hstep
    | wW =>
      simp only [Cls.loc] at h
      split at h
      · rename_i hfree
        cases h
        show WF ⟨v, ts.set i ⟨Cls.wH0.loc, todo⟩⟩ ∧ ∃ l, CStep l (abs ⟨v, ts⟩) (abs ⟨v, ts.set i ⟨Cls.wH0.loc, todo⟩⟩)
        have hposA : 0 < A.wW := by rw [hA]; exact hpos
        obtain ⟨hw', he⟩ := sim_move hwf hi _ .wH0 hcls (by decide) ⟨Cls.wH0.loc, todo⟩ rfl (v)
        refine ⟨hw', .wLock, ?_⟩
        rw [he, ← hA]
        have hstep := CStep.wLock A hposA (by rw [hA]; exact holders_zero ⟨v, ts⟩ hfree)
        have e : moved A .wW .wH0 (v).ar (v).ww (waNat (v)) = { A with wW := A.wW - 1, wH0 := A.wH0 + 1 } := by
          simp [moved, hA, abs, waNat, Vars.set, Vars.get] <;> (by_cases hw : v.wa = true <;> simp [hw])
        rw [e]; exact hstep
      · cases h
    | wH0 =>
      simp only [Cls.loc] at h
      cases h
      show WF ⟨v.set .ww (v.get .ww + 1), ts.set i ⟨Cls.wH1.loc, todo⟩⟩ ∧ ∃ l, CStep l (abs ⟨v, ts⟩) (abs ⟨v.set .ww (v.get .ww + 1), ts.set i ⟨Cls.wH1.loc, todo⟩⟩)
      have hposA : 0 < A.wH0 := by rw [hA]; exact hpos
      obtain ⟨hw', he⟩ := sim_move hwf hi _ .wH1 hcls (by decide) ⟨Cls.wH1.loc, todo⟩ rfl (v.set .ww (v.get .ww + 1))
      refine ⟨hw', .wReg, ?_⟩
      rw [he, ← hA]
      have hstep := CStep.wReg A hposA
      have e : moved A .wH0 .wH1 (v.set .ww (v.get .ww + 1)).ar (v.set .ww (v.get .ww + 1)).ww (waNat (v.set .ww (v.get .ww + 1))) = { A with wH0 := A.wH0 - 1, wH1 := A.wH1 + 1, ww := A.ww + 1 } := by
        simp [moved, hA, abs, waNat, Vars.set, Vars.get] <;> (by_cases hw : v.wa = true <;> simp [hw])
      rw [e]; exact hstep
    | wH1 =>
      simp only [Cls.loc] at h
      split at h
      · rename_i hev
        cases h
        have hg := (cW_eval v).mp hev
        show WF ⟨v, ts.set i ⟨Cls.wS.loc, todo⟩⟩ ∧ ∃ l, CStep l (abs ⟨v, ts⟩) (abs ⟨v, ts.set i ⟨Cls.wS.loc, todo⟩⟩)
        have hposA : 0 < A.wH1 := by rw [hA]; exact hpos
        obtain ⟨hw', he⟩ := sim_move hwf hi _ .wS hcls (by decide) ⟨Cls.wS.loc, todo⟩ rfl (v)
        refine ⟨hw', .wWait, ?_⟩
        rw [he, ← hA]
        have hstep := CStep.wWait A hposA (by simpa [hA, abs, waNat] using hg)
        have e : moved A .wH1 .wS (v).ar (v).ww (waNat (v)) = { A with wH1 := A.wH1 - 1, wS := A.wS + 1 } := by
          simp [moved, hA, abs, waNat, Vars.set, Vars.get] <;> (by_cases hw : v.wa = true <;> simp [hw])
        rw [e]; exact hstep
      · rename_i hev
        cases h
        have hg : ¬ _ := fun hh => hev ((cW_eval v).mpr hh)
        show WF ⟨v, ts.set i ⟨Cls.wH2.loc, todo⟩⟩ ∧ ∃ l, CStep l (abs ⟨v, ts⟩) (abs ⟨v, ts.set i ⟨Cls.wH2.loc, todo⟩⟩)
        have hposA : 0 < A.wH1 := by rw [hA]; exact hpos
        obtain ⟨hw', he⟩ := sim_move hwf hi _ .wH2 hcls (by decide) ⟨Cls.wH2.loc, todo⟩ rfl (v)
        refine ⟨hw', .wPass, ?_⟩
        rw [he, ← hA]
        have hstep := CStep.wPass A hposA (by simpa [hA, abs, waNat] using hg)
        have e : moved A .wH1 .wH2 (v).ar (v).ww (waNat (v)) = { A with wH1 := A.wH1 - 1, wH2 := A.wH2 + 1 } := by
          simp [moved, hA, abs, waNat, Vars.set, Vars.get] <;> (by_cases hw : v.wa = true <;> simp [hw])
        rw [e]; exact hstep
    | wS =>
      simp only [Cls.loc] at h
      cases h
    | wN =>
      simp only [Cls.loc] at h
      split at h
      · rename_i hfree
        cases h
        show WF ⟨v, ts.set i ⟨Cls.wH1.loc, todo⟩⟩ ∧ ∃ l, CStep l (abs ⟨v, ts⟩) (abs ⟨v, ts.set i ⟨Cls.wH1.loc, todo⟩⟩)
        have hposA : 0 < A.wN := by rw [hA]; exact hpos
        obtain ⟨hw', he⟩ := sim_move hwf hi _ .wH1 hcls (by decide) ⟨Cls.wH1.loc, todo⟩ rfl (v)
        refine ⟨hw', .wRelock, ?_⟩
        rw [he, ← hA]
        have hstep := CStep.wRelock A hposA (by rw [hA]; exact holders_zero ⟨v, ts⟩ hfree)
        have e : moved A .wN .wH1 (v).ar (v).ww (waNat (v)) = { A with wN := A.wN - 1, wH1 := A.wH1 + 1 } := by
          simp [moved, hA, abs, waNat, Vars.set, Vars.get] <;> (by_cases hw : v.wa = true <;> simp [hw])
        rw [e]; exact hstep
      · cases h
    | wH2 =>
      simp only [Cls.loc] at h
      cases h
      show WF ⟨v.set .ww (v.get .ww - 1), ts.set i ⟨Cls.wH3.loc, todo⟩⟩ ∧ ∃ l, CStep l (abs ⟨v, ts⟩) (abs ⟨v.set .ww (v.get .ww - 1), ts.set i ⟨Cls.wH3.loc, todo⟩⟩)
      have hposA : 0 < A.wH2 := by rw [hA]; exact hpos
      obtain ⟨hw', he⟩ := sim_move hwf hi _ .wH3 hcls (by decide) ⟨Cls.wH3.loc, todo⟩ rfl (v.set .ww (v.get .ww - 1))
      refine ⟨hw', .wDec, ?_⟩
      rw [he, ← hA]
      have hstep := CStep.wDec A hposA
      have e : moved A .wH2 .wH3 (v.set .ww (v.get .ww - 1)).ar (v.set .ww (v.get .ww - 1)).ww (waNat (v.set .ww (v.get .ww - 1))) = { A with wH2 := A.wH2 - 1, wH3 := A.wH3 + 1, ww := A.ww - 1 } := by
        simp [moved, hA, abs, waNat, Vars.set, Vars.get] <;> (by_cases hw : v.wa = true <;> simp [hw])
      rw [e]; exact hstep
    | wH3 =>
      simp only [Cls.loc] at h
      cases h
      show WF ⟨{ v with wa := true }, ts.set i ⟨Cls.wH4.loc, todo⟩⟩ ∧ ∃ l, CStep l (abs ⟨v, ts⟩) (abs ⟨{ v with wa := true }, ts.set i ⟨Cls.wH4.loc, todo⟩⟩)
      have hposA : 0 < A.wH3 := by rw [hA]; exact hpos
      obtain ⟨hw', he⟩ := sim_move hwf hi _ .wH4 hcls (by decide) ⟨Cls.wH4.loc, todo⟩ rfl ({ v with wa := true })
      refine ⟨hw', .wSet, ?_⟩
      rw [he, ← hA]
      have hstep := CStep.wSet A hposA
      have e : moved A .wH3 .wH4 ({ v with wa := true }).ar ({ v with wa := true }).ww (waNat ({ v with wa := true })) = { A with wH3 := A.wH3 - 1, wH4 := A.wH4 + 1, wa := 1 } := by
        simp [moved, hA, abs, waNat, Vars.set, Vars.get] <;> (by_cases hw : v.wa = true <;> simp [hw])
      rw [e]; exact hstep
    | wH4 =>
      simp only [Cls.loc] at h
      cases h
      show WF ⟨v, ts.set i ⟨Cls.wIn.loc, todo⟩⟩ ∧ ∃ l, CStep l (abs ⟨v, ts⟩) (abs ⟨v, ts.set i ⟨Cls.wIn.loc, todo⟩⟩)
      have hposA : 0 < A.wH4 := by rw [hA]; exact hpos
      obtain ⟨hw', he⟩ := sim_move hwf hi _ .wIn hcls (by decide) ⟨Cls.wIn.loc, todo⟩ rfl (v)
      refine ⟨hw', .wUnlock, ?_⟩
      rw [he, ← hA]
      have hstep := CStep.wUnlock A hposA
      have e : moved A .wH4 .wIn (v).ar (v).ww (waNat (v)) = { A with wH4 := A.wH4 - 1, wIn := A.wIn + 1 } := by
        simp [moved, hA, abs, waNat, Vars.set, Vars.get] <;> (by_cases hw : v.wa = true <;> simp [hw])
      rw [e]; exact hstep
    | wIn =>
      simp only [Cls.loc] at h
      cases h
      show WF ⟨v, ts.set i ⟨Cls.wrW.loc, todo⟩⟩ ∧ ∃ l, CStep l (abs ⟨v, ts⟩) (abs ⟨v, ts.set i ⟨Cls.wrW.loc, todo⟩⟩)
      have hposA : 0 < A.wIn := by rw [hA]; exact hpos
      obtain ⟨hw', he⟩ := sim_move hwf hi _ .wrW hcls (by decide) ⟨Cls.wrW.loc, todo⟩ rfl (v)
      refine ⟨hw', .wrStart, ?_⟩
      rw [he, ← hA]
      have hstep := CStep.wrStart A hposA
      have e : moved A .wIn .wrW (v).ar (v).ww (waNat (v)) = { A with wIn := A.wIn - 1, wrW := A.wrW + 1 } := by
        simp [moved, hA, abs, waNat, Vars.set, Vars.get] <;> (by_cases hw : v.wa = true <;> simp [hw])
      rw [e]; exact hstep
    | wrW =>
      simp only [Cls.loc] at h
      split at h
      · rename_i hfree
        cases h
        show WF ⟨v, ts.set i ⟨Cls.wrH0.loc, todo⟩⟩ ∧ ∃ l, CStep l (abs ⟨v, ts⟩) (abs ⟨v, ts.set i ⟨Cls.wrH0.loc, todo⟩⟩)
        have hposA : 0 < A.wrW := by rw [hA]; exact hpos
        obtain ⟨hw', he⟩ := sim_move hwf hi _ .wrH0 hcls (by decide) ⟨Cls.wrH0.loc, todo⟩ rfl (v)
        refine ⟨hw', .wrLock, ?_⟩
        rw [he, ← hA]
        have hstep := CStep.wrLock A hposA (by rw [hA]; exact holders_zero ⟨v, ts⟩ hfree)
        have e : moved A .wrW .wrH0 (v).ar (v).ww (waNat (v)) = { A with wrW := A.wrW - 1, wrH0 := A.wrH0 + 1 } := by
          simp [moved, hA, abs, waNat, Vars.set, Vars.get] <;> (by_cases hw : v.wa = true <;> simp [hw])
        rw [e]; exact hstep
      · cases h
    | wrH0 =>
      simp only [Cls.loc] at h
      cases h
      show WF ⟨{ v with wa := false }, ts.set i ⟨Cls.wrH1.loc, todo⟩⟩ ∧ ∃ l, CStep l (abs ⟨v, ts⟩) (abs ⟨{ v with wa := false }, ts.set i ⟨Cls.wrH1.loc, todo⟩⟩)
      have hposA : 0 < A.wrH0 := by rw [hA]; exact hpos
      obtain ⟨hw', he⟩ := sim_move hwf hi _ .wrH1 hcls (by decide) ⟨Cls.wrH1.loc, todo⟩ rfl ({ v with wa := false })
      refine ⟨hw', .wrClear, ?_⟩
      rw [he, ← hA]
      have hstep := CStep.wrClear A hposA
      have e : moved A .wrH0 .wrH1 ({ v with wa := false }).ar ({ v with wa := false }).ww (waNat ({ v with wa := false })) = { A with wrH0 := A.wrH0 - 1, wrH1 := A.wrH1 + 1, wa := 0 } := by
        simp [moved, hA, abs, waNat, Vars.set, Vars.get] <;> (by_cases hw : v.wa = true <;> simp [hw])
      rw [e]; exact hstep
    | rrH2 =>
      simp only [Cls.loc] at h
      cases h
      show WF ⟨v, ts.set i ⟨Cls.idle.loc, todo⟩⟩ ∧ ∃ l, CStep l (abs ⟨v, ts⟩) (abs ⟨v, ts.set i ⟨Cls.idle.loc, todo⟩⟩)
      have hposA : 0 < A.rrH2 := by rw [hA]; exact hpos
      obtain ⟨hw', he⟩ := sim_move hwf hi _ .idle hcls (by decide) ⟨Cls.idle.loc, todo⟩ rfl (v)
      refine ⟨hw', .rrUnlock, ?_⟩
      rw [he, ← hA]
      have hstep := CStep.rrUnlock A hposA
      have e : moved A .rrH2 .idle (v).ar (v).ww (waNat (v)) = { A with rrH2 := A.rrH2 - 1, idle := A.idle + 1 } := by
        simp [moved, hA, abs, waNat, Vars.set, Vars.get] <;> (by_cases hw : v.wa = true <;> simp [hw])
      rw [e]; exact hstep
    | wrH2 =>
      simp only [Cls.loc] at h
      cases h
      show WF ⟨v, ts.set i ⟨Cls.idle.loc, todo⟩⟩ ∧ ∃ l, CStep l (abs ⟨v, ts⟩) (abs ⟨v, ts.set i ⟨Cls.idle.loc, todo⟩⟩)
      have hposA : 0 < A.wrH2 := by rw [hA]; exact hpos
      obtain ⟨hw', he⟩ := sim_move hwf hi _ .idle hcls (by decide) ⟨Cls.idle.loc, todo⟩ rfl (v)
      refine ⟨hw', .wrUnlock, ?_⟩
      rw [he, ← hA]
      have hstep := CStep.wrUnlock A hposA
      have e : moved A .wrH2 .idle (v).ar (v).ww (waNat (v)) = { A with wrH2 := A.wrH2 - 1, idle := A.idle + 1 } := by
        simp [moved, hA, abs, waNat, Vars.set, Vars.get] <;> (by_cases hw : v.wa = true <;> simp [hw])
      rw [e]; exact hstep

    | idle =>
      simp only [Cls.loc] at h
      cases todo with
      | nil => cases h
      | cons r todo' =>
        simp only [] at h
        cases h
        cases r with
        | reader =>
          show WF ⟨v, ts.set i ⟨Cls.rW.loc, todo'⟩⟩ ∧ ∃ l, CStep l (abs ⟨v, ts⟩) (abs ⟨v, ts.set i ⟨Cls.rW.loc, todo'⟩⟩)
          have hposA : 0 < A.idle := by rw [hA]; exact hpos
          obtain ⟨hw', he⟩ := sim_move hwf hi _ .rW hcls (by decide) ⟨Cls.rW.loc, todo'⟩ rfl v
          refine ⟨hw', .rStart, ?_⟩
          rw [he, ← hA]
          have hstep := CStep.rStart A hposA
          have e : moved A .idle .rW v.ar v.ww (waNat v) = { A with idle := A.idle - 1, rW := A.rW + 1 } := by
            simp [moved, hA, abs, waNat] <;> (by_cases hw : v.wa = true <;> simp [hw])
          rw [e]; exact hstep
        | writer =>
          show WF ⟨v, ts.set i ⟨Cls.wW.loc, todo'⟩⟩ ∧ ∃ l, CStep l (abs ⟨v, ts⟩) (abs ⟨v, ts.set i ⟨Cls.wW.loc, todo'⟩⟩)
          have hposA : 0 < A.idle := by rw [hA]; exact hpos
          obtain ⟨hw', he⟩ := sim_move hwf hi _ .wW hcls (by decide) ⟨Cls.wW.loc, todo'⟩ rfl v
          refine ⟨hw', .wStart, ?_⟩
          rw [he, ← hA]
          have hstep := CStep.wStart A hposA
          have e : moved A .idle .wW v.ar v.ww (waNat v) = { A with idle := A.idle - 1, wW := A.wW + 1 } := by
            simp [moved, hA, abs, waNat] <;> (by_cases hw : v.wa = true <;> simp [hw])
          rw [e]; exact hstep
    | rrH1 =>
      simp only [Cls.loc] at h
      cases h
      by_cases hz : v.ar = 0
      · have hev : (Cond.isZero Var.ar).eval v = true := by simp [Cond.eval, Vars.get, hz]
        rw [hev]
        show WF ⟨v, ts.set i ⟨Cls.rrH1n.loc, todo⟩⟩ ∧ ∃ l, CStep l (abs ⟨v, ts⟩) (abs ⟨v, ts.set i ⟨Cls.rrH1n.loc, todo⟩⟩)
        have hposA : 0 < A.rrH1 := by rw [hA]; exact hpos
        obtain ⟨hw', he⟩ := sim_move hwf hi _ .rrH1n hcls (by decide) ⟨Cls.rrH1n.loc, todo⟩ rfl v
        refine ⟨hw', .rrIfT, ?_⟩
        rw [he, ← hA]
        have hstep := CStep.rrIfT A hposA (by rw [hA]; exact hz)
        have e : moved A .rrH1 .rrH1n v.ar v.ww (waNat v) = { A with rrH1 := A.rrH1 - 1, rrH1n := A.rrH1n + 1 } := by
          simp [moved, hA, abs, waNat] <;> (by_cases hw : v.wa = true <;> simp [hw])
        rw [e]; exact hstep
      · have hev : (Cond.isZero Var.ar).eval v = false := by simp [Cond.eval, Vars.get, hz]
        rw [hev]
        show WF ⟨v, ts.set i ⟨Cls.rrH2.loc, todo⟩⟩ ∧ ∃ l, CStep l (abs ⟨v, ts⟩) (abs ⟨v, ts.set i ⟨Cls.rrH2.loc, todo⟩⟩)
        have hposA : 0 < A.rrH1 := by rw [hA]; exact hpos
        obtain ⟨hw', he⟩ := sim_move hwf hi _ .rrH2 hcls (by decide) ⟨Cls.rrH2.loc, todo⟩ rfl v
        refine ⟨hw', .rrIfF, ?_⟩
        rw [he, ← hA]
        have hstep := CStep.rrIfF A hposA (by rw [hA]; exact hz)
        have e : moved A .rrH1 .rrH2 v.ar v.ww (waNat v) = { A with rrH1 := A.rrH1 - 1, rrH2 := A.rrH2 + 1 } := by
          simp [moved, hA, abs, waNat] <;> (by_cases hw : v.wa = true <;> simp [hw])
        rw [e]; exact hstep
    | rrH1n =>
      simp only [Cls.loc] at h
      cases h
      show WF ⟨v, (ts.map wake).set i ⟨Cls.rrH2.loc, todo⟩⟩ ∧ ∃ l, CStep l (abs ⟨v, ts⟩) (abs ⟨v, (ts.map wake).set i ⟨Cls.rrH2.loc, todo⟩⟩)
      have hposA : 0 < A.rrH1n := by rw [hA]; exact hpos
      have hi' : i < (ts.map wake).length := by simpa using hi
      have hcls' : clsOf (ts.map wake)[i].loc = .rrH1n := by
        rw [List.getElem_map, clsOf_wake _ (by rw [hcls]; decide), hcls]; rfl
      obtain ⟨hw', he⟩ := sim_move (wf_wake hwf) hi' _ .rrH2 hcls' (by decide) ⟨Cls.rrH2.loc, todo⟩ rfl v
      refine ⟨hw', .rrNotify, ?_⟩
      rw [he, abs_wake ⟨v, ts⟩ hwf, ← hA]
      have hstep := CStep.rrNotify A hposA
      have e : moved A.wakeAll .rrH1n .rrH2 v.ar v.ww (waNat v) =
          { A with rrH1n := A.rrH1n - 1, rrH2 := A.rrH2 + 1, rN := A.rN + A.rS, rS := 0, wN := A.wN + A.wS, wS := 0 } := by
        simp [moved, CS.wakeAll, hA, abs, waNat] <;> (by_cases hw : v.wa = true <;> simp [hw])
      rw [e]; exact hstep
    | wrH1 =>
      simp only [Cls.loc] at h
      cases h
      show WF ⟨v, (ts.map wake).set i ⟨Cls.wrH2.loc, todo⟩⟩ ∧ ∃ l, CStep l (abs ⟨v, ts⟩) (abs ⟨v, (ts.map wake).set i ⟨Cls.wrH2.loc, todo⟩⟩)
      have hposA : 0 < A.wrH1 := by rw [hA]; exact hpos
      have hi' : i < (ts.map wake).length := by simpa using hi
      have hcls' : clsOf (ts.map wake)[i].loc = .wrH1 := by
        rw [List.getElem_map, clsOf_wake _ (by rw [hcls]; decide), hcls]; rfl
      obtain ⟨hw', he⟩ := sim_move (wf_wake hwf) hi' _ .wrH2 hcls' (by decide) ⟨Cls.wrH2.loc, todo⟩ rfl v
      refine ⟨hw', .wrNotify, ?_⟩
      rw [he, abs_wake ⟨v, ts⟩ hwf, ← hA]
      have hstep := CStep.wrNotify A hposA
      have e : moved A.wakeAll .wrH1 .wrH2 v.ar v.ww (waNat v) =
          { A with wrH1 := A.wrH1 - 1, wrH2 := A.wrH2 + 1, rN := A.rN + A.rS, rS := 0, wN := A.wN + A.wS, wS := 0 } := by
        simp [moved, CS.wakeAll, hA, abs, waNat] <;> (by_cases hw : v.wa = true <;> simp [hw])
      rw [e]; exact hstep


theorem sim_spurious {s s' : Sys} {i : Nat} (hwf : WF s) (h : spurious s i = some s') :
    WF s' ∧ ∃ l, CStep l (abs s) (abs s') := by
  unfold spurious at h
  cases hget : s.ts[i]? with
  | none => simp [hget] at h
  | some t =>
    obtain ⟨hi, hti⟩ := List.getElem?_eq_some_iff.mp hget
    have hb := hwf t (hti ▸ List.getElem_mem hi)
    have hloc := loc_of_cls (rfl : clsOf t.loc = clsOf t.loc) hb
    have hcls : clsOf s.ts[i].loc = clsOf t.loc := by rw [hti]
    have hpos := cnt_pos (clsOf t.loc) s.ts i hi hcls
    simp only [hget] at h
    generalize hc : clsOf t.loc = c at hloc hb hcls hpos
    obtain ⟨v, ts⟩ := s
    obtain ⟨tl, todo⟩ := t
    simp only at hloc hi hti hpos hcls h hget
    subst hloc
    obtain ⟨A, hA⟩ : ∃ A, A = abs ⟨v, ts⟩ := ⟨_, rfl⟩
    cases c with
    | rS =>
      simp only [Cls.loc] at h
      cases h
      show WF ⟨v, ts.set i ⟨Cls.rN.loc, todo⟩⟩ ∧ ∃ l, CStep l (abs ⟨v, ts⟩) (abs ⟨v, ts.set i ⟨Cls.rN.loc, todo⟩⟩)
      have hposA : 0 < A.rS := by rw [hA]; exact hpos
      obtain ⟨hw', he⟩ := sim_move hwf hi _ .rN hcls (by decide) ⟨Cls.rN.loc, todo⟩ rfl v
      refine ⟨hw', .rSpur, ?_⟩
      rw [he, ← hA]
      have hstep := CStep.rSpur A hposA
      have e : moved A .rS .rN v.ar v.ww (waNat v) = { A with rS := A.rS - 1, rN := A.rN + 1 } := by
        simp [moved, hA, abs, waNat] <;> (by_cases hw : v.wa = true <;> simp [hw])
      rw [e]; exact hstep
    | wS =>
      simp only [Cls.loc] at h
      cases h
      show WF ⟨v, ts.set i ⟨Cls.wN.loc, todo⟩⟩ ∧ ∃ l, CStep l (abs ⟨v, ts⟩) (abs ⟨v, ts.set i ⟨Cls.wN.loc, todo⟩⟩)
      have hposA : 0 < A.wS := by rw [hA]; exact hpos
      obtain ⟨hw', he⟩ := sim_move hwf hi _ .wN hcls (by decide) ⟨Cls.wN.loc, todo⟩ rfl v
      refine ⟨hw', .wSpur, ?_⟩
      rw [he, ← hA]
      have hstep := CStep.wSpur A hposA
      have e : moved A .wS .wN v.ar v.ww (waNat v) = { A with wS := A.wS - 1, wN := A.wN + 1 } := by
        simp [moved, hA, abs, waNat] <;> (by_cases hw : v.wa = true <;> simp [hw])
      rw [e]; exact hstep
    | bad => exact absurd rfl hb
    | _ => simp only [Cls.loc] at h <;> cases h

/-! ## The interpreter's own transition system and the transfer of the theorems -/

/-- one step of the interpreter on the expected program: a step of some thread, or a spurious wake-up -/
def IStep (s s' : Sys) : Prop := ∃ i, step expected s i = some s' ∨ spurious s i = some s'

inductive IReach (scripts : List (List Role)) : Sys → Prop
  | init : IReach scripts (expected.init scripts)
  | step {s s' : Sys} : IReach scripts s → IStep s s' → IReach scripts s'

theorem cnt_init (c : Cls) (scripts : List (List Role)) :
    cnt c (scripts.map fun sc => ({ loc := .idle, todo := sc } : Thread)) = if c = .idle then scripts.length else 0 := by
  induction scripts with
  | nil => simp [cnt]
  | cons a as ih =>
    simp only [List.map_cons, cnt, List.countP_cons] at ih ⊢
    rw [ih]
    have : clsOf Loc.idle = .idle := rfl
    simp only [this]
    cases c <;> simp <;> omega

theorem abs_init (scripts : List (List Role)) : abs (expected.init scripts) = cinit scripts.length := by
  simp [abs, Prog.init, cinit, expected, cnt_init]

theorem wf_init (scripts : List (List Role)) : WF (expected.init scripts) := by
  intro t ht
  simp only [Prog.init, List.mem_map] at ht
  obtain ⟨sc, _, rfl⟩ := ht
  show clsOf Loc.idle ≠ Cls.bad
  decide

theorem sim_istep {s s' : Sys} (hwf : WF s) (h : IStep s s') : WF s' ∧ ∃ l, CStep l (abs s) (abs s') := by
  obtain ⟨i, h | h⟩ := h
  · exact sim_step hwf h
  · exact sim_spurious hwf h

/-- every state the interpreter reaches is well-formed and its abstraction is reachable in the counter system -/
theorem interp_reach {scripts : List (List Role)} {s : Sys} (r : IReach scripts s) :
    WF s ∧ Reach scripts.length (abs s) := by
  induction r with
  | init => exact ⟨wf_init scripts, abs_init scripts ▸ Reach.init⟩
  | step _ st ih =>
    obtain ⟨hw, l, hc⟩ := sim_istep ih.1 st
    exact ⟨hw, Reach.step ih.2 hc⟩

theorem nInside_reader (s : Sys) : nInside .reader s = (abs s).rIn := by
  simp only [nInside, abs, cnt]
  apply List.countP_congr
  intro t _
  have : ∀ l : Loc, (l == Loc.inside Role.reader) = (clsOf l == Cls.rIn) := by
    intro l
    by_cases h : l = Loc.inside Role.reader
    · subst h; rfl
    · have h1 : (l == Loc.inside Role.reader) = false := by simpa using h
      have h2 : (clsOf l == Cls.rIn) = false := by
        simp only [beq_eq_false_iff_ne]
        intro hc
        exact h (loc_of_cls hc (by decide))
      rw [h1, h2]
  simp [this]

theorem nInside_writer (s : Sys) : nInside .writer s = (abs s).wIn := by
  simp only [nInside, abs, cnt]
  apply List.countP_congr
  intro t _
  have : ∀ l : Loc, (l == Loc.inside Role.writer) = (clsOf l == Cls.wIn) := by
    intro l
    by_cases h : l = Loc.inside Role.writer
    · subst h; rfl
    · have h1 : (l == Loc.inside Role.writer) = false := by simpa using h
      have h2 : (clsOf l == Cls.wIn) = false := by
        simp only [beq_eq_false_iff_ne]
        intro hc
        exact h (loc_of_cls hc (by decide))
      rw [h1, h2]
  simp [this]


theorem waiting_pos {s : Sys} (hwf : WF s) (h : writerWaiting s = true) : 0 < (abs s).wS + (abs s).wN := by
  simp only [writerWaiting, List.any_eq_true] at h
  obtain ⟨t, ht, hm⟩ := h
  have hb := hwf t ht
  have hl := loc_of_cls rfl hb
  generalize hc : clsOf t.loc = c at hl hb
  have hcase : c = .wS ∨ c = .wN := by
    rw [hl] at hm
    cases c <;> simp_all [Cls.loc]
  have hp : 0 < cnt c s.ts := List.countP_pos_iff.mpr ⟨t, ht, by simp [hc]⟩
  show 0 < cnt .wS s.ts + cnt .wN s.ts
  rcases hcase with rfl | rfl <;> omega

/-! ### deadlock freedom of the interpreter -/

/-- a thread at a program point other than "finished" or "asleep" can take a step, provided the mutex is free when it
    is contending for it -/
theorem step_isSome {s : Sys} {i : Nat} (hi : i < s.ts.length) (c : Cls) (hl : s.ts[i].loc = c.loc) (hb : c ≠ .bad)
    (hs : c ≠ .rS ∧ c ≠ .wS) (hidle : c = .idle → s.ts[i].todo ≠ [])
    (hfree : c.loc.holds = true ∨ mutexFree s.ts = true) : (step expected s i).isSome = true := by
  unfold step
  rw [List.getElem?_eq_getElem hi]
  simp only
  generalize s.ts[i] = t at hl hidle
  obtain ⟨tl, todo⟩ := t
  simp only at hl hidle
  subst hl
  cases todo with
  | nil =>
    cases c <;> simp_all [Cls.loc, Loc.holds]
    all_goals (split <;> simp)
  | cons r rest =>
    cases c <;> simp_all [Cls.loc, Loc.holds]
    all_goals (split <;> simp)


end Casbin.C16
