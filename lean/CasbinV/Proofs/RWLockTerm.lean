import CasbinV.Proofs.RWLockSim
/-!
# Termination of finite thread programs on the readers-writer lock (helper of C16)

Measure `mu s = (R, L)`, ordered lexicographically: `R` = number of rounds not yet past their `notify_all` point
(remaining script entries + rounds in progress), `L` = sum of the threads' local distances to the end of their script.
A `notify_all` step lowers `R` (and may raise `L`, by waking sleepers); every other step of a thread leaves `R` of the
other threads alone, does not raise its own, and lowers `L`. Spurious wake-ups are excluded (with them a sleeper may
spin for ever, as for any condition variable).
-/
set_option linter.unusedSimpArgs false
namespace Casbin.C16
open Casbin.RW

/-- is the thread inside a round that has not yet passed its `notify_all` point? (`.exec _ true .hold []` = about to
    release the mutex at the end of a release method) -/
def inRound : Loc → Nat
  | .idle => 0
  | .exec _ true .hold [] => 0
  | _ => 1

def wgt (t : Thread) : Nat := t.todo.length + inRound t.loc

/-- local distance of a program point to the end of its round -/
def pos : Cls → Nat
  | .idle => 0
  | .rW => 20 | .rN => 19 | .rH0 => 18 | .rS => 17 | .rH1 => 16 | .rH2 => 15 | .rIn => 14
  | .rrW => 13 | .rrH0 => 12 | .rrH1 => 11 | .rrH1n => 10 | .rrH2 => 9
  | .wW => 24 | .wH0 => 23 | .wN => 22 | .wH1 => 21 | .wS => 20 | .wH2 => 19 | .wH3 => 18 | .wH4 => 17 | .wIn => 16
  | .wrW => 15 | .wrH0 => 14 | .wrH1 => 13 | .wrH2 => 12
  | .bad => 0

def dist (t : Thread) : Nat := 30 * t.todo.length + pos (clsOf t.loc)

def mu (s : Sys) : Nat × Nat := ((s.ts.map wgt).sum, (s.ts.map dist).sum)

def lexLt (a b : Nat × Nat) : Prop := a.1 < b.1 ∨ (a.1 = b.1 ∧ a.2 < b.2)

theorem sum_map_set {α : Type} (f : α → Nat) (l : List α) (i : Nat) (a : α) (hi : i < l.length) :
    ((l.set i a).map f).sum + f l[i] = (l.map f).sum + f a := by
  induction l generalizing i with
  | nil => simp at hi
  | cons x xs ih =>
    cases i with
    | zero => simp; omega
    | succ j =>
      simp only [List.length_cons, Nat.add_lt_add_iff_right] at hi
      have := ih j hi
      simp only [List.set_cons_succ, List.map_cons, List.sum_cons, List.getElem_cons_succ]
      omega

theorem wgt_wake (t : Thread) : wgt (wake t) = wgt t := by
  obtain ⟨l, td⟩ := t
  unfold wake wgt
  cases l with
  | idle => rfl
  | inside r => rfl
  | exec r lv ph rest => cases ph <;> cases lv <;> cases rest <;> rfl

theorem sum_wgt_wake (ts : List Thread) : ((ts.map wake).map wgt).sum = (ts.map wgt).sum := by
  induction ts with
  | nil => rfl
  | cons t ts ih =>
    simp only [List.map_cons, List.sum_cons, wgt_wake]
    rw [ih]

/-- a step that only changes thread `i`, does not raise its weight and lowers its distance -/
theorem mu_move {v v' : Vars} {ts : List Thread} {i : Nat} (hi : i < ts.length) (t' : Thread)
    (hw : wgt t' ≤ wgt ts[i]) (hd : dist t' < dist ts[i]) : lexLt (mu ⟨v', ts.set i t'⟩) (mu ⟨v, ts⟩) := by
  have h1 := sum_map_set wgt ts i t' hi
  have h2 := sum_map_set dist ts i t' hi
  simp only [lexLt, mu]
  omega

/-- a `notify_all` step: the notifier passes its notify point -/
theorem mu_notify {v v' : Vars} {ts : List Thread} {i : Nat} (hi : i < ts.length) (t' : Thread)
    (hw : wgt t' < wgt ts[i]) : lexLt (mu ⟨v', (ts.map wake).set i t'⟩) (mu ⟨v, ts⟩) := by
  have hi' : i < (ts.map wake).length := by simpa using hi
  have h1 := sum_map_set wgt (ts.map wake) i t' hi'
  rw [sum_wgt_wake, List.getElem_map, wgt_wake] at h1
  simp only [lexLt, mu]
  omega

/-- every (non-spurious) step of the interpreter on the expected program lowers the measure -/
theorem step_decreases {s s' : Sys} {i : Nat} (hwf : WF s) (h : step expected s i = some s') : lexLt (mu s') (mu s) := by
  unfold step at h
  cases hget : s.ts[i]? with
  | none => simp [hget] at h
  | some t =>
    obtain ⟨hi, hti⟩ := List.getElem?_eq_some_iff.mp hget
    have hb := hwf t (hti ▸ List.getElem_mem hi)
    have hloc := loc_of_cls (rfl : clsOf t.loc = clsOf t.loc) hb
    simp only [hget] at h
    generalize hc : clsOf t.loc = c at hloc hb
    obtain ⟨v, ts⟩ := s
    obtain ⟨tl, todo⟩ := t
    simp only at hloc hi hti h hget
    subst hloc
    cases c with
    | bad => exact absurd rfl hb
    | rW =>
      simp only [Cls.loc] at h
      split at h
      · cases h
        show lexLt (mu ⟨v, ts.set i ⟨Cls.rH0.loc, todo⟩⟩) (mu ⟨v, ts⟩)
        refine mu_move hi _ ?_ ?_ <;> rw [hti]
        · simp [wgt, inRound, Cls.loc]
        · simp only [dist, show clsOf Cls.rH0.loc = Cls.rH0 from rfl, show clsOf Cls.rW.loc = Cls.rW from rfl, pos, List.length_cons]; omega
      · cases h
    | rN =>
      simp only [Cls.loc] at h
      split at h
      · cases h
        show lexLt (mu ⟨v, ts.set i ⟨Cls.rH0.loc, todo⟩⟩) (mu ⟨v, ts⟩)
        refine mu_move hi _ ?_ ?_ <;> rw [hti]
        · simp [wgt, inRound, Cls.loc]
        · simp only [dist, show clsOf Cls.rH0.loc = Cls.rH0 from rfl, show clsOf Cls.rN.loc = Cls.rN from rfl, pos, List.length_cons]; omega
      · cases h
    | rH0 =>
      simp only [Cls.loc] at h
      split at h
      · cases h
        show lexLt (mu ⟨v, ts.set i ⟨Cls.rS.loc, todo⟩⟩) (mu ⟨v, ts⟩)
        refine mu_move hi _ ?_ ?_ <;> rw [hti]
        · simp [wgt, inRound, Cls.loc]
        · simp only [dist, show clsOf Cls.rS.loc = Cls.rS from rfl, show clsOf Cls.rH0.loc = Cls.rH0 from rfl, pos, List.length_cons]; omega
      · cases h
        show lexLt (mu ⟨v, ts.set i ⟨Cls.rH1.loc, todo⟩⟩) (mu ⟨v, ts⟩)
        refine mu_move hi _ ?_ ?_ <;> rw [hti]
        · simp [wgt, inRound, Cls.loc]
        · simp only [dist, show clsOf Cls.rH1.loc = Cls.rH1 from rfl, show clsOf Cls.rH0.loc = Cls.rH0 from rfl, pos, List.length_cons]; omega
    | rS =>
      simp only [Cls.loc] at h
      cases h
    | rH1 =>
      simp only [Cls.loc] at h
      cases h
      show lexLt (mu ⟨v.set .ar (v.get .ar + 1), ts.set i ⟨Cls.rH2.loc, todo⟩⟩) (mu ⟨v, ts⟩)
      refine mu_move hi _ ?_ ?_ <;> rw [hti]
      · simp [wgt, inRound, Cls.loc]
      · simp only [dist, show clsOf Cls.rH2.loc = Cls.rH2 from rfl, show clsOf Cls.rH1.loc = Cls.rH1 from rfl, pos, List.length_cons]; omega
    | rH2 =>
      simp only [Cls.loc] at h
      cases h
      show lexLt (mu ⟨v, ts.set i ⟨Cls.rIn.loc, todo⟩⟩) (mu ⟨v, ts⟩)
      refine mu_move hi _ ?_ ?_ <;> rw [hti]
      · simp [wgt, inRound, Cls.loc]
      · simp only [dist, show clsOf Cls.rIn.loc = Cls.rIn from rfl, show clsOf Cls.rH2.loc = Cls.rH2 from rfl, pos, List.length_cons]; omega
    | rIn =>
      simp only [Cls.loc] at h
      cases h
      show lexLt (mu ⟨v, ts.set i ⟨Cls.rrW.loc, todo⟩⟩) (mu ⟨v, ts⟩)
      refine mu_move hi _ ?_ ?_ <;> rw [hti]
      · simp [wgt, inRound, Cls.loc]
      · simp only [dist, show clsOf Cls.rrW.loc = Cls.rrW from rfl, show clsOf Cls.rIn.loc = Cls.rIn from rfl, pos, List.length_cons]; omega
    | rrW =>
      simp only [Cls.loc] at h
      split at h
      · cases h
        show lexLt (mu ⟨v, ts.set i ⟨Cls.rrH0.loc, todo⟩⟩) (mu ⟨v, ts⟩)
        refine mu_move hi _ ?_ ?_ <;> rw [hti]
        · simp [wgt, inRound, Cls.loc]
        · simp only [dist, show clsOf Cls.rrH0.loc = Cls.rrH0 from rfl, show clsOf Cls.rrW.loc = Cls.rrW from rfl, pos, List.length_cons]; omega
      · cases h
    | rrH0 =>
      simp only [Cls.loc] at h
      cases h
      show lexLt (mu ⟨v.set .ar (v.get .ar - 1), ts.set i ⟨Cls.rrH1.loc, todo⟩⟩) (mu ⟨v, ts⟩)
      refine mu_move hi _ ?_ ?_ <;> rw [hti]
      · simp [wgt, inRound, Cls.loc]
      · simp only [dist, show clsOf Cls.rrH1.loc = Cls.rrH1 from rfl, show clsOf Cls.rrH0.loc = Cls.rrH0 from rfl, pos, List.length_cons]; omega
    | rrH1n =>
      simp only [Cls.loc] at h
      cases h
      show lexLt (mu ⟨v, (ts.map wake).set i ⟨Cls.rrH2.loc, todo⟩⟩) (mu ⟨v, ts⟩)
      refine mu_notify hi _ ?_
      rw [hti]
      simp [wgt, inRound, Cls.loc]
    | rrH2 =>
      simp only [Cls.loc] at h
      cases h
      show lexLt (mu ⟨v, ts.set i ⟨Cls.idle.loc, todo⟩⟩) (mu ⟨v, ts⟩)
      refine mu_move hi _ ?_ ?_ <;> rw [hti]
      · simp [wgt, inRound, Cls.loc]
      · simp only [dist, show clsOf Cls.idle.loc = Cls.idle from rfl, show clsOf Cls.rrH2.loc = Cls.rrH2 from rfl, pos, List.length_cons]; omega
    | wW =>
      simp only [Cls.loc] at h
      split at h
      · cases h
        show lexLt (mu ⟨v, ts.set i ⟨Cls.wH0.loc, todo⟩⟩) (mu ⟨v, ts⟩)
        refine mu_move hi _ ?_ ?_ <;> rw [hti]
        · simp [wgt, inRound, Cls.loc]
        · simp only [dist, show clsOf Cls.wH0.loc = Cls.wH0 from rfl, show clsOf Cls.wW.loc = Cls.wW from rfl, pos, List.length_cons]; omega
      · cases h
    | wH0 =>
      simp only [Cls.loc] at h
      cases h
      show lexLt (mu ⟨v.set .ww (v.get .ww + 1), ts.set i ⟨Cls.wH1.loc, todo⟩⟩) (mu ⟨v, ts⟩)
      refine mu_move hi _ ?_ ?_ <;> rw [hti]
      · simp [wgt, inRound, Cls.loc]
      · simp only [dist, show clsOf Cls.wH1.loc = Cls.wH1 from rfl, show clsOf Cls.wH0.loc = Cls.wH0 from rfl, pos, List.length_cons]; omega
    | wH1 =>
      simp only [Cls.loc] at h
      split at h
      · cases h
        show lexLt (mu ⟨v, ts.set i ⟨Cls.wS.loc, todo⟩⟩) (mu ⟨v, ts⟩)
        refine mu_move hi _ ?_ ?_ <;> rw [hti]
        · simp [wgt, inRound, Cls.loc]
        · simp only [dist, show clsOf Cls.wS.loc = Cls.wS from rfl, show clsOf Cls.wH1.loc = Cls.wH1 from rfl, pos, List.length_cons]; omega
      · cases h
        show lexLt (mu ⟨v, ts.set i ⟨Cls.wH2.loc, todo⟩⟩) (mu ⟨v, ts⟩)
        refine mu_move hi _ ?_ ?_ <;> rw [hti]
        · simp [wgt, inRound, Cls.loc]
        · simp only [dist, show clsOf Cls.wH2.loc = Cls.wH2 from rfl, show clsOf Cls.wH1.loc = Cls.wH1 from rfl, pos, List.length_cons]; omega
    | wS =>
      simp only [Cls.loc] at h
      cases h
    | wN =>
      simp only [Cls.loc] at h
      split at h
      · cases h
        show lexLt (mu ⟨v, ts.set i ⟨Cls.wH1.loc, todo⟩⟩) (mu ⟨v, ts⟩)
        refine mu_move hi _ ?_ ?_ <;> rw [hti]
        · simp [wgt, inRound, Cls.loc]
        · simp only [dist, show clsOf Cls.wH1.loc = Cls.wH1 from rfl, show clsOf Cls.wN.loc = Cls.wN from rfl, pos, List.length_cons]; omega
      · cases h
    | wH2 =>
      simp only [Cls.loc] at h
      cases h
      show lexLt (mu ⟨v.set .ww (v.get .ww - 1), ts.set i ⟨Cls.wH3.loc, todo⟩⟩) (mu ⟨v, ts⟩)
      refine mu_move hi _ ?_ ?_ <;> rw [hti]
      · simp [wgt, inRound, Cls.loc]
      · simp only [dist, show clsOf Cls.wH3.loc = Cls.wH3 from rfl, show clsOf Cls.wH2.loc = Cls.wH2 from rfl, pos, List.length_cons]; omega
    | wH3 =>
      simp only [Cls.loc] at h
      cases h
      show lexLt (mu ⟨{ v with wa := true }, ts.set i ⟨Cls.wH4.loc, todo⟩⟩) (mu ⟨v, ts⟩)
      refine mu_move hi _ ?_ ?_ <;> rw [hti]
      · simp [wgt, inRound, Cls.loc]
      · simp only [dist, show clsOf Cls.wH4.loc = Cls.wH4 from rfl, show clsOf Cls.wH3.loc = Cls.wH3 from rfl, pos, List.length_cons]; omega
    | wH4 =>
      simp only [Cls.loc] at h
      cases h
      show lexLt (mu ⟨v, ts.set i ⟨Cls.wIn.loc, todo⟩⟩) (mu ⟨v, ts⟩)
      refine mu_move hi _ ?_ ?_ <;> rw [hti]
      · simp [wgt, inRound, Cls.loc]
      · simp only [dist, show clsOf Cls.wIn.loc = Cls.wIn from rfl, show clsOf Cls.wH4.loc = Cls.wH4 from rfl, pos, List.length_cons]; omega
    | wIn =>
      simp only [Cls.loc] at h
      cases h
      show lexLt (mu ⟨v, ts.set i ⟨Cls.wrW.loc, todo⟩⟩) (mu ⟨v, ts⟩)
      refine mu_move hi _ ?_ ?_ <;> rw [hti]
      · simp [wgt, inRound, Cls.loc]
      · simp only [dist, show clsOf Cls.wrW.loc = Cls.wrW from rfl, show clsOf Cls.wIn.loc = Cls.wIn from rfl, pos, List.length_cons]; omega
    | wrW =>
      simp only [Cls.loc] at h
      split at h
      · cases h
        show lexLt (mu ⟨v, ts.set i ⟨Cls.wrH0.loc, todo⟩⟩) (mu ⟨v, ts⟩)
        refine mu_move hi _ ?_ ?_ <;> rw [hti]
        · simp [wgt, inRound, Cls.loc]
        · simp only [dist, show clsOf Cls.wrH0.loc = Cls.wrH0 from rfl, show clsOf Cls.wrW.loc = Cls.wrW from rfl, pos, List.length_cons]; omega
      · cases h
    | wrH0 =>
      simp only [Cls.loc] at h
      cases h
      show lexLt (mu ⟨{ v with wa := false }, ts.set i ⟨Cls.wrH1.loc, todo⟩⟩) (mu ⟨v, ts⟩)
      refine mu_move hi _ ?_ ?_ <;> rw [hti]
      · simp [wgt, inRound, Cls.loc]
      · simp only [dist, show clsOf Cls.wrH1.loc = Cls.wrH1 from rfl, show clsOf Cls.wrH0.loc = Cls.wrH0 from rfl, pos, List.length_cons]; omega
    | wrH1 =>
      simp only [Cls.loc] at h
      cases h
      show lexLt (mu ⟨v, (ts.map wake).set i ⟨Cls.wrH2.loc, todo⟩⟩) (mu ⟨v, ts⟩)
      refine mu_notify hi _ ?_
      rw [hti]
      simp [wgt, inRound, Cls.loc]
    | wrH2 =>
      simp only [Cls.loc] at h
      cases h
      show lexLt (mu ⟨v, ts.set i ⟨Cls.idle.loc, todo⟩⟩) (mu ⟨v, ts⟩)
      refine mu_move hi _ ?_ ?_ <;> rw [hti]
      · simp [wgt, inRound, Cls.loc]
      · simp only [dist, show clsOf Cls.idle.loc = Cls.idle from rfl, show clsOf Cls.wrH2.loc = Cls.wrH2 from rfl, pos, List.length_cons]; omega
    | idle =>
      simp only [Cls.loc] at h
      cases todo with
      | nil => cases h
      | cons r todo' =>
        simp only [] at h
        cases h
        cases r with
        | reader =>
          show lexLt (mu ⟨v, ts.set i ⟨Cls.rW.loc, todo'⟩⟩) (mu ⟨v, ts⟩)
          refine mu_move hi _ ?_ ?_ <;> rw [hti]
          · simp [wgt, inRound, Cls.loc]
          · simp only [dist, show clsOf Cls.rW.loc = Cls.rW from rfl, show clsOf Cls.idle.loc = Cls.idle from rfl, pos, List.length_cons]; omega
        | writer =>
          show lexLt (mu ⟨v, ts.set i ⟨Cls.wW.loc, todo'⟩⟩) (mu ⟨v, ts⟩)
          refine mu_move hi _ ?_ ?_ <;> rw [hti]
          · simp [wgt, inRound, Cls.loc]
          · simp only [dist, show clsOf Cls.wW.loc = Cls.wW from rfl, show clsOf Cls.idle.loc = Cls.idle from rfl, pos, List.length_cons]; omega
    | rrH1 =>
      simp only [Cls.loc] at h
      cases h
      by_cases hz : v.ar = 0
      · have hev : (Cond.isZero Var.ar).eval v = true := by simp [Cond.eval, Vars.get, hz]
        rw [hev]
        show lexLt (mu ⟨v, ts.set i ⟨Cls.rrH1n.loc, todo⟩⟩) (mu ⟨v, ts⟩)
        refine mu_move hi _ ?_ ?_ <;> rw [hti]
        · simp [wgt, inRound, Cls.loc]
        · simp only [dist, show clsOf Cls.rrH1n.loc = Cls.rrH1n from rfl, show clsOf Cls.rrH1.loc = Cls.rrH1 from rfl, pos, List.length_cons]; omega
      · have hev : (Cond.isZero Var.ar).eval v = false := by simp [Cond.eval, Vars.get, hz]
        rw [hev]
        show lexLt (mu ⟨v, ts.set i ⟨Cls.rrH2.loc, todo⟩⟩) (mu ⟨v, ts⟩)
        refine mu_move hi _ ?_ ?_ <;> rw [hti]
        · simp [wgt, inRound, Cls.loc]
        · simp only [dist, show clsOf Cls.rrH2.loc = Cls.rrH2 from rfl, show clsOf Cls.rrH1.loc = Cls.rrH1 from rfl, pos, List.length_cons]; omega

/-- lexicographic order on the measure is well-founded -/
theorem lexLt_wf : WellFounded lexLt := by
  have h : WellFounded (Prod.Lex (· < ·) (· < ·) : Nat × Nat → Nat × Nat → Prop) := (Prod.lex Nat.lt_wfRel Nat.lt_wfRel).wf
  refine Subrelation.wf ?_ h
  intro a b hab
  obtain ⟨a1, a2⟩ := a
  obtain ⟨b1, b2⟩ := b
  rcases hab with h1 | ⟨h1, h2⟩
  · exact Prod.Lex.left _ _ h1
  · simp only at h1 h2; subst h1; exact Prod.Lex.right _ h2

/-- TERMINATION of finite programs: from a well-formed state (every thread at a program point of the expected program,
    with a finite script of rounds still to do) there is no infinite sequence of interpreter steps — spurious wake-ups
    excluded. With `interp_deadlock_free`: every run of finite scripts ends with all threads done, i.e. every acquire
    returns. -/
theorem terminates_finite_programs :
    WellFounded (fun (s' s : Sys) => WF s ∧ ∃ i, step expected s i = some s') := by
  refine Subrelation.wf ?_ (InvImage.wf mu lexLt_wf)
  intro s' s h
  obtain ⟨hwf, i, hs⟩ := h
  exact step_decreases hwf hs

end Casbin.C16
