import CasbinV.Model.Fast
/-!
# Helper lemmas for C19: association lists, the nested key index (`Idx`), its representation
  invariant `Good`, and the container-level facts about `FastPolicy`
-/
namespace Casbin.C19
open Casbin Casbin.Fast


/-! ## association lists -/

theorem alookup_aset_same {β : Type} (k : String) (v : β) (l : List (String × β)) :
    alookup k (aset k v l) = some v := by
  induction l with
  | nil => simp [aset, alookup]
  | cons kv rest ih =>
    obtain ⟨k', v'⟩ := kv
    by_cases h : k' = k
    · simp [aset, alookup, h]
    · simp [aset, alookup, h, ih]

theorem alookup_aset_other {β : Type} (k k' : String) (v : β) (l : List (String × β)) (h : k' ≠ k) :
    alookup k' (aset k v l) = alookup k' l := by
  induction l with
  | nil => simp [aset, alookup, Ne.symm h]
  | cons kv rest ih =>
    obtain ⟨k2, v2⟩ := kv
    by_cases h2 : k2 = k
    · subst h2; simp [aset, alookup, Ne.symm h]
    · by_cases h3 : k2 = k'
      · subst h3; simp [aset, alookup, h2]
      · simp [aset, alookup, h2, h3, ih]

theorem alookup_none_iff {β : Type} (k : String) (l : List (String × β)) :
    alookup k l = none ↔ k ∉ l.map (·.1) := by
  induction l with
  | nil => simp [alookup]
  | cons kv rest ih =>
    obtain ⟨k2, v2⟩ := kv
    by_cases h2 : k2 = k
    · simp [alookup, h2]
    · simp [alookup, h2, ih, Ne.symm h2]

/-- a hit splits the dict at the first entry with that key -/
theorem alookup_some_split {β : Type} (k : String) (v : β) (l : List (String × β))
    (h : alookup k l = some v) :
    ∃ l1 l2, l = l1 ++ (k, v) :: l2 ∧ k ∉ l1.map (·.1) ∧
      ∀ w, aset k w l = l1 ++ (k, w) :: l2 := by
  induction l with
  | nil => simp [alookup] at h
  | cons kv rest ih =>
    obtain ⟨k2, v2⟩ := kv
    by_cases h2 : k2 = k
    · subst h2
      simp [alookup] at h; subst h
      exact ⟨[], rest, by simp, by simp, by intro w; simp [aset]⟩
    · simp [alookup, h2] at h
      obtain ⟨l1, l2, e, hk, hs⟩ := ih h
      refine ⟨(k2, v2) :: l1, l2, by simp [e], ?_, ?_⟩
      · simp [Ne.symm h2]; simpa using hk
      · intro w; simp [aset, h2, hs w]

theorem aset_of_none {β : Type} (k : String) (w : β) (l : List (String × β))
    (h : alookup k l = none) : aset k w l = l ++ [(k, w)] := by
  induction l with
  | nil => simp [aset]
  | cons kv rest ih =>
    obtain ⟨k2, v2⟩ := kv
    by_cases h2 : k2 = k
    · simp [alookup, h2] at h
    · simp [alookup, h2] at h
      simp [aset, h2, ih h]




/-- the bucket a key path selects; a miss is the empty bucket (`in_cache(..) or set()`) -/
def bucketOf (n : Nat) (idx : Idx n) (ks : List String) : List Rule := (inCache n idx ks).getD []

theorem bucketOf_zero (rs : Idx 0) (ks : List String) : bucketOf 0 rs ks = rs := rfl

theorem bucketOf_succ (n : Nat) (kids : Idx (n + 1)) (k : String) (ks : List String) :
    bucketOf (n + 1) kids (k :: ks) =
      match alookup k (kids : List (String × Idx n)) with
      | none => []
      | some sub => bucketOf n sub ks := by
  unfold bucketOf
  simp only [inCache]
  split <;> simp_all

theorem alookup_empty (n : Nat) (k : String) : alookup k (Idx.empty (n + 1) : List (String × Idx n)) = none := rfl

theorem bucketOf_empty (n : Nat) (ks : List String) : bucketOf n (Idx.empty n) ks = [] := by
  cases n with
  | zero => rfl
  | succ n => cases ks <;> rfl

theorem bucketOf_insert_self (n : Nat) (idx : Idx n) (ks : List String) (r : Rule) (h : ks.length = n) :
    bucketOf n (idxInsert n idx ks r) ks = setAdd (bucketOf n idx ks) r := by
  induction n generalizing ks with
  | zero => rfl
  | succ n ih =>
    cases ks with
    | nil => simp at h
    | cons k ks =>
      simp only [List.length_cons, Nat.add_right_cancel_iff] at h
      rw [bucketOf_succ, bucketOf_succ]
      simp only [idxInsert]
      cases hl : alookup k (idx : List (String × Idx n)) with
      | none =>
        simp only [alookup_aset_same]
        rw [ih _ _ h, bucketOf_empty]
      | some sub =>
        simp only [alookup_aset_same]
        exact ih _ _ h

theorem bucketOf_insert_other (n : Nat) (idx : Idx n) (ks ks' : List String) (r : Rule)
    (h : ks.length = n) (h' : ks'.length = n) (hne : ks' ≠ ks) :
    bucketOf n (idxInsert n idx ks r) ks' = bucketOf n idx ks' := by
  induction n generalizing ks ks' with
  | zero => simp at h h'; subst h h'; simp at hne
  | succ n ih =>
    cases ks with
    | nil => simp at h
    | cons k ks =>
      cases ks' with
      | nil => simp at h'
      | cons k' ks' =>
        simp only [List.length_cons, Nat.add_right_cancel_iff] at h h'
        rw [bucketOf_succ, bucketOf_succ]
        simp only [idxInsert]
        by_cases hk : k' = k
        · subst hk
          have hne' : ks' ≠ ks := by intro e; exact hne (by rw [e])
          cases hl : alookup k' (idx : List (String × Idx n)) with
          | none =>
            simp only [alookup_aset_same]
            rw [ih _ _ _ h h' hne', bucketOf_empty]
          | some sub =>
            simp only [alookup_aset_same]
            exact ih _ _ _ h h' hne'
        · cases hl : alookup k (idx : List (String × Idx n)) with
          | none => simp only [alookup_aset_other _ _ _ _ hk]
          | some sub => simp only [alookup_aset_other _ _ _ _ hk]





/-! erase -/

theorem setRemove_ok (rs : List Rule) (r : Rule) (rs' : List Rule) (h : setRemove rs r = .ok rs') :
    rs' = rs.erase r := by
  unfold setRemove at h
  split at h
  · cases h; cases rs <;> simp_all
  · split at h
    · cases h; rfl
    · cases h

theorem setRemove_of_mem (rs : List Rule) (r : Rule) (h : r ∈ rs) : setRemove rs r = .ok (rs.erase r) := by
  unfold setRemove
  have : rs.isEmpty = false := by cases rs <;> simp_all
  simp [this, h]

theorem idxErase_bucket_self (n : Nat) (idx idx' : Idx n) (ks : List String) (r : Rule)
    (h : ks.length = n) (he : idxErase n idx ks r = .ok idx') :
    bucketOf n idx' ks = (bucketOf n idx ks).erase r := by
  induction n generalizing ks with
  | zero => exact setRemove_ok _ _ _ he
  | succ n ih =>
    cases ks with
    | nil => simp at h
    | cons k ks =>
      simp only [List.length_cons, Nat.add_right_cancel_iff] at h
      rw [bucketOf_succ, bucketOf_succ]
      simp only [idxErase] at he
      cases hl : alookup k (idx : List (String × Idx n)) with
      | none => simp only [hl] at he; cases he; simp [hl]
      | some sub =>
        simp only [hl] at he
        cases hs : idxErase n sub ks r with
        | error e => simp [hs] at he
        | ok sub' =>
          simp only [hs] at he; cases he
          simp only [alookup_aset_same]
          exact ih _ _ _ h hs

theorem idxErase_bucket_other (n : Nat) (idx idx' : Idx n) (ks ks' : List String) (r : Rule)
    (h : ks.length = n) (h' : ks'.length = n) (hne : ks' ≠ ks) (he : idxErase n idx ks r = .ok idx') :
    bucketOf n idx' ks' = bucketOf n idx ks' := by
  induction n generalizing ks ks' with
  | zero => simp at h h'; subst h h'; simp at hne
  | succ n ih =>
    cases ks with
    | nil => simp at h
    | cons k ks =>
      cases ks' with
      | nil => simp at h'
      | cons k' ks' =>
        simp only [List.length_cons, Nat.add_right_cancel_iff] at h h'
        rw [bucketOf_succ, bucketOf_succ]
        simp only [idxErase] at he
        cases hl : alookup k (idx : List (String × Idx n)) with
        | none => simp only [hl] at he; cases he; rfl
        | some sub =>
          simp only [hl] at he
          cases hs : idxErase n sub ks r with
          | error e => simp [hs] at he
          | ok sub' =>
            simp only [hs] at he; cases he
            by_cases hk : k' = k
            · subst hk
              have hne' : ks' ≠ ks := by intro e; exact hne (by rw [e])
              simp only [alookup_aset_same, hl]
              exact ih _ _ _ _ h h' hne' hs
            · simp only [alookup_aset_other _ _ _ _ hk]

theorem idxErase_ok (n : Nat) (idx : Idx n) (ks : List String) (r : Rule)
    (h : ks.length = n) (hm : r ∈ bucketOf n idx ks) : ∃ idx', idxErase n idx ks r = .ok idx' := by
  induction n generalizing ks with
  | zero => exact ⟨_, setRemove_of_mem _ _ hm⟩
  | succ n ih =>
    cases ks with
    | nil => simp at h
    | cons k ks =>
      simp only [List.length_cons, Nat.add_right_cancel_iff] at h
      rw [bucketOf_succ] at hm
      simp only [idxErase]
      cases hl : alookup k (idx : List (String × Idx n)) with
      | none => simp [hl] at hm
      | some sub =>
        simp only [hl] at hm
        obtain ⟨sub', hs⟩ := ih sub ks h hm
        exact ⟨(aset k sub' (idx : List (String × Idx n)) : List (String × Idx n)), by simp only [hs]⟩


/-! ## representation invariant -/

/-- unique dict keys, duplicate-free sets, and every rule sits in the bucket named by its own key fields -/
def Good (order : List Nat) : (n : Nat) → List String → Idx n → Prop
  | 0, pre, rs => (rs : List Rule).Nodup ∧ ∀ r ∈ (rs : List Rule), keysOf order r = some pre
  | n + 1, pre, kids => ((kids : List (String × Idx n)).map (·.1)).Nodup ∧
      ∀ kv ∈ (kids : List (String × Idx n)), Good order n (pre ++ [kv.1]) kv.2

theorem good_empty (order : List Nat) (n : Nat) (pre : List String) : Good order n pre (Idx.empty n) := by
  cases n with
  | zero => simp [Good, Idx.empty]
  | succ n => simp [Good, Idx.empty]

theorem setAdd_nodup (rs : List Rule) (r : Rule) (h : rs.Nodup) : (setAdd rs r).Nodup := by
  unfold setAdd
  split
  · exact h
  · rename_i hc
    simp at hc
    exact List.nodup_append.mpr ⟨h, by simp, by intro a ha b hb; simp at hb; subst hb; intro e; subst e; exact hc ha⟩

theorem mem_setAdd (rs : List Rule) (r x : Rule) : x ∈ setAdd rs r ↔ x = r ∨ x ∈ rs := by
  unfold setAdd
  split
  · rename_i hc; simp at hc; constructor
    · intro h; exact Or.inr h
    · rintro (h | h); subst h; exact hc; exact h
  · simp [or_comm]

theorem good_insert (order : List Nat) (n : Nat) (pre : List String) (idx : Idx n) (ks : List String) (r : Rule)
    (hg : Good order n pre idx) (h : ks.length = n) (hk : keysOf order r = some (pre ++ ks)) :
    Good order n pre (idxInsert n idx ks r) := by
  induction n generalizing ks pre with
  | zero =>
    simp at h; subst h
    simp only [Good, idxInsert] at hg ⊢
    refine ⟨setAdd_nodup _ _ hg.1, ?_⟩
    intro x hx
    rcases (mem_setAdd _ _ _).mp hx with e | hx
    · subst e; simpa using hk
    · exact hg.2 x hx
  | succ n ih =>
    cases ks with
    | nil => simp at h
    | cons k ks =>
      simp only [List.length_cons, Nat.add_right_cancel_iff] at h
      simp only [Good] at hg ⊢
      simp only [idxInsert]
      have hk' : keysOf order r = some ((pre ++ [k]) ++ ks) := by simpa using hk
      cases hl : alookup k (idx : List (String × Idx n)) with
      | none =>
        simp only []
        rw [aset_of_none _ _ _ hl]
        refine ⟨?_, ?_⟩
        · rw [List.map_append]
          refine List.nodup_append.mpr ⟨hg.1, by simp, ?_⟩
          intro a ha b hb
          simp at hb; subst hb
          intro e; subst e
          exact (alookup_none_iff _ _).mp hl ha
        · intro kv hkv
          rcases List.mem_append.mp hkv with hkv | hkv
          · exact hg.2 kv hkv
          · simp at hkv; subst hkv
            exact ih _ _ _ (good_empty _ _ _) h hk'
      | some sub =>
        simp only []
        obtain ⟨l1, l2, e, hnot, hs⟩ := alookup_some_split _ _ _ hl
        rw [hs]
        have hgsub : Good order n (pre ++ [k]) sub := by
          have := hg.2 (k, sub) (by rw [e]; simp)
          simpa using this
        refine ⟨?_, ?_⟩
        · have := hg.1; rw [e] at this; simpa using this
        · intro kv hkv
          rcases List.mem_append.mp hkv with hkv | hkv
          · exact hg.2 kv (by rw [e]; simp [hkv])
          · rcases List.mem_cons.mp hkv with hkv | hkv
            · subst hkv; exact ih _ _ _ hgsub h hk'
            · exact hg.2 kv (by rw [e]; simp [hkv])

theorem good_erase (order : List Nat) (n : Nat) (pre : List String) (idx idx' : Idx n) (ks : List String) (r : Rule)
    (hg : Good order n pre idx) (he : idxErase n idx ks r = .ok idx') :
    Good order n pre idx' := by
  induction n generalizing ks pre with
  | zero =>
    simp only [idxErase] at he
    have := setRemove_ok _ _ _ he
    subst this
    simp only [Good] at hg ⊢
    exact ⟨hg.1.erase _, fun x hx => hg.2 x (List.mem_of_mem_erase hx)⟩
  | succ n ih =>
    cases ks with
    | nil => simp only [idxErase] at he; cases he; exact hg
    | cons k ks =>
      simp only [idxErase] at he
      cases hl : alookup k (idx : List (String × Idx n)) with
      | none => simp only [hl] at he; cases he; exact hg
      | some sub =>
        simp only [hl] at he
        cases hs : idxErase n sub ks r with
        | error e => simp [hs] at he
        | ok sub' =>
          simp only [hs] at he; cases he
          simp only [Good] at hg ⊢
          obtain ⟨l1, l2, e, hnot, hset⟩ := alookup_some_split _ _ _ hl
          rw [hset]
          have hgsub : Good order n (pre ++ [k]) sub := by
            have := hg.2 (k, sub) (by rw [e]; simp)
            simpa using this
          refine ⟨?_, ?_⟩
          · have := hg.1; rw [e] at this; simpa using this
          · intro kv hkv
            rcases List.mem_append.mp hkv with hkv | hkv
            · exact hg.2 kv (by rw [e]; simp [hkv])
            · rcases List.mem_cons.mp hkv with hkv | hkv
              · subst hkv; exact ih _ _ _ _ hgsub hs
              · exact hg.2 kv (by rw [e]; simp [hkv])


theorem alookup_mem {β : Type} (k : String) (v : β) (l : List (String × β)) (h : alookup k l = some v) :
    (k, v) ∈ l := by
  obtain ⟨l1, l2, e, _, _⟩ := alookup_some_split _ _ _ h
  rw [e]; simp

theorem alookup_of_mem_nodup {β : Type} (k : String) (v : β) (l : List (String × β))
    (hn : (l.map (·.1)).Nodup) (h : (k, v) ∈ l) : alookup k l = some v := by
  induction l with
  | nil => simp at h
  | cons kv rest ih =>
    obtain ⟨k2, v2⟩ := kv
    simp only [List.map_cons, List.nodup_cons] at hn
    rcases List.mem_cons.mp h with h | h
    · cases h; simp [alookup]
    · have : k2 ≠ k := by
        intro e; subst e; exact hn.1 (List.mem_map.mpr ⟨(k2, v), h, rfl⟩)
      simp [alookup, this, ih hn.2 h]

theorem good_bucket (order : List Nat) (n : Nat) (pre : List String) (idx : Idx n) (ks : List String) (x : Rule)
    (hg : Good order n pre idx) (h : ks.length = n) (hx : x ∈ bucketOf n idx ks) :
    keysOf order x = some (pre ++ ks) := by
  induction n generalizing ks pre with
  | zero => simp at h; subst h; simpa using hg.2 x hx
  | succ n ih =>
    cases ks with
    | nil => simp at h
    | cons k ks =>
      simp only [List.length_cons, Nat.add_right_cancel_iff] at h
      rw [bucketOf_succ] at hx
      cases hl : alookup k (idx : List (String × Idx n)) with
      | none => simp [hl] at hx
      | some sub =>
        simp only [hl] at hx
        have := ih (pre ++ [k]) sub ks (by simpa using hg.2 _ (alookup_mem _ _ _ hl)) h hx
        simpa using this

theorem good_bucket_nodup (order : List Nat) (n : Nat) (pre : List String) (idx : Idx n) (ks : List String)
    (hg : Good order n pre idx) : (bucketOf n idx ks).Nodup := by
  induction n generalizing ks pre with
  | zero => exact hg.1
  | succ n ih =>
    cases ks with
    | nil => simp [bucketOf, inCache]
    | cons k ks =>
      rw [bucketOf_succ]
      cases hl : alookup k (idx : List (String × Idx n)) with
      | none => simp
      | some sub => exact ih (pre ++ [k]) sub ks (by simpa using hg.2 _ (alookup_mem _ _ _ hl))

/-- unfiltered iteration yields exactly the union of the buckets -/
theorem mem_flatten_iff (order : List Nat) (n : Nat) (pre : List String) (idx : Idx n) (x : Rule)
    (hg : Good order n pre idx) :
    x ∈ flatten n idx ↔ ∃ ks, ks.length = n ∧ x ∈ bucketOf n idx ks := by
  induction n generalizing pre with
  | zero =>
    simp only [flatten]
    constructor
    · intro h; exact ⟨[], rfl, h⟩
    · rintro ⟨ks, _, h⟩; exact h
  | succ n ih =>
    simp only [flatten, List.mem_flatMap]
    constructor
    · rintro ⟨⟨k, sub⟩, hkv, hx⟩
      have hgs := hg.2 _ hkv
      obtain ⟨ks, hl, hb⟩ := (ih _ sub hgs).mp hx
      refine ⟨k :: ks, by simp [hl], ?_⟩
      rw [bucketOf_succ, alookup_of_mem_nodup _ _ _ hg.1 hkv]
      exact hb
    · rintro ⟨ks, hl, hb⟩
      cases ks with
      | nil => simp at hl
      | cons k ks =>
        simp only [List.length_cons, Nat.add_right_cancel_iff] at hl
        rw [bucketOf_succ] at hb
        cases hlk : alookup k (idx : List (String × Idx n)) with
        | none => simp [hlk] at hb
        | some sub =>
          simp only [hlk] at hb
          have hm := alookup_mem _ _ _ hlk
          exact ⟨(k, sub), hm, (ih _ sub (hg.2 _ hm)).mpr ⟨ks, hl, hb⟩⟩

theorem flatten_empty (n : Nat) : flatten n (Idx.empty n) = [] := by
  cases n <;> rfl

theorem length_setAdd (rs : List Rule) (r : Rule) :
    (setAdd rs r).length = rs.length + if rs.contains r then 0 else 1 := by
  unfold setAdd; split <;> simp

/-- `append` grows the iteration by one exactly when the rule is new -/
theorem length_flatten_insert (n : Nat) (idx : Idx n) (ks : List String) (r : Rule) (h : ks.length = n) :
    (flatten n (idxInsert n idx ks r)).length =
      (flatten n idx).length + if (bucketOf n idx ks).contains r then 0 else 1 := by
  induction n generalizing ks with
  | zero => exact length_setAdd _ _
  | succ n ih =>
    cases ks with
    | nil => simp at h
    | cons k ks =>
      simp only [List.length_cons, Nat.add_right_cancel_iff] at h
      rw [bucketOf_succ]
      simp only [idxInsert, flatten]
      cases hl : alookup k (idx : List (String × Idx n)) with
      | none =>
        simp only []
        rw [aset_of_none _ _ _ hl]
        simp only [List.flatMap_append, List.length_append, List.flatMap_cons, List.flatMap_nil, List.append_nil]
        rw [ih _ _ h, flatten_empty, bucketOf_empty]
        simp
      | some sub =>
        simp only []
        obtain ⟨l1, l2, e, _, hs⟩ := alookup_some_split _ _ _ hl
        rw [hs]
        have : (idx : List (String × Idx n)) = l1 ++ (k, sub) :: l2 := e
        rw [this]
        simp only [List.flatMap_append, List.length_append, List.flatMap_cons]
        rw [ih _ _ h]
        omega

theorem length_erase_list (rs : List Rule) (r : Rule) :
    (rs.erase r).length = rs.length - if rs.contains r then 1 else 0 := by
  by_cases hc : r ∈ rs
  · simp [hc, List.length_erase_of_mem hc]
  · simp [hc, List.erase_of_not_mem hc]

/-- a bucket is part of the iteration (no invariant needed) -/
theorem bucket_sub_flatten (n : Nat) (idx : Idx n) (ks : List String) (x : Rule) (h : ks.length = n)
    (hx : x ∈ bucketOf n idx ks) : x ∈ flatten n idx := by
  induction n generalizing ks with
  | zero => exact hx
  | succ n ih =>
    cases ks with
    | nil => simp at h
    | cons k ks =>
      simp only [List.length_cons, Nat.add_right_cancel_iff] at h
      rw [bucketOf_succ] at hx
      cases hl : alookup k (idx : List (String × Idx n)) with
      | none => simp [hl] at hx
      | some sub =>
        simp only [hl] at hx
        simp only [flatten, List.mem_flatMap]
        exact ⟨(k, sub), alookup_mem _ _ _ hl, ih _ _ h hx⟩

theorem length_flatten_erase (n : Nat) (idx idx' : Idx n) (ks : List String) (r : Rule) (h : ks.length = n)
    (he : idxErase n idx ks r = .ok idx') :
    (flatten n idx').length =
      (flatten n idx).length - if (bucketOf n idx ks).contains r then 1 else 0 := by
  induction n generalizing ks with
  | zero =>
    have := setRemove_ok _ _ _ he
    subst this
    exact length_erase_list _ _
  | succ n ih =>
    cases ks with
    | nil => simp at h
    | cons k ks =>
      simp only [List.length_cons, Nat.add_right_cancel_iff] at h
      rw [bucketOf_succ]
      simp only [idxErase] at he
      cases hl : alookup k (idx : List (String × Idx n)) with
      | none => simp only [hl] at he; cases he; simp
      | some sub =>
        simp only [hl] at he
        cases hs : idxErase n sub ks r with
        | error e => simp [hs] at he
        | ok sub' =>
          simp only [hs] at he; cases he
          obtain ⟨l1, l2, e, _, hset⟩ := alookup_some_split _ _ _ hl
          simp only [flatten]
          rw [hset]
          have : (idx : List (String × Idx n)) = l1 ++ (k, sub) :: l2 := e
          rw [this]
          simp only [List.flatMap_append, List.length_append, List.flatMap_cons]
          rw [ih _ _ _ h hs]
          have hle : (if (bucketOf n sub ks).contains r then 1 else 0) ≤ (flatten n sub).length := by
            split
            · rename_i hc
              simp at hc
              exact List.length_pos_of_mem (bucket_sub_flatten _ _ _ _ h hc)
            · omega
          omega


/-! ## `FastPolicy` -/

theorem keysOf_length (order : List Nat) (item ks : List String) (h : keysOf order item = some ks) :
    ks.length = order.length := by
  induction order generalizing ks with
  | nil => simp [keysOf] at h; subst h; rfl
  | cons x xs ih =>
    simp only [keysOf] at h
    split at h
    · rename_i v vs _ hvs; cases h; simp [ih _ hvs]
    · cases h

theorem keysOf_none_iff' (order : List Nat) (item : List String) :
    keysOf order item = none ↔ ∃ x ∈ order, item.length ≤ x := by
  induction order with
  | nil => simp [keysOf]
  | cons x xs ih =>
    simp only [keysOf]
    by_cases hx : x < item.length
    · have e1 : item[x]? = some item[x] := by simp [hx]
      cases hk : keysOf xs item with
      | none =>
        simp only [e1]
        simp only [true_iff]
        obtain ⟨y, hy, hly⟩ := ih.mp hk
        exact ⟨y, List.mem_cons_of_mem _ hy, hly⟩
      | some vs =>
        simp only [e1]
        simp only [reduceCtorEq, false_iff]
        rintro ⟨y, hy, hly⟩
        rcases List.mem_cons.mp hy with e | hy
        · subst e; omega
        · have : keysOf xs item = none := ih.mpr ⟨y, hy, hly⟩
          rw [hk] at this; cases this
    · have e1 : item[x]? = none := by simp; omega
      simp only [e1]
      simp only [true_iff]
      exact ⟨x, by simp, by omega⟩

theorem keysOf_none_iff (order : List Nat) (item : List String) :
    keysOf order item = none ↔ order.any (fun x => x ≥ item.length) = true := by
  rw [keysOf_none_iff']; simp

variable {order : List Nat}

theorem bucket_eq (p : FastPolicy order) (keys : List String) :
    p.bucket keys = bucketOf order.length p.cache keys := rfl

/-- the invariant of the indexed container between two calls -/
structure Inv (p : FastPolicy order) : Prop where
  good : Good order order.length [] p.cache
  nofilter : p.filter = none
  size_eq : p.size = (flatten order.length p.cache).length

theorem inv_new (order : List Nat) : Inv (FastPolicy.new order) :=
  ⟨good_empty _ _ _, rfl, by simp [FastPolicy.new, flatten_empty]⟩

theorem iter_eq (p : FastPolicy order) (h : Inv p) : p.iter = flatten order.length p.cache := by
  simp [FastPolicy.iter, h.nofilter]

/-- **bucket_exact.** the bucket selected by a key tuple holds exactly the stored rules whose key
    fields are that tuple -/
theorem bucket_exact (p : FastPolicy order) (h : Inv p) (keys : List String) (hk : keys.length = order.length)
    (x : Rule) : x ∈ p.bucket keys ↔ x ∈ p.iter ∧ keysOf order x = some keys := by
  rw [iter_eq p h, bucket_eq]
  constructor
  · intro hx
    exact ⟨bucket_sub_flatten _ _ _ _ hk hx, by simpa using good_bucket _ _ _ _ _ _ h.good hk hx⟩
  · rintro ⟨hx, hkx⟩
    obtain ⟨ks, hl, hb⟩ := (mem_flatten_iff _ _ _ _ _ h.good).mp hx
    have := good_bucket _ _ _ _ _ _ h.good hl hb
    simp only [List.nil_append] at this
    rw [hkx] at this; cases this; exact hb

/-- `rule in policy` ⇔ the rule is among the iterated rules -/
theorem contains_iff (p : FastPolicy order) (h : Inv p) (x : Rule) :
    p.contains x = true ↔ x ∈ p.iter := by
  unfold FastPolicy.contains
  constructor
  · intro hc
    split at hc
    · cases hc
    · split at hc
      · cases hc
      · rename_i keys hk
        have hl := keysOf_length _ _ _ hk
        simp at hc
        exact ((bucket_exact p h keys hl x).mp hc).1
  · intro hx
    rw [iter_eq p h] at hx
    obtain ⟨ks, hl, hb⟩ := (mem_flatten_iff _ _ _ _ _ h.good).mp hx
    have hk := good_bucket _ _ _ _ _ _ h.good hl hb
    simp only [List.nil_append] at hk
    have hany : ¬ (order.any (fun y => y ≥ x.length) = true) := by
      rw [← keysOf_none_iff, hk]; simp
    simp only [hany, hk]
    simpa [bucket_eq] using hb

theorem append_ok_iff (p : FastPolicy order) (r : Rule) :
    (∃ p', p.append r = .ok p') ↔ order ≠ [] ∧ order.any (fun y => y ≥ r.length) = false := by
  unfold FastPolicy.append
  cases hk : keysOf order r with
  | none =>
    have := (keysOf_none_iff order r).mp hk
    simp [this]
  | some keys =>
    have : ¬ (order.any (fun y => y ≥ r.length) = true) := by rw [← keysOf_none_iff, hk]; simp
    cases order with
    | nil => simp
    | cons a b => simp at this ⊢; exact this

/-- **container_is_set (append).** -/
theorem append_spec (p p' : FastPolicy order) (r : Rule) (h : Inv p) (ha : p.append r = .ok p') :
    Inv p' ∧ ∀ x, x ∈ p'.iter ↔ x = r ∨ x ∈ p.iter := by
  unfold FastPolicy.append at ha
  split at ha
  · cases ha
  · rename_i keys hk
    split at ha
    · cases ha
    · cases ha
      have hl := keysOf_length _ _ _ hk
      have hg' : Good order order.length [] (idxInsert order.length p.cache keys r) :=
        good_insert _ _ _ _ _ _ h.good hl (by simpa using hk)
      have hinv : Inv ({ p with cache := idxInsert order.length p.cache keys r,
                                size := if (p.bucket keys).contains r then p.size else p.size + 1 } : FastPolicy order) := by
        refine ⟨hg', h.nofilter, ?_⟩
        simp only [length_flatten_insert _ _ _ _ hl, ← bucket_eq, h.size_eq]
        split <;> simp_all
      refine ⟨hinv, ?_⟩
      intro x
      rw [iter_eq _ hinv, iter_eq p h]
      simp only []
      rw [mem_flatten_iff _ _ _ _ _ hg', mem_flatten_iff _ _ _ _ _ h.good]
      constructor
      · rintro ⟨ks, hkl, hb⟩
        by_cases hks : ks = keys
        · subst hks
          rw [bucketOf_insert_self _ _ _ _ hl, mem_setAdd] at hb
          rcases hb with hb | hb
          · exact Or.inl hb
          · exact Or.inr ⟨ks, hkl, hb⟩
        · rw [bucketOf_insert_other _ _ _ _ _ hl hkl hks] at hb
          exact Or.inr ⟨ks, hkl, hb⟩
      · rintro (hx | ⟨ks, hkl, hb⟩)
        · subst hx
          exact ⟨keys, hl, by rw [bucketOf_insert_self _ _ _ _ hl, mem_setAdd]; exact Or.inl rfl⟩
        · by_cases hks : ks = keys
          · subst hks
            exact ⟨ks, hkl, by rw [bucketOf_insert_self _ _ _ _ hl, mem_setAdd]; exact Or.inr hb⟩
          · exact ⟨ks, hkl, by rw [bucketOf_insert_other _ _ _ _ _ hl hkl hks]; exact hb⟩

/-- **container_is_set (remove).** removing a stored rule succeeds and removes exactly it -/
theorem remove_spec (p : FastPolicy order) (r : Rule) (hne : order ≠ []) (h : Inv p) (hr : r ∈ p.iter) :
    ∃ p', p.remove r = .ok p' ∧ Inv p' ∧ ∀ x, x ∈ p'.iter ↔ x ≠ r ∧ x ∈ p.iter := by
  have hr' := hr
  rw [iter_eq p h] at hr'
  obtain ⟨keys, hl, hb⟩ := (mem_flatten_iff _ _ _ _ _ h.good).mp hr'
  have hk := good_bucket _ _ _ _ _ _ h.good hl hb
  simp only [List.nil_append] at hk
  obtain ⟨c, hc⟩ := idxErase_ok _ p.cache keys r hl hb
  have hemp : order.isEmpty = false := by cases order <;> simp_all
  have hg' : Good order order.length [] c := good_erase _ _ _ _ _ _ _ h.good hc
  have hinv : Inv ({ p with cache := c, size := if (p.bucket keys).contains r then p.size - 1 else p.size } : FastPolicy order) := by
    refine ⟨hg', h.nofilter, ?_⟩
    simp only [length_flatten_erase _ _ _ _ _ hl hc, ← bucket_eq, h.size_eq]
    split <;> simp_all
  refine ⟨_, by simp only [FastPolicy.remove, hk, hemp, hc]; rfl, hinv, ?_⟩
  intro x
  rw [iter_eq _ hinv, iter_eq p h]
  simp only []
  rw [mem_flatten_iff _ _ _ _ _ hg', mem_flatten_iff _ _ _ _ _ h.good]
  have hnd : (bucketOf order.length p.cache keys).Nodup := good_bucket_nodup _ _ _ _ _ h.good
  constructor
  · rintro ⟨ks, hkl, hxb⟩
    by_cases hks : ks = keys
    · subst hks
      rw [idxErase_bucket_self _ _ _ _ _ hl hc, hnd.mem_erase_iff] at hxb
      exact ⟨hxb.1, ks, hkl, hxb.2⟩
    · rw [idxErase_bucket_other _ _ _ _ _ _ hl hkl hks hc] at hxb
      refine ⟨?_, ks, hkl, hxb⟩
      intro e; subst e
      have := good_bucket _ _ _ _ _ _ h.good hkl hxb
      simp only [List.nil_append] at this
      rw [hk] at this; cases this; exact hks rfl
  · rintro ⟨hxr, ks, hkl, hxb⟩
    by_cases hks : ks = keys
    · subst hks
      exact ⟨ks, hkl, by rw [idxErase_bucket_self _ _ _ _ _ hl hc, hnd.mem_erase_iff]; exact ⟨hxr, hxb⟩⟩
    · exact ⟨ks, hkl, by rw [idxErase_bucket_other _ _ _ _ _ _ hl hkl hks hc]; exact hxb⟩

theorem mem_flatten_keys (order : List Nat) (n : Nat) (pre : List String) (idx : Idx n) (x : Rule)
    (hg : Good order n pre idx) (hx : x ∈ flatten n idx) :
    ∃ ks, ks.length = n ∧ keysOf order x = some (pre ++ ks) := by
  obtain ⟨ks, hl, hb⟩ := (mem_flatten_iff _ _ _ _ _ hg).mp hx
  exact ⟨ks, hl, good_bucket _ _ _ _ _ _ hg hl hb⟩

/-- no rule is iterated twice -/
theorem flatten_nodup (order : List Nat) (n : Nat) (pre : List String) (idx : Idx n)
    (hg : Good order n pre idx) : (flatten n idx).Nodup := by
  induction n generalizing pre with
  | zero => exact hg.1
  | succ n ih =>
    simp only [flatten]
    unfold List.Nodup
    rw [List.pairwise_flatMap]
    refine ⟨fun kv hkv => ih _ kv.2 (hg.2 kv hkv), ?_⟩
    have hk : List.Pairwise (fun a b : String × Idx n => a.1 ≠ b.1) (idx : List (String × Idx n)) := by
      have := hg.1
      unfold List.Nodup at this
      rwa [List.pairwise_map] at this
    refine List.Pairwise.imp_of_mem ?_ hk
    intro a b ha hb hab x hx y hy e
    subst e
    obtain ⟨ks1, hl1, h1⟩ := mem_flatten_keys _ _ _ _ _ (hg.2 a ha) hx
    obtain ⟨ks2, hl2, h2⟩ := mem_flatten_keys _ _ _ _ _ (hg.2 b hb) hy
    rw [h1] at h2
    simp only [Option.some.injEq, List.append_assoc, List.append_cancel_left_eq, List.cons_append,
      List.nil_append, List.cons.injEq] at h2
    exact hab h2.1


/-- a selected bucket is part of the iteration, whatever key tuple selects it -/
theorem bucket_sub_flatten' (n : Nat) (idx : Idx n) (ks : List String) (x : Rule)
    (hx : x ∈ bucketOf n idx ks) : x ∈ flatten n idx := by
  induction n generalizing ks with
  | zero => exact hx
  | succ n ih =>
    cases ks with
    | nil => simp [bucketOf, inCache] at hx
    | cons k ks =>
      rw [bucketOf_succ] at hx
      cases hl : alookup k (idx : List (String × Idx n)) with
      | none => simp [hl] at hx
      | some sub =>
        simp only [hl] at hx
        simp only [flatten, List.mem_flatMap]
        exact ⟨(k, sub), alookup_mem _ _ _ hl, ih _ _ hx⟩

theorem iter_nodup (p : FastPolicy order) (h : Inv p) : p.iter.Nodup := by
  rw [iter_eq p h]; exact flatten_nodup _ _ _ _ h.good

end Casbin.C19
