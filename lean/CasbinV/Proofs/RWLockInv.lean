import CasbinV.Model.RWLock
/-!
# Counter abstraction of the readers-writer lock: transition system and inductive invariant (helper of C16)

`CStep` is the counter-abstracted transition system of the expected lock program (`RW.expected`): one constructor per
instruction-level step kind, guards and updates read off the instruction lists; `Proofs/RWLockSim.lean` proves that
every step of the instruction-list interpreter on `expected` is one of these. `Inv` is the inductive invariant; all
cases are linear arithmetic (`omega`).
-/
namespace Casbin.C16
open Casbin.RW

/-! ## The counter-abstracted transition system -/

/-- names of the transitions; `start*` (a thread begins a round) and `*Spur` (spurious wake-up) are not progress -/
inductive Lbl
  | rStart | rLock | rRelock | rWait | rPass | rInc | rUnlock | rSpur | rrStart | rrLock | rrDec | rrIfT | rrIfF | rrNotify | rrUnlock | wStart | wLock | wReg | wWait | wPass | wRelock | wSpur | wDec | wSet | wUnlock | wrStart | wrLock | wrClear | wrNotify | wrUnlock
  deriving DecidableEq, Repr

def Lbl.progress : Lbl → Bool
  | .rStart | .wStart | .rSpur | .wSpur => false
  | _ => true

inductive CStep : Lbl → CS → CS → Prop
  -- aquire_read
  | rStart (s : CS) : 0 < s.idle → CStep .rStart s { s with idle := s.idle - 1, rW := s.rW + 1 }
  | rLock (s : CS) : 0 < s.rW → s.holders = 0 → CStep .rLock s { s with rW := s.rW - 1, rH0 := s.rH0 + 1 }
  | rRelock (s : CS) : 0 < s.rN → s.holders = 0 → CStep .rRelock s { s with rN := s.rN - 1, rH0 := s.rH0 + 1 }
  | rWait (s : CS) : 0 < s.rH0 → (0 < s.ww ∨ 0 < s.wa) → CStep .rWait s { s with rH0 := s.rH0 - 1, rS := s.rS + 1 }
  | rPass (s : CS) : 0 < s.rH0 → ¬ (0 < s.ww ∨ 0 < s.wa) → CStep .rPass s { s with rH0 := s.rH0 - 1, rH1 := s.rH1 + 1 }
  | rInc (s : CS) : 0 < s.rH1 → CStep .rInc s { s with rH1 := s.rH1 - 1, rH2 := s.rH2 + 1, ar := s.ar + 1 }
  | rUnlock (s : CS) : 0 < s.rH2 → CStep .rUnlock s { s with rH2 := s.rH2 - 1, rIn := s.rIn + 1 }
  | rSpur (s : CS) : 0 < s.rS → CStep .rSpur s { s with rS := s.rS - 1, rN := s.rN + 1 }
  -- release_read
  | rrStart (s : CS) : 0 < s.rIn → CStep .rrStart s { s with rIn := s.rIn - 1, rrW := s.rrW + 1 }
  | rrLock (s : CS) : 0 < s.rrW → s.holders = 0 → CStep .rrLock s { s with rrW := s.rrW - 1, rrH0 := s.rrH0 + 1 }
  | rrDec (s : CS) : 0 < s.rrH0 → CStep .rrDec s { s with rrH0 := s.rrH0 - 1, rrH1 := s.rrH1 + 1, ar := s.ar - 1 }
  | rrIfT (s : CS) : 0 < s.rrH1 → s.ar = 0 → CStep .rrIfT s { s with rrH1 := s.rrH1 - 1, rrH1n := s.rrH1n + 1 }
  | rrIfF (s : CS) : 0 < s.rrH1 → s.ar ≠ 0 → CStep .rrIfF s { s with rrH1 := s.rrH1 - 1, rrH2 := s.rrH2 + 1 }
  | rrNotify (s : CS) : 0 < s.rrH1n →
      CStep .rrNotify s { s with rrH1n := s.rrH1n - 1, rrH2 := s.rrH2 + 1, rN := s.rN + s.rS, rS := 0, wN := s.wN + s.wS, wS := 0 }
  | rrUnlock (s : CS) : 0 < s.rrH2 → CStep .rrUnlock s { s with rrH2 := s.rrH2 - 1, idle := s.idle + 1 }
  -- aquire_write
  | wStart (s : CS) : 0 < s.idle → CStep .wStart s { s with idle := s.idle - 1, wW := s.wW + 1 }
  | wLock (s : CS) : 0 < s.wW → s.holders = 0 → CStep .wLock s { s with wW := s.wW - 1, wH0 := s.wH0 + 1 }
  | wReg (s : CS) : 0 < s.wH0 → CStep .wReg s { s with wH0 := s.wH0 - 1, wH1 := s.wH1 + 1, ww := s.ww + 1 }
  | wWait (s : CS) : 0 < s.wH1 → (0 < s.ar ∨ 0 < s.wa) → CStep .wWait s { s with wH1 := s.wH1 - 1, wS := s.wS + 1 }
  | wPass (s : CS) : 0 < s.wH1 → ¬ (0 < s.ar ∨ 0 < s.wa) → CStep .wPass s { s with wH1 := s.wH1 - 1, wH2 := s.wH2 + 1 }
  | wRelock (s : CS) : 0 < s.wN → s.holders = 0 → CStep .wRelock s { s with wN := s.wN - 1, wH1 := s.wH1 + 1 }
  | wSpur (s : CS) : 0 < s.wS → CStep .wSpur s { s with wS := s.wS - 1, wN := s.wN + 1 }
  | wDec (s : CS) : 0 < s.wH2 → CStep .wDec s { s with wH2 := s.wH2 - 1, wH3 := s.wH3 + 1, ww := s.ww - 1 }
  | wSet (s : CS) : 0 < s.wH3 → CStep .wSet s { s with wH3 := s.wH3 - 1, wH4 := s.wH4 + 1, wa := 1 }
  | wUnlock (s : CS) : 0 < s.wH4 → CStep .wUnlock s { s with wH4 := s.wH4 - 1, wIn := s.wIn + 1 }
  -- release_write
  | wrStart (s : CS) : 0 < s.wIn → CStep .wrStart s { s with wIn := s.wIn - 1, wrW := s.wrW + 1 }
  | wrLock (s : CS) : 0 < s.wrW → s.holders = 0 → CStep .wrLock s { s with wrW := s.wrW - 1, wrH0 := s.wrH0 + 1 }
  | wrClear (s : CS) : 0 < s.wrH0 → CStep .wrClear s { s with wrH0 := s.wrH0 - 1, wrH1 := s.wrH1 + 1, wa := 0 }
  | wrNotify (s : CS) : 0 < s.wrH1 →
      CStep .wrNotify s { s with wrH1 := s.wrH1 - 1, wrH2 := s.wrH2 + 1, rN := s.rN + s.rS, rS := 0, wN := s.wN + s.wS, wS := 0 }
  | wrUnlock (s : CS) : 0 < s.wrH2 → CStep .wrUnlock s { s with wrH2 := s.wrH2 - 1, idle := s.idle + 1 }

/-- `n` threads, all outside -/
def cinit (n : Nat) : CS :=
  { ar := 0, ww := 0, wa := 0, idle := n, rW := 0, rH0 := 0, rS := 0, rN := 0, rH1 := 0, rH2 := 0, rIn := 0,
    rrW := 0, rrH0 := 0, rrH1 := 0, rrH1n := 0, rrH2 := 0, wW := 0, wH0 := 0, wH1 := 0, wS := 0, wN := 0, wH2 := 0,
    wH3 := 0, wH4 := 0, wIn := 0, wrW := 0, wrH0 := 0, wrH1 := 0, wrH2 := 0 }

inductive Reach (n : Nat) : CS → Prop
  | init : Reach n (cinit n)
  | step {l : Lbl} {s t : CS} : Reach n s → CStep l s t → Reach n t

/-- the inductive invariant -/
structure Inv (s : CS) : Prop where
  mutex : s.holders ≤ 1
  readers : s.ar = (s.rH2 + s.rIn + s.rrW + s.rrH0 : Nat)
  writers : s.wa = s.wH4 + s.wIn + s.wrW + s.wrH0
  flag01 : s.wa ≤ 1
  waiting : s.ww = (s.wH1 + s.wS + s.wN + s.wH2 : Nat)
  excl : 0 < s.wa → s.ar = 0
  /-- a reader that has passed its `while` test: nothing changed since (it holds the mutex) -/
  rpass : 0 < s.rH1 + s.rH2 → s.ww = 0 ∧ s.wa = 0
  wpass : 0 < s.wH2 + s.wH3 → s.ar = 0 ∧ s.wa = 0
  /-- no lost wake-up: a sleeper's blocking condition holds, or a `notify_all` is pending under the mutex -/
  rs : 0 < s.rS → (0 < s.ww ∨ 0 < s.wa ∨ 0 < s.wH3 ∨ 0 < s.wrH1)
  ws : 0 < s.wS → (0 < s.ar ∨ 0 < s.wa ∨ 0 < s.rrH1 ∨ 0 < s.rrH1n ∨ 0 < s.wrH1)

theorem inv_init (n : Nat) : Inv (cinit n) := by
  constructor <;> simp [cinit, CS.holders]

set_option maxHeartbeats 4000000 in
theorem inv_step {l : Lbl} {s t : CS} (h : Inv s) (st : CStep l s t) : Inv t := by
  obtain ⟨h1, h2, h3, h3', h4, h5, h6, h7, h8, h9⟩ := h
  cases st <;> constructor <;> dsimp only [CS.holders] at * <;> omega

theorem inv_reach {n : Nat} {s : CS} (r : Reach n s) : Inv s := by
  induction r with
  | init => exact inv_init n
  | step _ st ih => exact inv_step ih st


end Casbin.C16
