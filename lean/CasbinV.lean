import CasbinV.Model.Effect
import CasbinV.Model.Graph
import CasbinV.Gen.Effectors
import CasbinV.Props.C01
import CasbinV.Props.C08
