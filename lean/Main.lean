import CasbinV.Proto
import CasbinV.Driver.Effect
import CasbinV.Driver.Policy
import CasbinV.Driver.Enforcer
import CasbinV.Driver.EnforcerOrd
import CasbinV.Driver.Matcher
import CasbinV.Driver.Persist
import CasbinV.Driver.Fast
import CasbinV.Driver.RoleManager
import CasbinV.Driver.Builtin
import CasbinV.Driver.RWLock
import CasbinV.Driver.Synced
/-! Line-protocol driver: `driver <family>`; exactly one answer line per input line.
    Lines starting with `#` are echoed; `#reset` also resets a stateful family to its initial state.
    Unknown or malformed lines answer `bad-op` (never defaulted). -/

/-- a family: state, initial state, one step (fields ↦ new state, answer) -/
structure Family where
  σ : Type
  init : σ
  step : σ → List String → σ × String

def stateless (f : List String → String) : Family := { σ := Unit, init := (), step := fun _ fs => ((), f fs) }

def families : List (String × Family) := [
  ("effect", stateless Casbin.Driver.Effect.handle),
  ("policy", { σ := Casbin.Driver.Policy.St, init := {}, step := Casbin.Driver.Policy.stepR }),
  ("enf", { σ := Casbin.Driver.Enf.DSt, init := {}, step := Casbin.Driver.Enf.step }),
  ("enfo", { σ := Casbin.Driver.EnfO.DStO, init := {}, step := Casbin.Driver.EnfO.step }),
  ("matcher", { σ := Casbin.Driver.Matcher.Table, init := [], step := Casbin.Driver.Matcher.step }),
  ("persist", { σ := Casbin.Driver.Persist.DState, init := {}, step := Casbin.Driver.Persist.handle }),
  ("fast", { σ := Option Casbin.Driver.Fast.St, init := none, step := Casbin.Driver.Fast.step }),
  ("rm", { σ := Casbin.Driver.RoleManager.St, init := {}, step := Casbin.Driver.RoleManager.step }),
  ("builtin", stateless Casbin.Driver.Builtin.handle),
  ("rwlock", { σ := Casbin.Driver.RWLock.St, init := Casbin.Driver.RWLock.initSt, step := Casbin.Driver.RWLock.handle }),
  ("synced", stateless Casbin.Driver.Synced.handle)
]

partial def runFamily (h out : IO.FS.Stream) (fam : Family) (s : fam.σ) : IO Unit := do
  let line ← h.getLine
  if line.isEmpty then return ()
  if line.startsWith "#" then
    out.putStr line
    if line.startsWith "#reset" then runFamily h out fam fam.init else runFamily h out fam s
  else
    let (s', ans) := fam.step s (Proto.fields line)
    out.putStrLn ans
    runFamily h out fam s'

def main (args : List String) : IO UInt32 := do
  let stdin ← IO.getStdin
  let stdout ← IO.getStdout
  match args with
  | [name] =>
    match families.lookup name with
    | some fam => runFamily stdin stdout fam fam.init; stdout.flush; return 0
    | none => IO.eprintln s!"unknown family {name}"; return 2
  | _ => IO.eprintln "usage: driver <family>"; return 2
