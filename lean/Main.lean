import CasbinV.Proto
import CasbinV.Driver.Effect
/-! Line-protocol driver: `driver <family>`; one answer line per input line; `#` lines are echoed. -/

/-- stateless families: fields ↦ answer -/
def statelessFamilies : List (String × (List String → String)) := [
  ("effect", Casbin.Driver.Effect.handle)
]

partial def loopStateless (h : IO.FS.Stream) (out : IO.FS.Stream) (f : List String → String) : IO Unit := do
  let line ← h.getLine
  if line.isEmpty then return ()
  if line.startsWith "#" then out.putStr line
  else out.putStrLn (f (Proto.fields line))
  loopStateless h out f

def main (args : List String) : IO UInt32 := do
  let stdin ← IO.getStdin
  let stdout ← IO.getStdout
  match args with
  | [fam] =>
    match statelessFamilies.lookup fam with
    | some f => loopStateless stdin stdout f; stdout.flush; return 0
    | none => IO.eprintln s!"unknown family {fam}"; return 2
  | _ => IO.eprintln "usage: driver <family>"; return 2
