#!/usr/bin/env python3
"""Development helper: print the seeded-change catch matrix (markdown) from seeded/*/meta.json."""
import json
import os

VERIF = os.path.dirname(os.path.dirname(os.path.dirname(os.path.abspath(__file__))))
rows = []
for sid in sorted(os.listdir(os.path.join(VERIF, "seeded")), key=lambda s: (s.split("_")[0], int(s.split("_")[1]))):
    m = json.load(open(os.path.join(VERIF, "seeded", sid, "meta.json")))
    fr = m.get("final_run", {})
    own = sid.split("_")[0]
    caught = [k for k, v in fr.items() if v.get("exit") == 1]
    nf = [k for k, v in fr.items() if "no-failing-input-found" in v.get("first_line", "")]
    summ = (m.get("summary") or m.get("what") or "").replace("|", "/").replace("\n", " ")
    files = ", ".join(os.path.basename(f) for f in m.get("files_touched", []))
    fo = m.get("final_own", {})
    own_txt = "yes" if own in caught else "NO"
    if fo:
        own_txt = ("yes" if fo.get("exit") == 1 else "NO") + (" (failing input)" if fo.get("with_failing_input") else " (no-failing-input-found)" if fo.get("exit") == 1 else "")
    if m.get("neutralised"):
        own_txt = "equivalent since F27"
    rows.append((sid, files, summ[:150] + ("…" if len(summ) > 150 else ""), ", ".join(caught) or "—", own_txt, m.get("strengthened", "")))
print("| seed | file(s) | change | caught by (quick tier) | own check | strengthening that was needed |")
print("|------|---------|--------|------------------------|-----------|-------------------------------|")
for r in rows:
    print("| " + " | ".join(r) + " |")
