#!/usr/bin/env python3
"""Development helper (not a registered command): run checks against a seeded change.

  tools/selftest/seed_run.py <dir with patch.diff [demo.py]> <PROP> [<PROP> ...] [--tier quick] [--verify]

Creates a scratch worktree of /repo outside /repo and /verif, applies the patch, (with --verify: runs the repo's
test-suite and the demo on the clean and on the patched tree), runs ./check <PROP> with VERIF_REPO pointing at the
scratch tree, prints exit codes, removes the worktree and restores the generated Lean files."""
import json
import os
import re
import shutil
import subprocess
import sys
import tempfile

VERIF = os.path.dirname(os.path.dirname(os.path.dirname(os.path.abspath(__file__))))
PY = "/venv/bin/python"


def sh(cmd, cwd=None, env=None, timeout=3600):
    p = subprocess.run(cmd, shell=True, cwd=cwd, env=env, stdout=subprocess.PIPE, stderr=subprocess.STDOUT, timeout=timeout)
    return p.returncode, p.stdout.decode(errors="replace")


def run_demo(demo, tree):
    src = open(demo).read()
    src = re.sub(r"/tmp/seed_C\d+(?:r\d+)?", tree, src)
    path = os.path.join(tree, "_demo_tmp.py")
    open(path, "w").write(src)
    rc, out = sh(f"{PY} _demo_tmp.py", cwd=tree, env=dict(os.environ, PYTHONPATH=tree), timeout=600)
    os.remove(path)
    return rc, out


def suite(tree):
    rc, out = sh(f"{PY} -m pytest -q -p no:cacheprovider --deselect tests/test_fast_enforcer.py::TestFastEnforcer::test_performance", cwd=tree, env=dict(os.environ, PYTHONPATH=tree), timeout=900)
    sh("git checkout examples", cwd=tree)
    return rc, out.strip().splitlines()[-1] if out.strip() else ""


def main():
    args = [a for a in sys.argv[1:] if not a.startswith("--")]
    tier = "quick"
    if "--tier" in sys.argv:
        tier = sys.argv[sys.argv.index("--tier") + 1]
        args.remove(tier)
    verify = "--verify" in sys.argv
    d, props = args[0], args[1:]
    patch = os.path.join(d, "patch.diff")
    tree = tempfile.mkdtemp(prefix="mut_", dir="/tmp")
    os.rmdir(tree)
    rc, out = sh(f"git -C /repo worktree add -f --detach {tree} HEAD")
    result = {"dir": d, "checks": {}}
    try:
        if verify:
            result["clean_suite"] = suite(tree)
            if os.path.exists(os.path.join(d, "demo.py")):
                result["clean_demo_rc"] = run_demo(os.path.join(d, "demo.py"), tree)[0]
        rc, out = sh(f"git apply {os.path.abspath(patch)}", cwd=tree)
        if rc != 0:
            result["apply"] = "FAILED: " + out[-300:]
            print(json.dumps(result, indent=1))
            return 2
        if verify:
            result["patched_suite"] = suite(tree)
            if os.path.exists(os.path.join(d, "demo.py")):
                rc2, o2 = run_demo(os.path.join(d, "demo.py"), tree)
                result["patched_demo_rc"] = rc2
                result["patched_demo_out"] = o2[-300:]
        for p in props:
            env = dict(os.environ, VERIF_REPO=tree)
            rc, out = sh(f"./check {p} --tier {tier}", cwd=VERIF, env=env, timeout=3600)
            lines = [l for l in out.splitlines() if l.startswith(("VIOLATION", "KNOWN-FINDING", "INFRA", p + " ["))]
            result["checks"][p] = {"exit": rc, "lines": [l[:220] for l in lines[:6]]}
    finally:
        sh(f"git -C /repo worktree remove --force {tree}")
        shutil.rmtree(tree, ignore_errors=True)
        # regenerate the Lean files that translators derived from the scratch tree
        sh("./check --setup", cwd=VERIF, timeout=3600)
    print(json.dumps(result, indent=1))
    return 0


if __name__ == "__main__":
    sys.exit(main())
