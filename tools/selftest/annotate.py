#!/usr/bin/env python3
"""Development helper: record in seeded/*/meta.json which strengthening of the checks a seeded change needed (if any)."""
import json
import os

VERIF = os.path.dirname(os.path.dirname(os.path.dirname(os.path.abspath(__file__))))
R1 = {
    "C01": "context stream (all 25 effect pairs inside ONE enforcer, plain and context calls alternating) and eval()-history stream",
    "C08": "context stream (all 25 effect pairs inside ONE enforcer, plain and context calls alternating) and eval()-history stream",
    "C03": "lollipop and wide-star graphs around the depth limit",
    "C05": "variants: domain as last g argument (dom2 text), regex role matching with a prefix tenant, scoped frame probe, foreign rows first in the store",
    "C06": "wildcard (empty-value) filters in every position",
    "C07": "deep subject chains (9-14) and a third effect value in the priority histories",
    "C09": "AsyncEnforcer configurations in the mirror histories",
    "C11": "stores with an empty g section; ordering-failure stream (priority / subject-hierarchy sort raising)",
    "C15": "wide hierarchies (several roles per level) in the implicit-role queries",
    "C20": "set_watcher inside histories; unfaithful adapters (rejecting add / remove, no batch support)",
    "C04": "wildcard filters; histories with queries between the calls",
}
R2 = {
    "C02_1": "role-function binding stream (grants / revocations / role-manager swap / reload between decisions)",
    "C02_3": "function-table isolation stream (2-4 enforcers per process registering different functions under one name)",
    "C03_3": "one generated g function serves all consecutive g queries of a history, asked in several domains",
    "C04_2": "failing-reload histories (malformed grouping line after a new valid one; adapter failing after k rows)",
    "C04_4": "auto_build_role_links-off window (reload of the mirrored store only) followed by incremental calls; role-manager swap op",
    "C06_3": "RBAC-API wrappers stream (delete_user / delete_role as compositions of set operations)",
    "C06_4": "read-fed batch calls (argument = the object returned by get_policy / get_filtered_policy); found F25",
    "C06_5": "update_filtered_policies modelled (Policy + enforcer level, found F16) and exercised on Enforcer and AsyncEnforcer",
    "C06_6": "RBAC-API wrappers stream (complete / prefix / empty-field permissions)",
    "C09_4": "adapter attached after construction (flags set while there was none)",
    "C09_5": "ill-sized grouping rules inside batches",
    "C10_2": "saving into files that already hold (longer) content",
    "C12_1": "window with the policy file missing; a failed full load keeps the filtered state (specification tightened; found F26a/b)",
    "C13_2": "IPv6 in the ipMatch model and generators",
    "C15_2": "detour histories (a link removed and re-added before the implicit-role questions)",
    "C15_3": "detour histories (reload from a store without role assignments before the implicit-role questions)",
    "C18_2": "bundled FileAdapter vs AsyncFileAdapter differential on histories ending in save_policy + load_policy",
    "C01_5": "batch_enforce stream: batches of different requests that print alike (7 / '7' / an object printing 7), every rotation",
    "C02_4": "a function registered again under the same name AFTER the enforcer has decided requests",
    "C02_6": "role functions occurring only inside a rule-supplied sub-expression spliced in by eval() (fresh enforcer per scenario, context first / plain first)",
    "C07_4": "clear_policy followed by adds in the priority histories",
    "C07_5": "auto-build flag off + reload from a store that holds the rules in arrival order (the list adapter now mirrors the auto-save calls)",
    "C12_5": "the enforcer's own save guard with filtered adapters that are not the bundled one (interface-based and duck-typed, in memory)",
    "C12_6": "fields with commas inside braces in the generated policy files",
    "C15_5": "detour histories: a reload rejected while the links are being built",
    "C15_6": "detour histories: decisions asked, then the role managers swapped, then a grant and a revocation",
    "C03_4": "a reload rejected while the links are being built, inside the enforcer probe histories",
    "C04_7": "filtered-reload stream: Enforcer + FilteredFileAdapter, a filtered load that fails (invalid filter object / file unreachable), fresh-enforcer oracle",
    "C04_8": "batch removal of a second role definition (g2) in the alphabet",
    "C04_9": "the list form of the single calls and the async twins in C04's histories",
    "C09_7": "load_model inside the mirror histories (auto-save flag must survive)",
    "C14_5": "enforcer probe with the permission rules loaded by load_filtered_policy after the matching function was registered",
    "C16_1": "fine-grained exclusion stream: a scheduling point right after every mutex release of the real methods (failing input instead of only a broken translation)",
    "C16_4": "sections entered through two guard objects shared by all threads (failing input instead of only a rejected translation)",
    "C16_5": "half of the programs end every section as if its body had raised (failing input instead of only a rejected translation)",
    "C17_4": "a scheduling point inside the matcher evaluation (has_link)",
    "C17_6": "one iteration of the auto-reload loop as an extra thread, with a good and a failing adapter (failing input instead of only a table mismatch)",
    "C18_5": "an adapter whose update_filtered_policies raises (several exception classes), sync vs async",
    "C20_4": "load_model inside histories (policy invalidated, watcher and flags must stay)",
    "C02_2": "eval() sub-expressions that begin and end with a bracket, under &&, || and ! (failing input instead of only a char-level disagreement)",
    "C02_5": "string literals with blanks in them in the end-to-end stream (failing input instead of only a char-level disagreement)",
    "C04_3": "pattern stream: key_match as domain / role-name matching function, pattern assignments revoked between queries, fresh-enforcer oracle (was caught by C14 only)",
    "C11_5": "file-failure stream: file adapters, file gone / short grouping line, is_filtered() among the compared queries (was caught by C12 only); shows F26b under C11",
    "C07_7": "the priority histories run on a SECOND policy definition (p without, p2 with a priority field) through an enforce context; found F29",
    "C07_9": "subject priority loaded the bulk way (auto-build off, load_policy, one explicit build_role_links)",
    "C20_8": "calls on the second role definition g2 (valid and too short) in C20's histories; a call that raises is now judged too (no notification)",
    "C20_9": "partial-watcher stream: watchers offering only some of the operation-specific callbacks",
    "C12_7": "quoted values with commas in the generated policy files",
    "C15_7": "domain policies reached through a history: a rule arriving twice in one batch and then revoked, with the questions asked before (per-domain manager in use)",
    "C15_9": "domain policies reached through a history: the same (user, role) pair held in two domains and revoked in one",
    "C19_8": "filtered-adapter stream: FastEnforcer and Enforcer on FilteredFileAdapters with failing filtered loads (wrong filter type / file away)",
    "C01_8": "flag-environment stream: model / policy / adapter / watcher reloaded or replaced while the enforcer is disabled",
    "C11_7": "file-failure stream: an unparsable line after a prefix of good rules (failure WHILE reading)",
    "C05_7": "conditional-domain stream: link conditions registered / re-parameterised for other domains (g = _, _, _, (_, _))",
    "C13_7": "table-isolation stream: a built-in re-registered on ONE enforcer of the process, the others (built before / afterwards / model set again) must keep the documented pattern language (failing input instead of only a broken table tie)",
    "C10_8": "a model whose first policy type has a priority field (ascending numbers) beside types without one, at enforcer level",
    "C10_9": "policies holding the same rule twice in one type",
    "C04_10": "reloads that leave a role definition without any rule while links existed before (auto-save off while granted / emptied store)",
    "C09_10": "second-definition stream: management calls on p2 (incl. filtered update refused because a new rule is held outside the selection), store vs memory",
    "C06_10": "a rule universe whose values contain the separator (different rules with equal comma-joined texts); added after reading the agent's report, before the first run",
    "C14_7": "enforcer probe with the role manager replaced (set_named_role_manager / set_role_manager) BEFORE the matching function is registered, then one build_role_links",
    "C14_9": "a matching function that is NOT reflexive on concrete names (only real prefix* patterns match) among the universes of the random histories",
    "C17_8": "pattern setup: a role-name matching function with a scheduling point INSIDE it (reading calls create role objects for names seen for the first time), programs with two readers of the same unseen name",
    "C20_5": "AsyncEnforcer with a watcher whose operation-specific callbacks are plain functions; callbacks record malformed arguments instead of failing",
}
for sid in sorted(os.listdir(os.path.join(VERIF, "seeded"))):
    p = os.path.join(VERIF, "seeded", sid, "meta.json")
    m = json.load(open(p))
    own = sid.split("_")[0]
    fr = m.get("first_run")
    s = None
    if sid in R2:
        s = R2[sid]
    elif isinstance(fr, dict):
        v = fr.get(own)
        e = v.get("exit") if isinstance(v, dict) else v
        if e == 0 and m.get("final_run", {}).get(own, {}).get("exit") == 1:
            s = R1.get(own)
    if s:
        m["strengthened"] = s
    else:
        m.pop("strengthened", None)
    json.dump(m, open(p, "w"), indent=1)
