#!/usr/bin/env python3
"""Development helper: run every seeded change under /verif/seeded against the check of its own property (and the
related ones listed in REL), record the exit codes as `final_run` in its meta.json.  Sequential (shares the Lean build)."""
import json
import os
import subprocess
import sys

VERIF = os.path.dirname(os.path.dirname(os.path.dirname(os.path.abspath(__file__))))
REL = {"C01": ["C01", "C08", "C19"], "C03": ["C03", "C05", "C11"], "C04": ["C04", "C11", "C14", "C18"], "C05": ["C05", "C04", "C14"], "C06": ["C06", "C04", "C19"], "C07": ["C07", "C06"], "C08": ["C08", "C01", "C19", "C03"],
       "C09": ["C09", "C18"], "C11": ["C11", "C12"], "C15": ["C15", "C04", "C11"], "C19": ["C19", "C04", "C14"], "C20": ["C20", "C18"], "C02": ["C02"], "C10": ["C10", "C18"], "C12": ["C12", "C10"],
       "C13": ["C13"], "C14": ["C14", "C05", "C04"], "C16": ["C16"], "C17": ["C17", "C02"], "C18": ["C18"]}
own_only = "--own-only" in sys.argv  # re-run only the check of the seed's own property, record it as `final_own`
only = [a for a in sys.argv[1:] if not a.startswith("--")]
for sid in sorted(os.listdir(os.path.join(VERIF, "seeded"))):
    if only and sid not in only and sid.split("_")[0] not in only:
        continue
    d = os.path.join(VERIF, "seeded", sid)
    mp = os.path.join(d, "meta.json")
    meta = json.load(open(mp))
    if "final_run" in meta and not only and not own_only:
        continue
    props = REL[sid.split("_")[0]]
    if own_only:
        if sid == "C09_5":
            continue  # neutralised (see meta)
        p = subprocess.run([sys.executable, os.path.join(VERIF, "tools/selftest/seed_run.py"), d, sid.split("_")[0]], stdout=subprocess.PIPE, stderr=subprocess.STDOUT)
        try:
            r = json.loads(p.stdout.decode())
        except Exception:
            print(sid, "unparsable", p.stdout.decode()[-300:])
            continue
        v = r["checks"][sid.split("_")[0]]
        vl = [l for l in v["lines"] if l.startswith("VIOLATION")]
        meta["final_own"] = {"exit": v["exit"], "violation_lines": len(vl), "with_failing_input": sum("no-failing-input-found" not in l for l in vl)}
        json.dump(meta, open(mp, "w"), indent=1)
        print(sid, meta["final_own"], flush=True)
        continue
    verify = [] if meta.get("confirmed", {}).get("patched_demo_exit") == 1 else ["--verify"]
    p = subprocess.run([sys.executable, os.path.join(VERIF, "tools/selftest/seed_run.py"), d] + props + verify, stdout=subprocess.PIPE, stderr=subprocess.STDOUT)
    try:
        r = json.loads(p.stdout.decode())
    except Exception:
        print(sid, "unparsable", p.stdout.decode()[-300:])
        continue
    meta["final_run"] = {k: {"exit": v["exit"], "first_line": (v["lines"] or [""])[0]} for k, v in r["checks"].items()}
    if verify:
        meta["confirmed"] = {"clean_suite": r.get("clean_suite"), "patched_suite": r.get("patched_suite"), "clean_demo_exit": r.get("clean_demo_rc"), "patched_demo_exit": r.get("patched_demo_rc"), "how": meta.get("confirmed", {}).get("how", "seed_run.py --verify")}
    json.dump(meta, open(mp, "w"), indent=1)
    print(sid, {k: v["exit"] for k, v in meta["final_run"].items()}, flush=True)
