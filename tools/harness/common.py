"""Shared plumbing of the verification harness: paths, the Lean driver client, the line-protocol codecs,
translators, lake build + audit, evidence / replay / known-findings handling.

Every path to the repository goes through REPO (env VERIF_REPO, default /repo) so that the whole check can be
pointed at a scratch copy.  The harness is run by /venv/bin/python (has the repo's third-party deps)."""
import fcntl
import hashlib
import importlib
import json
import os
import random
import re
import subprocess
import sys
import time

VERIF = os.path.dirname(os.path.dirname(os.path.dirname(os.path.abspath(__file__))))
REPO = os.environ.get("VERIF_REPO", "/repo")
LEAN_DIR = os.path.join(VERIF, "lean")
DRIVER = os.path.join(LEAN_DIR, ".lake", "build", "bin", "driver")
GEN_DIR = os.path.join(LEAN_DIR, "CasbinV", "Gen")
ALLOWED_AXIOMS = {"propext", "Classical.choice", "Quot.sound"}
GUARD = "CASBIN_PYCASBIN_VERIF"

TRUSTED_BASE = [
    "Lean 4.33.0 kernel and elaborator (thorough tier: re-checked with leanchecker)",
    "axioms: subset of {propext, Classical.choice, Quot.sound}; no native_decide / bv_decide / sorry / own axioms (audited every run)",
    "the correspondence harness (tools/harness) and the driver's parsing/printing (lean/CasbinV/Driver, Proto.lean)",
    "CPython, simpleeval, re, ast: modelled where needed, not verified",
]


def use_repo():
    """make `import casbin` resolve to REPO's working tree"""
    if REPO not in sys.path:
        sys.path.insert(0, REPO)
    for name in list(sys.modules):
        if name == "casbin" or name.startswith("casbin."):
            mod = sys.modules[name]
            f = getattr(mod, "__file__", "") or ""
            if not f.startswith(REPO):
                del sys.modules[name]
    import casbin  # noqa

    assert os.path.abspath(casbin.__file__).startswith(os.path.abspath(REPO)), casbin.__file__
    return casbin


# ---------------------------------------------------------------- codecs


def enc_str(s):
    return "-" if s == "" else ".".join(str(ord(c)) for c in s)


def dec_str(s):
    return "" if s == "-" else "".join(chr(int(x)) for x in s.split("."))


def enc_bool(b):
    return "T" if b else "F"


def enc_list(items, sep=";"):
    return "~" if not items else sep.join(items)


def dec_list(s, sep=";"):
    return [] if s in ("", "~") else s.split(sep)


def enc_rule(r):
    return enc_list([enc_str(x) for x in r], "|")


def dec_rule(s):
    return [dec_str(x) for x in dec_list(s, "|")]


def enc_rules(rs):
    return enc_list([enc_rule(r) for r in rs], ";")


def dec_rules(s):
    return [dec_rule(x) for x in dec_list(s, ";")]


# ---------------------------------------------------------------- driver


def run_driver(family, lines, timeout=600):
    """pipe `lines` (without newline) to `driver <family>`; returns the answer lines"""
    if not lines:
        return []
    data = "\n".join(lines) + "\n"
    p = subprocess.run([DRIVER, family], input=data.encode(), stdout=subprocess.PIPE, stderr=subprocess.PIPE, timeout=timeout)
    if p.returncode != 0:
        raise Infra(f"driver {family} exited {p.returncode}: {p.stderr.decode()[:500]}")
    out = p.stdout.decode().split("\n")
    if out and out[-1] == "":
        out.pop()
    if len(out) != len(lines):
        raise Infra(f"driver {family}: {len(lines)} lines in, {len(out)} lines out")
    return out


def parse_ms(ans):
    """'model=X spec=Y' -> (X, Y)"""
    m = re.match(r"^model=(.*?) spec=(.*)$", ans)
    if not m:
        raise Infra(f"malformed driver answer: {ans!r}")
    return m.group(1), m.group(2)


class Infra(Exception):
    """infrastructure failure: exit 2, never a verdict"""


# ---------------------------------------------------------------- translators / build / audit


def _lock():
    f = open(os.path.join(LEAN_DIR, ".verif.lock"), "w")
    fcntl.flock(f, fcntl.LOCK_EX)
    return f


TRANSLATORS = {
    "T1": ("t1_effectors", "Effectors.lean"),
    "T2": ("t2_synced", "SyncedTable.lean"),
    "T3": ("t3_rwlock", "RWLockProg.lean"),
    "T4": ("t4_functions", "FunctionTable.lean"),
}


def translate(names):
    """run translators; write Gen files only when their content changes. returns {name: None | error string}"""
    sys.path.insert(0, os.path.join(VERIF, "tools", "translate"))
    res = {}
    for n in names:
        modname, out = TRANSLATORS[n]
        path = os.path.join(GEN_DIR, out)
        try:
            mod = importlib.import_module(modname)
            text = mod.translate(REPO)
            old = open(path).read() if os.path.exists(path) else None
            if old != text:
                with open(path, "w") as f:
                    f.write(text)
            res[n] = None
        except Exception as e:  # Untranslatable or a parse error of the mutated source
            res[n] = f"{type(e).__name__}: {e}"
    return res


def lake_build(targets, timeout=1800):
    p = subprocess.run(["lake", "build"] + targets, cwd=LEAN_DIR, stdout=subprocess.PIPE, stderr=subprocess.STDOUT, timeout=timeout)
    return p.returncode == 0, p.stdout.decode()


FORBIDDEN = re.compile(r"\bsorry\b|\badmit\b|^\s*axiom\s|native_decide|bv_decide|implemented_by|\bunsafe\s|maxHeartbeats\s+0")


def _strip_comments(text):
    # block comments (nested) and line comments
    out = []
    i = 0
    depth = 0
    n = len(text)
    while i < n:
        if text.startswith("/-", i):
            depth += 1
            i += 2
        elif depth and text.startswith("-/", i):
            depth -= 1
            i += 2
        elif depth:
            if text[i] == "\n":
                out.append("\n")
            i += 1
        elif text.startswith("--", i):
            while i < n and text[i] != "\n":
                i += 1
        else:
            out.append(text[i])
            i += 1
    return "".join(out)


def grep_forbidden():
    hits = []
    for root, _, files in os.walk(os.path.join(LEAN_DIR, "CasbinV")):
        for fn in files:
            if fn.endswith(".lean"):
                p = os.path.join(root, fn)
                txt = _strip_comments(open(p).read())
                for ln, line in enumerate(txt.split("\n"), 1):
                    if FORBIDDEN.search(line):
                        hits.append(f"{os.path.relpath(p, VERIF)}:{ln}: {line.strip()[:80]}")
    return hits


def load_obligations():
    return json.load(open(os.path.join(VERIF, "tools", "obligations.json")))


def audit(prop, thorough=False):
    """`#print axioms` on every obligation theorem of `prop`. returns dict"""
    ob = load_obligations()[prop]
    mods = ob["modules"]
    thms = ob["theorems"]
    src = "".join(f"import {m}\n" for m in mods) + "".join(f"#print axioms {t}\n" for t in thms)
    path = os.path.join(LEAN_DIR, ".lake", f"audit_{prop}.lean")
    with open(path, "w") as f:
        f.write(src)
    p = subprocess.run(["lake", "env", "lean", path], cwd=LEAN_DIR, stdout=subprocess.PIPE, stderr=subprocess.STDOUT, timeout=900)
    out = p.stdout.decode()
    found = {}
    for m in re.finditer(r"'([^']+)' depends on axioms: \[([^\]]*)\]", out):
        found[m.group(1)] = {a.strip() for a in m.group(2).replace("\n", " ").split(",") if a.strip()}
    for m in re.finditer(r"'([^']+)' does not depend on any axioms", out):
        found[m.group(1)] = set()
    problems = []
    discharged = 0
    axioms = set()
    for t in thms:
        if t not in found:
            problems.append(f"theorem {t}: not found in the compiled environment")
            continue
        bad = found[t] - ALLOWED_AXIOMS
        axioms |= found[t]
        if bad:
            problems.append(f"theorem {t}: depends on non-standard axioms {sorted(bad)}")
        else:
            discharged += 1
    hits = grep_forbidden()
    for h in hits:
        problems.append("forbidden token: " + h)
    res = {
        "obligations": len(thms),
        "discharged": discharged if not hits else 0,
        "axioms": sorted(axioms),
        "problems": problems,
        "theorems": thms,
        "checker_cmd": f"cd lean && lake build {' '.join('+' + m for m in mods)} && lake env lean .lake/audit_{prop}.lean  # #print axioms of every obligation",
    }
    if thorough:
        pc = subprocess.run(["lake", "env", "leanchecker"] + mods, cwd=LEAN_DIR, stdout=subprocess.PIPE, stderr=subprocess.STDOUT, timeout=3000)
        res["leanchecker"] = "ok" if pc.returncode == 0 else "FAILED: " + pc.stdout.decode()[-400:]
        res["checker_cmd"] += f" && lake env leanchecker {' '.join(mods)}"
        if pc.returncode != 0:
            problems.append("leanchecker failed: " + pc.stdout.decode()[-300:])
            res["discharged"] = 0
    return res


def prepare_lean(prop, translators, thorough=False):
    """translate + build driver + build the property's proof modules + audit, under the project lock.
    returns (proof_ok, info); the driver must build (else Infra)."""
    ob = load_obligations()[prop]
    lock = _lock()
    try:
        info = {"translators": {}, "broken": []}
        tr = translate(translators)
        info["translators"] = tr
        for n, err in tr.items():
            if err:
                info["broken"].append(f"translator {n}: {err}")
        ok, log = lake_build(["driver"])
        if not ok:
            raise Infra("driver does not build:\n" + log[-3000:])
        ok, log = lake_build(["+" + m for m in ob["modules"]])
        if not ok:
            errs = re.findall(r"error: ([^\n]*)", log)
            info["broken"].append("lake build of " + ", ".join(ob["modules"]) + " failed: " + " | ".join(errs[:6]))
            info["build_log_tail"] = log[-4000:]
            info["audit"] = {"obligations": len(ob["theorems"]), "discharged": 0, "axioms": [], "problems": ["build failed"], "theorems": ob["theorems"], "checker_cmd": "lake build"}
        else:
            au = audit(prop, thorough)
            info["audit"] = au
            info["broken"] += au["problems"]
    finally:
        lock.close()
    return (not info["broken"]), info


# ---------------------------------------------------------------- findings / replays / evidence


def load_known():
    p = os.path.join(VERIF, "known_findings.json")
    if not os.path.exists(p):
        return []
    return json.load(open(p))["findings"]


def write_replay(prop, obj):
    d = os.path.join(VERIF, "replays", prop)
    os.makedirs(d, exist_ok=True)
    blob = json.dumps(obj, sort_keys=True, ensure_ascii=False, default=str)
    h = hashlib.sha1(blob.encode()).hexdigest()[:12]
    path = os.path.join(d, h + ".json")
    obj = dict(obj)
    obj["property"] = prop
    obj["replay_cmd"] = f"./check {prop} --replay replays/{prop}/{h}.json"
    with open(path, "w") as f:
        json.dump(obj, f, indent=1, ensure_ascii=False, default=str)
    return os.path.relpath(path, VERIF)


class Result:
    """what a property module's run() hands back"""

    def __init__(self):
        self.spec_violations = []  # dicts: {signature, what, case...}: the real code contradicts the property on a concrete input
        self.corr_disagreements = []  # dicts: impl vs model (the tie)
        self.model_vs_spec = []  # must stay empty (it is a theorem) -> Infra
        self.evaluations = 0
        self.nontrivial = set()
        self.samples = []
        self.dist = {}
        self.rule = ""
        self.exhaustive = False
        self.traces_validated = 0
        self.extra = {}
        self.n_spec = 0
        self.n_corr = 0
        self._per_sig = {}

    def violation(self, v, cap=40):
        """the real code contradicts the property on a concrete input (kept: first `cap` per signature)"""
        self.n_spec += 1
        sig = v.get("signature", "")
        self._per_sig[sig] = self._per_sig.get(sig, 0) + 1
        if self._per_sig[sig] <= cap:
            self.spec_violations.append(v)

    def disagree(self, d, cap=60):
        """implementation vs executable Lean model (the tie)"""
        self.n_corr += 1
        if len(self.corr_disagreements) < cap:
            self.corr_disagreements.append(d)

    def count(self, key, n=1):
        self.dist[key] = self.dist.get(key, 0) + n

    def sample(self, s, cap=6):
        if len(self.samples) < cap:
            self.samples.append(s)


def write_evidence(prop, tier, seed, level, coverage, assumptions, wall_s, violations):
    # evidence describes runs against /repo itself; a run pointed at a scratch tree (VERIF_REPO) writes elsewhere
    d = os.path.join(VERIF, "evidence") if os.path.realpath(REPO) == "/repo" else os.path.join("/tmp", "verif_scratch_evidence")
    os.makedirs(d, exist_ok=True)
    ev = {
        "property_id": prop,
        "tier": tier,
        "seed": seed,
        "level": level,
        "coverage": coverage,
        "assumptions": assumptions,
        "wall_s": round(wall_s, 2),
        "violations": violations,
    }
    with open(os.path.join(d, prop + ".json"), "w") as f:
        json.dump(ev, f, indent=1, ensure_ascii=False, default=str)
    return ev
