"""C18 — AsyncEnforcer behaves exactly like Enforcer

Translation validation: both implementations are tied to the same Lean model (Model/Enforcer.lean) and compared with
each other on identical histories; additionally the async classes, with `async`/`await` erased and the
`iscoroutinefunction` dispatch collapsed, are compared method by method with the sync classes (AST); the residual
differences are pinned in tools/harness/c18_residual.json and every change of that set breaks the tie."""
import ast
import asyncio
import hashlib
import json
import os

import common
import enf_corr as ec

TRANSLATORS = []
LEVEL = "translation_validation"
ASSUMPTIONS = [
    "every async call is awaited on one event loop; adapters/watchers are the recording ones of enf_corr (async variants with coroutine methods)",
    "no independent theorem: the property is the transitivity of two correspondences to the same Lean model plus the direct sync-vs-async comparison",
    "models with conditional role definitions (g = _, _, (_, _) / g = _, _, _, (_, _)) are compared sync vs async in a stream of their own (grouping management with parameters, link condition functions, load / build / clear / save); the Lean enforcer model has no conditional links, so that stream is two-way",
]
TRUSTED_EXTRA = ["the AST normaliser of tools/harness/props/c18.py (erases async/await, collapses the coroutine dispatch)"]

PAIRS = [
    ("casbin/internal_enforcer.py", "InternalEnforcer", "casbin/async_internal_enforcer.py", "AsyncInternalEnforcer"),
    ("casbin/management_enforcer.py", "ManagementEnforcer", "casbin/async_management_enforcer.py", "AsyncManagementEnforcer"),
    ("casbin/enforcer.py", "Enforcer", "casbin/async_enforcer.py", "AsyncEnforcer"),
]
RESIDUAL = os.path.join(common.VERIF, "tools", "harness", "c18_residual.json")


# ------------------------------------------------------------------ structural comparison


class Norm(ast.NodeTransformer):
    def visit_AsyncFunctionDef(self, node):
        self.generic_visit(node)
        new = ast.FunctionDef(name=node.name, args=node.args, body=node.body, decorator_list=node.decorator_list, returns=None, type_comment=None, lineno=0, col_offset=0)
        if hasattr(node, "type_params"):
            new.type_params = node.type_params
        return new

    def visit_FunctionDef(self, node):
        self.generic_visit(node)
        node.returns = None
        return node

    def visit_Await(self, node):
        self.generic_visit(node)
        return node.value

    def visit_If(self, node):
        self.generic_visit(node)
        # if inspect.iscoroutinefunction(f): await f(args) else: f(args)   ->   f(args)
        t = node.test
        if (
            isinstance(t, ast.Call)
            and isinstance(t.func, ast.Attribute)
            and t.func.attr == "iscoroutinefunction"
            and len(node.body) == 1
            and len(node.orelse) == 1
            and ast.dump(node.body[0]) == ast.dump(node.orelse[0])
        ):
            return node.body[0]
        return node


def _strip_doc(body):
    if body and isinstance(body[0], ast.Expr) and isinstance(getattr(body[0], "value", None), ast.Constant) and isinstance(body[0].value.value, str):
        return body[1:] or [ast.Pass()]
    return body


def _local_alias_inline(fn):
    """`x = getattr(self.watcher, "name", None); if callable(x): x(args)` (async style) and
    `if callable(getattr(self.watcher, "name", None)): self.watcher.name(args)` (sync style) are made comparable by
    rewriting the async style into the sync one."""
    aliases = {}
    new_body = []

    class Repl(ast.NodeTransformer):
        def visit_Name(self, n):
            if n.id in aliases and isinstance(n.ctx, ast.Load):
                return aliases[n.id]["getattr"]
            return n

        def visit_Call(self, n):
            if isinstance(n.func, ast.Name) and n.func.id in aliases:
                a = aliases[n.func.id]
                n = ast.Call(func=ast.Attribute(value=a["obj"], attr=a["attr"], ctx=ast.Load()), args=n.args, keywords=n.keywords)
            self.generic_visit(n)
            return n

    def walk(stmts):
        out = []
        for st in stmts:
            if (
                isinstance(st, ast.Assign)
                and len(st.targets) == 1
                and isinstance(st.targets[0], ast.Name)
                and isinstance(st.value, ast.Call)
                and isinstance(st.value.func, ast.Name)
                and st.value.func.id == "getattr"
                and len(st.value.args) == 3
                and isinstance(st.value.args[1], ast.Constant)
            ):
                aliases[st.targets[0].id] = {"getattr": st.value, "obj": st.value.args[0], "attr": st.value.args[1].value}
                continue
            for field in ("body", "orelse", "finalbody"):
                if hasattr(st, field) and isinstance(getattr(st, field), list):
                    setattr(st, field, walk(getattr(st, field)))
            if isinstance(st, ast.Try):
                for h in st.handlers:
                    h.body = walk(h.body)
            out.append(Repl().visit(st))
        return out

    fn.body = walk(fn.body)
    return fn


def methods_of(path, cls):
    tree = ast.parse(open(os.path.join(common.REPO, path)).read())
    out = {}
    for node in tree.body:
        if isinstance(node, ast.ClassDef) and node.name == cls:
            for st in node.body:
                if isinstance(st, (ast.FunctionDef, ast.AsyncFunctionDef)):
                    fn = Norm().visit(st)
                    fn.body = _strip_doc(fn.body)
                    fn = _local_alias_inline(fn)
                    fn = Norm().visit(fn)
                    ast.fix_missing_locations(fn)
                    out[st.name] = ast.dump(fn, annotate_fields=False, include_attributes=False)
    return out


def structural():
    """returns {qualified method: 'same' | 'only-sync' | 'only-async' | 'diff:<hash>'}"""
    res = {}
    core = methods_of("casbin/core_enforcer.py", "CoreEnforcer")
    for sp, sc, ap, ac in PAIRS:
        s = methods_of(sp, sc)
        a = methods_of(ap, ac)
        for name in a:
            if name not in s and name in core:
                s[name] = core[name]  # the async class overrides a CoreEnforcer method
        for name in sorted(set(s) | set(a)):
            key = f"{sc}.{name}"
            if name not in a:
                res[key] = "only-sync"
            elif name not in s:
                res[key] = "only-async"
            elif s[name] == a[name]:
                res[key] = "same"
            else:
                res[key] = "diff:" + hashlib.sha1((s[name] + "||" + a[name]).encode()).hexdigest()[:10]
    return res


# ------------------------------------------------------------------ API probe (queries of the public API, sync vs async)


def probe(cfg, e):
    def call(name, *a):
        r = getattr(e, name)(*a)
        if asyncio.iscoroutine(r):
            r = ec.run_async(r)
        return r

    out = {}

    def rec(label, fn):
        try:
            v = fn()
            if isinstance(v, (list, tuple)) and all(isinstance(x, str) for x in v):
                v = sorted(v) if label.startswith(("roles", "users", "implicit_roles", "implicit_users", "all_roles_by_domain")) else list(v)
            elif isinstance(v, (list, tuple)):
                v = [list(x) if isinstance(x, (list, tuple)) else x for x in v]
                if label.startswith("implicit_perms"):
                    v = sorted(v, key=repr)  # the order follows the iteration order of a set of roles
            out[label] = v
        except Exception as ex:  # noqa
            out[label] = f"!{type(ex).__name__}:{str(ex)[:60]}"

    dom = cfg.shape == "dom"
    for n in ("get_all_subjects", "get_all_objects", "get_all_actions", "get_all_roles", "get_policy", "get_grouping_policy"):
        rec(n, lambda n=n: call(n))
    rec("filtered_p", lambda: call("get_filtered_policy", 0, "admin"))
    rec("filtered_g", lambda: call("get_filtered_grouping_policy", 1, "admin"))
    for u in ("alice", "bob", "admin"):
        if not dom:
            rec(f"roles:{u}", lambda u=u: call("get_roles_for_user", u))
            rec(f"users:{u}", lambda u=u: call("get_users_for_role", u))
            rec(f"has_role:{u}", lambda u=u: call("has_role_for_user", u, "admin"))
            rec(f"implicit_roles:{u}", lambda u=u: call("get_implicit_roles_for_user", u))
            rec(f"implicit_perms:{u}", lambda u=u: call("get_implicit_permissions_for_user", u))
            rec(f"perms:{u}", lambda u=u: call("get_permissions_for_user", u))
            rec(f"has_perm:{u}", lambda u=u: call("has_permission_for_user", u, "data1", "read"))
        else:
            for d in ("d1", "d2"):
                rec(f"roles:{u}:{d}", lambda u=u, d=d: call("get_roles_for_user_in_domain", u, d))
                rec(f"users:{u}:{d}", lambda u=u, d=d: call("get_users_for_role_in_domain", u, d))
                rec(f"implicit_roles:{u}:{d}", lambda u=u, d=d: call("get_implicit_roles_for_user", u, d))
                rec(f"implicit_perms:{u}:{d}", lambda u=u, d=d: call("get_implicit_permissions_for_user", u, d))
                rec(f"perms:{u}:{d}", lambda u=u, d=d: call("get_permissions_for_user_in_domain", u, d))
    if not dom:
        rec("implicit_users:data1", lambda: call("get_implicit_users_for_permission", "data1", "read"))
        rec("implicit_users_res:data1", lambda: sorted(map(tuple, call("get_implicit_users_for_resource", "data1"))))
    else:
        for d in ("d1", "d2"):
            rec(f"all_roles_by_domain:{d}", lambda d=d: call("get_all_roles_by_domain", d))
            rec(f"implicit_users_res:data1:{d}", lambda d=d: sorted(map(tuple, call("get_implicit_users_for_resource_by_domain", "data1", d))))
    rec("batch_enforce", lambda: call("batch_enforce", [list(r) for r in cfg.requests[:4]]))
    rec("enforce_ex", lambda: [list(x) if isinstance(x, list) else x for x in call("enforce_ex", *cfg.requests[0])])
    return out


ec.EXTRAS["c18"] = probe


# ------------------------------------------------------------------ histories


def gen(ctx, deep):
    rng = ctx["rng"]
    jobs = []
    for shape in ("rbac", "dom"):
        P, G, G2, R = ec.universe(shape)
        ops = ec.op_alphabet(shape)
        ops += [("update", P[0], P[1]), ("updatemany", [P[0], P[1]], [P[1], P[0]])]
        inits = [{"p": [], "g": [], "g2": []}, {"p": P, "g": G, "g2": G2}]
        for adapter, watcher in ((True, None), (True, "ex"), (True, "upd"), (True, "plain"), (False, None), (False, "ex")):
            for init in inits:
                usable = [o for o in ops if adapter or o[0] not in ("load", "save")]
                for a in usable:
                    jobs.append((shape, adapter, watcher, init, [a]))
                if adapter and watcher in (None, "ex"):
                    sample = usable if deep else rng.sample(usable, min(len(usable), 14))
                    for a in sample:
                        for b in sample:
                            jobs.append((shape, adapter, watcher, init, [a, b]))
                if adapter:
                    # reloads that fail: while the adapter delivers, and while the role links are being built
                    short = G[0][:-1]
                    for bad in ({"p": P, "g": G[:1] + [G[2], short], "g2": G2}, {"p": P, "g": [short], "g2": G2}):
                        jobs.append((shape, adapter, watcher, init, [("setstore", bad), ("load", None), ("add", "g", G[1])]))
                    for k in (0, 2):
                        jobs.append((shape, adapter, watcher, init, [("load", k), ("remove", "g", G[0])]))
                if watcher:
                    # auto-save off / no adapter at all, with a watcher attached
                    for a in usable:
                        if a[0] in ("add", "addmany", "remove", "removemany", "removefiltered", "delete_user", "delete_role", "delete_roles_for_user", "updatefiltered"):
                            jobs.append((shape, adapter, watcher, init, [("autosave", False), a]))
                n = 60 if not deep else 600
                for _ in range(n):
                    jobs.append((shape, adapter, watcher, init, [rng.choice(usable) for _ in range(rng.randint(3, 9))]))
    return jobs


def run(ctx):
    res = common.Result()
    # ---- structural tie
    st = structural()
    pinned = json.load(open(RESIDUAL)) if os.path.exists(RESIDUAL) else {}
    changed = {k: (pinned.get(k), v) for k, v in st.items() if pinned.get(k) != v}
    changed.update({k: (v, None) for k, v in pinned.items() if k not in st})
    res.extra["methods_compared"] = len(st)
    res.extra["methods_identical_after_erasing_await"] = sum(1 for v in st.values() if v == "same")
    res.extra["residual_differences"] = {k: v for k, v in st.items() if v != "same"}
    structural_broken = bool(changed)
    if structural_broken:
        res.disagree({"what": "structural tie: the set of sync/async method pairs that differ after erasing async/await changed: " + json.dumps(changed)[:600], "case": {"changed": changed}})

    stages = [False] if not (ctx["deep"] or structural_broken) else ([True] if ctx["proof_ok"] and not structural_broken else [False, True])
    for deep in stages:
        _run_stage(ctx, res, deep)
        if res.spec_violations:
            break
    res.rule = (
        "RBAC and domain models x 2 initial policies x {adapter+no watcher, adapter+WatcherEx, adapter+WatcherUpdatable, adapter+plain watcher, no adapter}: "
        "every single call of the ~45-op alphabet (management single/batch/filtered/update, RBAC wrappers, clear, build, load, save), pairs over a sample "
        "(thorough: all pairs) and seeded random histories of length 3-9, executed on Enforcer, on AsyncEnforcer (every call awaited) and on the Lean model; "
        "after every call results, policies, adapter writes, notifications, ~40 decisions/role queries and ~35 public API queries (get_all_*, implicit roles/"
        "permissions/users, domain variants, batch_enforce, enforce_ex) are compared; Enforcer+FileAdapter vs AsyncEnforcer+AsyncFileAdapter on "
        "histories ending in save_policy + load_policy (incl. histories that empty the policy): results, policies and file bytes; filtered / incremental / full loads and "
        "saves on Enforcer+FilteredFileAdapter vs AsyncEnforcer + the same adapter behind coroutine methods (all single calls and pairs, random histories); conditional role definitions "
        "(g = _, _, (_, _) and the domain form) x 3 initial policies: every single call, pairs and random histories of grouping management with link parameters, link condition functions, load / "
        "build_role_links / clear / save, sync vs async (results, policies, store, direct roles of the conditional manager, all decisions); non-trivial/distinct = (configuration, history)"
    )
    res.extra["programs"] = len(res.nontrivial)
    res.extra["disagreements_checked"] = res.n_spec + res.n_corr
    return res


# ------------------------------------------------------------------ bundled file adapters (FileAdapter vs AsyncFileAdapter)


def _file_history(args):
    """one history on Enforcer+FileAdapter or AsyncEnforcer+AsyncFileAdapter; after every call: result, policy, file text"""
    import shutil
    import tempfile

    shape, init, hist, is_async = args
    casbin = common.use_repo()
    from casbin.persist.adapters import FileAdapter
    from casbin.persist.adapters.asyncio import AsyncFileAdapter

    d = tempfile.mkdtemp(prefix="c18f_")
    try:
        path = os.path.join(d, "policy.csv")
        with open(path, "w") as f:
            for sec in ("p", "g"):
                for r in init.get(sec, []):
                    f.write(", ".join([sec] + list(r)) + "\n")
        if is_async:
            e = casbin.AsyncEnforcer(casbin.AsyncEnforcer.new_model(text=ec.TEXT[shape]), AsyncFileAdapter(path))
            ec.run_async(e.load_policy())
        else:
            e = casbin.Enforcer(casbin.Enforcer.new_model(text=ec.TEXT[shape]), FileAdapter(path))
        e.enable_auto_save(False)  # the file adapters implement load/save only
        out = []
        for op in hist:
            try:
                ret = ec.res_str(ec.impl_call(e, op, is_async))
            except Exception as ex:  # noqa
                ret = ec.exc_str(ex)
            out.append({"ret": ret, "p": [list(r) for r in e.get_policy()], "g": [list(r) for r in e.get_grouping_policy()], "file": open(path).read()})
        return out
    finally:
        shutil.rmtree(d, ignore_errors=True)


def run_file_adapters(ctx, res, deep):
    rng = ctx["rng"]
    jobs = []
    for shape in ("rbac", "dom"):
        P, G, G2, R = ec.universe(shape)
        ops = [o for o in ec.op_alphabet(shape) if o[0] not in ("load", "save", "setstore")]
        empties = [("clear",), ("removeread", "p"), ("removeread", "g"), ("removefiltered", "p", 0, [""]), ("removefiltered", "g", 0, [""])]
        for init in ({"p": P, "g": G}, {"p": P[:1], "g": []}, {"p": [], "g": []}):
            for a in ops:
                jobs.append((shape, init, [a, ("save",), ("load", None)]))
            # histories that empty the whole policy before saving
            jobs.append((shape, init, [("removeread", "p"), ("removeread", "g"), ("save",), ("load", None)]))
            jobs.append((shape, init, [("clear",), ("save",), ("load", None), ("add", "p", P[0]), ("save",), ("load", None)]))
            for _ in range(40 if not deep else 400):
                h = [rng.choice(ops + empties) for _ in range(rng.randint(1, 5))] + [("save",), ("load", None)]
                if rng.random() < 0.5:
                    h += [rng.choice(ops + empties), ("save",), ("load", None)]
                jobs.append((shape, init, h))
    with ec.mp.Pool(12) as pool:
        so = pool.map(_file_history, [(s, i, h, False) for s, i, h in jobs], chunksize=8)
        ao = pool.map(_file_history, [(s, i, h, True) for s, i, h in jobs], chunksize=8)
    for (shape, init, hist), rs, ra in zip(jobs, so, ao):
        res.nontrivial.add(hash(("file", shape, repr(init), repr(hist))))
        for i, (x, y) in enumerate(zip(rs, ra)):
            res.evaluations += 1
            res.count("file-adapter-step")
            if x != y:
                k = [k for k in ("ret", "p", "g", "file") if x[k] != y[k]][0]
                res.violation({"signature": f"C18:file:{k}:{hist[i][0]}", "stream": "file",
                               "what": f"{shape} model, bundled file adapters: after {[list(o) for o in hist[: i + 1]][-4:]} Enforcer+FileAdapter and AsyncEnforcer+AsyncFileAdapter differ in {k}: sync {str(x[k])[:160]!r} vs async {str(y[k])[:160]!r}",
                               "case": {"shape": shape, "initial": init, "history": [list(o) for o in hist[: i + 1]]}, "expected": x, "observed": y, "model_text": ec.TEXT[shape]})
                break


# ------------------------------------------------------------------ filtered loading (FilteredFileAdapter vs an equivalent async adapter)


def _filtered_history(args):
    """one history of filtered / incremental / full loads and saves on Enforcer+FilteredFileAdapter or on
    AsyncEnforcer + the same adapter behind coroutine methods (an 'equivalent adapter')"""
    import shutil
    import tempfile

    shape, rows, hist, is_async = args
    casbin = common.use_repo()
    from casbin.persist.adapters import FilteredFileAdapter
    from casbin.persist.adapters.filtered_file_adapter import Filter

    from casbin.persist.adapters.asyncio import AsyncAdapter

    class AsyncFiltered(AsyncAdapter):
        def __init__(self, inner):
            self.inner = inner

        def is_filtered(self):
            return self.inner.is_filtered()

        async def load_policy(self, model):
            return self.inner.load_policy(model)

        async def load_filtered_policy(self, model, filter):
            return self.inner.load_filtered_policy(model, filter)

        async def save_policy(self, model):
            return self.inner.save_policy(model)

        async def add_policy(self, sec, ptype, rule):
            pass

        async def remove_policy(self, sec, ptype, rule):
            pass

        async def remove_filtered_policy(self, sec, ptype, field_index, *field_values):
            pass

    d = tempfile.mkdtemp(prefix="c18g_")
    try:
        path = os.path.join(d, "policy.csv")
        with open(path, "w") as f:
            f.write("\n".join(", ".join(r) for r in rows))
        inner = FilteredFileAdapter(path)
        if is_async:
            e = casbin.AsyncEnforcer(casbin.AsyncEnforcer.new_model(text=ec.TEXT[shape]), AsyncFiltered(inner))
        else:
            e = casbin.Enforcer(casbin.Enforcer.new_model(text=ec.TEXT[shape]), inner)
        out = []
        for op in hist:
            try:
                if op[0] in ("loadf", "loadinc"):
                    flt = Filter()
                    flt.P, flt.G = list(op[1]), list(op[2])
                    r = (e.load_filtered_policy if op[0] == "loadf" else e.load_increment_filtered_policy)(flt)
                elif op[0] == "load":
                    r = e.load_policy()
                else:
                    r = e.save_policy()
                if asyncio.iscoroutine(r):
                    r = ec.run_async(r)
                ret = "ok"
            except Exception as ex:  # noqa
                ret = "!" + type(ex).__name__
            cfg = ec.Config(shape, adapter=False)
            out.append({"ret": ret, "p": [list(x) for x in e.get_policy()], "g": [list(x) for x in e.get_grouping_policy()], "filtered": bool(e.is_filtered()),
                        "file": open(path).read(), "decisions": [ec.q_impl(e, ("enforce", tuple(q))) for q in cfg.requests[:6]]})
        return out
    finally:
        shutil.rmtree(d, ignore_errors=True)


def run_filtered_loads(ctx, res, deep):
    rng = ctx["rng"]
    jobs = []
    for shape in ("rbac", "dom"):
        P, G, G2, R = ec.universe(shape)
        rows = [["p"] + r for r in P] + [["g"] + r for r in G]
        subs = sorted({r[0] for r in P})
        filters = [([s], []) for s in subs] + [([], [G[0][0]]), ([subs[0]], [G[0][0]]), ([], []), ([""], [""])]
        ops = [("loadf", *f) for f in filters] + [("loadinc", *f) for f in filters] + [("load",), ("save",)]
        for a in ops:
            jobs.append((shape, rows, [a]))
            for b in ops:
                jobs.append((shape, rows, [a, b]))
        for _ in range(60 if not deep else 600):
            jobs.append((shape, rows, [rng.choice(ops) for _ in range(rng.randint(3, 5))]))
    with ec.mp.Pool(12) as pool:
        so = pool.map(_filtered_history, [(s, r, h, False) for s, r, h in jobs], chunksize=8)
        ao = pool.map(_filtered_history, [(s, r, h, True) for s, r, h in jobs], chunksize=8)
    for (shape, rows, hist), rs, ra in zip(jobs, so, ao):
        res.nontrivial.add(hash(("filtered", shape, repr(hist))))
        for i, (x, y) in enumerate(zip(rs, ra)):
            res.evaluations += 1
            res.count("filtered-load-step")
            if x != y:
                k = [k for k in ("ret", "p", "g", "filtered", "file", "decisions") if x[k] != y[k]][0]
                res.violation({"signature": f"C18:filtered:{k}:{hist[i][0]}", "stream": "filtered",
                               "what": f"{shape} model, filtered loading: after {[list(o) for o in hist[: i + 1]]} Enforcer+FilteredFileAdapter and AsyncEnforcer + the same adapter behind coroutine methods differ in {k}: sync {str(x[k])[:160]!r} vs async {str(y[k])[:160]!r}",
                               "case": {"shape": shape, "rows": rows, "history": [list(o) for o in hist[: i + 1]]}, "expected": x, "observed": y, "model_text": ec.TEXT[shape]})
                break


# ------------------------------------------------------------------ conditional role definitions (g = _, _, (_, _))

_EFT = "[policy_effect]\ne = some(where (p.eft == allow))\n[matchers]\n"
COND_TEXT = {
    "cond": "[request_definition]\nr = sub, obj, act\n[policy_definition]\np = sub, obj, act\n[role_definition]\ng = _, _, (_, _)\n" + _EFT
    + "m = g(r.sub, p.sub) && r.obj == p.obj && r.act == p.act\n",
    "conddomain": "[request_definition]\nr = sub, dom, obj, act\n[policy_definition]\np = sub, dom, obj, act\n[role_definition]\ng = _, _, _, (_, _)\n" + _EFT
    + "m = g(r.sub, p.sub, r.dom) && r.dom == p.dom && r.obj == p.obj && r.act == p.act\n",
}
COND_NAMES = ["alice", "bob", "admin", "staff"]
COND_DOMS = ["d1", "d2"]


def _cond_flag(flag, _other):
    return flag == "T"


def cond_universe(shape):
    dom = shape == "conddomain"
    P = [[x] + ([d] if dom else []) + ["res_" + x, "read"] for x in COND_NAMES for d in (COND_DOMS if dom else [None])]
    keys = [(u, r) + ((d,) if dom else ()) for u in COND_NAMES for r in COND_NAMES if u != r for d in (COND_DOMS if dom else [None])]
    return P, keys


def cond_ops(shape):
    """the alphabet of the conditional stream: grouping management with the link parameters, registration of link
    condition functions, and every call that clears and rebuilds the role links"""
    P, keys = cond_universe(shape)
    ks = [k for k in keys if k[:2] in (("alice", "admin"), ("admin", "staff"), ("bob", "staff"), ("staff", "alice"))]
    ops = []
    for k in ks:
        for flag in "TF":
            ops.append(("addg", list(k) + [flag, "x"]))
            ops.append(("removeg", list(k) + [flag, "x"]))
        ops.append(("condfn", list(k)))
    ops += [("addgs", [list(k) + ["T", "x"] for k in ks[:3]]), ("removegs", [list(k) + ["T", "x"] for k in ks[:3]])]
    ops += [("load",), ("build",), ("clear",), ("save",), ("autobuild", False), ("autobuild", True)]
    ops += [("removefg", 0, ["alice"]), ("removefg", 1, ["staff"])]
    # a reload that is REJECTED while the conditional links are being built (a good new line, then a too short one in the
    # store): both enforcers must raise and keep what they had (policy, links, decisions)
    ops += [("rejectload", list(ks[0]) + ["T", "x"]), ("rejectload", list(ks[-1]) + ["T", "x"])]
    return ops


def _cond_history(args):
    """one history on Enforcer or AsyncEnforcer (every call awaited) over a conditional role definition, both started from
    the same store through load_policy; after every call: result, policies, store content, the direct roles the
    conditional manager holds and every decision enforce(u, [d,] res_x, read)"""
    shape, init_g, hist, is_async = args
    casbin = common.use_repo()
    dom = shape == "conddomain"
    P, keys = cond_universe(shape)
    ad = ec.make_adapter(casbin, {"p": P, "g": init_g}, is_async=is_async)
    if is_async:
        e = casbin.AsyncEnforcer(casbin.AsyncEnforcer.new_model(text=COND_TEXT[shape]), ad)
        ec.run_async(e.load_policy())
    else:
        e = casbin.Enforcer(casbin.Enforcer.new_model(text=COND_TEXT[shape]), ad)

    def call(op):
        k = op[0]
        if k == "addg":
            return e.add_grouping_policy(*op[1])
        if k == "removeg":
            return e.remove_grouping_policy(*op[1])
        if k == "addgs":
            return e.add_grouping_policies(op[1])
        if k == "removegs":
            return e.remove_grouping_policies(op[1])
        if k == "removefg":
            return e.remove_filtered_grouping_policy(op[1], *op[2])
        if k == "condfn":
            if dom:
                return e.add_named_domain_link_condition_func("g", op[1][0], op[1][1], op[1][2], _cond_flag)
            return e.add_named_link_condition_func("g", op[1][0], op[1][1], _cond_flag)
        if k == "load":
            return e.load_policy()
        if k == "rejectload":
            saved = {kk: [list(x) for x in v] for kk, v in ad.store.items()}
            ad.store["g"] = [list(op[1])] + [list(x) for x in ad.store.get("g", [])] + [["zz"]]
            try:
                r = e.load_policy()
                if asyncio.iscoroutine(r):
                    r = ec.run_async(r)
                return r
            finally:
                ad.store.clear()
                ad.store.update(saved)
        if k == "build":
            return e.build_role_links()
        if k == "clear":
            return e.clear_policy()
        if k == "save":
            return e.save_policy()
        if k == "autobuild":
            return e.enable_auto_build_role_links(op[1])
        if k == "observe":
            return None
        raise common.Infra(f"unknown op {op!r}")

    out = []
    for op in [("observe",)] + list(hist):
        try:
            r = call(op)
            if asyncio.iscoroutine(r):
                r = ec.run_async(r)
            ret = repr(r)
        except Exception as ex:  # noqa
            ret = "!" + type(ex).__name__
        decisions, links = [], []
        for u in COND_NAMES:
            for d in COND_DOMS if dom else [None]:
                try:
                    links.append(sorted(e.cond_rm_map["g"].get_roles(u, *([d] if dom else []))))
                except Exception as ex:  # noqa
                    links.append("!" + type(ex).__name__)
                for x in COND_NAMES:
                    try:
                        decisions.append(bool(e.enforce(*([u] + ([d] if dom else []) + ["res_" + x, "read"]))))
                    except Exception as ex:  # noqa
                        decisions.append("!" + type(ex).__name__)
        out.append({"ret": ret, "p": [list(x) for x in e.get_policy()], "g": [list(x) for x in e.get_grouping_policy()],
                    "store": {k: [list(x) for x in v] for k, v in sorted(ad.store.items())}, "links": links, "decisions": decisions})
    return out



TWO_G_TEXT = """[request_definition]
r = sub, obj, act
[policy_definition]
p = sub, obj, act
[role_definition]
g = _, _
g2 = _, _
[policy_effect]
e = some(where (p.eft == allow))
[matchers]
m = (g(r.sub, p.sub) || g2(r.sub, p.sub)) && r.obj == p.obj && r.act == p.act
"""


def _two_g_case(args):
    """two role definitions over the SAME names (a hierarchy may cross from g into g2): the RBAC API answers of Enforcer or
    AsyncEnforcer"""
    glinks, g2links, prules, is_async = args
    casbin = common.use_repo()
    E = casbin.AsyncEnforcer if is_async else casbin.Enforcer
    e = E(E.new_model(text=TWO_G_TEXT))
    run = ec.run_async if is_async else (lambda x: x)
    for r in prules:
        run(e.add_policy(*r))
    for a, b in glinks:
        run(e.add_named_grouping_policy("g", a, b))
    for a, b in g2links:
        run(e.add_named_grouping_policy("g2", a, b))
    out = {}
    for u in ("alice", "bob", "team", "dept"):
        for name in ("get_implicit_roles_for_user", "get_implicit_permissions_for_user", "get_roles_for_user"):
            try:
                v = run(getattr(e, name)(u)) if is_async and asyncio.iscoroutinefunction(getattr(e, name)) else getattr(e, name)(u)
                if asyncio.iscoroutine(v):
                    v = ec.run_async(v)
                out[f"{name}({u})"] = sorted(map(repr, v))
            except Exception as ex:  # noqa
                out[f"{name}({u})"] = "!" + type(ex).__name__
    return out


def run_two_definitions(ctx, res, deep):
    """sync vs async on a model with two plain role definitions over the same names (implementation side)"""
    rng = ctx["rng"]
    names = ["alice", "bob", "team", "dept", "corp"]
    for _ in range(60 if not deep else 600):
        gl = list(dict.fromkeys(tuple(rng.sample(names, 2)) for _ in range(rng.randint(1, 3))))
        g2l = list(dict.fromkeys(tuple(rng.sample(names, 2)) for _ in range(rng.randint(1, 3))))
        pr = list(dict.fromkeys((rng.choice(names), rng.choice(["d1", "d2"]), "read") for _ in range(rng.randint(1, 3))))
        a, b = _two_g_case((gl, g2l, pr, False)), _two_g_case((gl, g2l, pr, True))
        res.evaluations += len(a)
        res.count("stream:two-role-definitions")
        res.nontrivial.add(hash(("two-g", repr(gl), repr(g2l), repr(pr))))
        diff = [k for k in a if a[k] != b[k]]
        if diff:
            res.violation({"signature": f"C18:two-definitions:{diff[0].split('(')[0]}", "stream": "two-definitions", "case": {"g": [list(x) for x in gl], "g2": [list(x) for x in g2l], "p": [list(x) for x in pr]},
                           "expected": a[diff[0]], "observed": b[diff[0]],
                           "what": f"model with g and g2 over the same names, g links {gl}, g2 links {g2l}, rules {pr}: {diff[0]} = {a[diff[0]]} on Enforcer and {b[diff[0]]} on AsyncEnforcer"})
            return


def run_conditional(ctx, res, deep):
    """sync vs async on the conditional role definitions (implementation side only: the Lean enforcer model has no
    conditional links; their semantics is C03's model of the role managers)"""
    rng = ctx["rng"]
    jobs = []
    for shape in ("cond", "conddomain"):
        P, keys = cond_universe(shape)
        ops = cond_ops(shape)
        k0 = [k for k in keys if k[:2] in (("alice", "admin"), ("admin", "staff"))]
        inits = [[], [list(k) + ["T", "x"] for k in k0], [list(k) + [f, "x"] for k, f in zip(k0, "TFTF")] + [["bob", "staff"] + (["d1"] if shape == "conddomain" else []) + ["T", "x"]]]
        for init in inits:
            jobs.append((shape, init, []))
            for a in ops:
                jobs.append((shape, init, [a]))
        sample = [rng.choice(ops) for _ in range(12)]
        for a in ops:
            for b in sample if not deep else ops:
                jobs.append((shape, inits[1], [a, b]))
        # store and role links apart (automatic building off, any call), then the calls that rebuild the links from the policy
        for init in inits[1:]:
            for b in ops:
                for c in (("load",), ("build",)):
                    jobs.append((shape, init, [("autobuild", False), b, ("autobuild", True), c]))
        for _ in range(150 if not deep else 3000):
            jobs.append((shape, rng.choice(inits), [rng.choice(ops) for _ in range(rng.randint(3, 8))]))
    with ec.mp.Pool(12) as pool:
        so = pool.map(_cond_history, [(s, i, h, False) for s, i, h in jobs], chunksize=8)
        ao = pool.map(_cond_history, [(s, i, h, True) for s, i, h in jobs], chunksize=8)
    for (shape, init, hist), rs, ra in zip(jobs, so, ao):
        res.nontrivial.add(hash(("conditional", shape, repr(init), repr(hist))))
        steps = [("observe",)] + list(hist)
        for i, (x, y) in enumerate(zip(rs, ra)):
            res.evaluations += 1
            res.count("conditional-step")
            res.count("conditional-op:" + steps[i][0])
            if any(d is True for d in x["decisions"]) and any(x["links"]):
                res.count("conditional:roles-followed")
            if x != y:
                k = [k for k in ("ret", "p", "g", "store", "links", "decisions") if x[k] != y[k]][0]
                res.violation({"signature": f"C18:conditional:{k}:{steps[i][0]}", "stream": "conditional",
                               "what": f"{shape} model (g with link-condition parameters), started from g = {init}: after {[list(o) for o in steps[1 : i + 1]]} Enforcer and AsyncEnforcer differ in {k}: sync {str(x[k])[:200]!r} vs async {str(y[k])[:200]!r}",
                               "case": {"shape": shape, "initial_g": init, "history": [list(o) for o in steps[1 : i + 1]]}, "expected": x, "observed": y, "model_text": COND_TEXT[shape]})
                break


def _raising_history(args):
    shape, init, hist, is_async, exc_name = args
    import builtins

    cfg = ec.Config(shape, adapter=True, watcher=None, initial=init, is_async=is_async)
    e, ad, w = ec.build_enforcer(cfg)
    ad.uf_raises = getattr(builtins, exc_name)
    out = []
    for op in hist:
        a0 = len(ad.log)
        try:
            ret = ec.res_str(ec.impl_call(e, op, is_async))
        except Exception as ex:  # noqa
            ret = "!" + type(ex).__name__
        out.append({"ret": ret, "p": [list(r) for r in e.get_policy()], "acalls": list(ad.log[a0:])})
    return out


def run_raising_adapter(ctx, res, deep):
    """an adapter that HAS update_filtered_policies but raises in it (any exception class): the enforcers swallow it and
    update the model only - both of them"""
    jobs = []
    for shape in ("rbac", "dom"):
        P, G, G2, R = ec.universe(shape)
        for exc_name in ("NotImplementedError", "AttributeError", "RuntimeError", "KeyError"):
            for op in ec.updatefiltered_ops(shape):
                jobs.append((shape, {"p": P, "g": G, "g2": G2}, [op, ("add", "p", P[0])], exc_name))
    for shape, init, hist, exc_name in jobs:
        rs = _raising_history((shape, init, hist, False, exc_name))
        ra = _raising_history((shape, init, hist, True, exc_name))
        res.nontrivial.add(hash(("raising", shape, repr(hist), exc_name)))
        for i, (x, y) in enumerate(zip(rs, ra)):
            res.evaluations += 1
            res.count("raising-adapter-step")
            if x != y:
                k = [k for k in ("ret", "p", "acalls") if x[k] != y[k]][0]
                res.violation({"signature": f"C18:raising-adapter:{k}:{hist[i][0]}", "stream": "raising", "exc": exc_name,
                               "what": f"{shape} model, adapter whose update_filtered_policies raises {exc_name}: after {[list(o) for o in hist[: i + 1]]} Enforcer and AsyncEnforcer differ in {k}: sync {str(x[k])[:160]!r} vs async {str(y[k])[:160]!r}",
                               "case": {"shape": shape, "initial": init, "history": [list(o) for o in hist[: i + 1]]}, "expected": x, "observed": y, "model_text": ec.TEXT[shape]})
                break


def _run_stage(ctx, res, deep):
    run_raising_adapter(ctx, res, deep)
    run_filtered_loads(ctx, res, deep)
    run_conditional(ctx, res, deep)
    run_two_definitions(ctx, res, deep)
    run_file_adapters(ctx, res, deep)
    jobs = gen(ctx, deep)
    store = {}

    def mkjudge(tag):
        def judge(r, cfg, hist, i, op, rec, model, case, queries):
            store.setdefault((cfg.shape, cfg.adapter, cfg.watcher, repr(cfg.initial), repr(hist)), {}).setdefault(tag, []).append(rec)
            return True

        return judge

    sync_jobs = [(ec.Config(s, adapter=a, watcher=w, initial=init, is_async=False), h) for s, a, w, init, h in jobs]
    async_jobs = [(ec.Config(s, adapter=a, watcher=w, initial=init, is_async=True), h) for s, a, w, init, h in jobs]
    ec.run_configs(res, sync_jobs, mkjudge("sync"), fresh_oracle=False, extra="c18")
    ec.run_configs(res, async_jobs, mkjudge("async"), fresh_oracle=False, extra="c18")
    for (shape, adapter, watcher, init, hist), recs in store.items():
        s, a = recs.get("sync", []), recs.get("async", [])
        for i, (rs, ra) in enumerate(zip(s, a)):
            diffs = []
            for k in ("ret", "pol", "acalls", "wcalls", "answers"):
                if rs.get(k) != ra.get(k):
                    diffs.append((k, rs.get(k), ra.get(k)))
            es, ea = rs.get("extra", {}), ra.get("extra", {})
            for k in es:
                if es.get(k) != ea.get(k):
                    diffs.append(("api:" + k, es.get(k), ea.get(k)))
            if diffs:
                h = eval(hist)
                k0 = diffs[0][0]
                res.violation(
                    {
                        "signature": f"C18:{k0 if k0.startswith('api:') else k0 + ':' + h[i][0]}".split(":alice")[0].split(":bob")[0].split(":admin")[0],
                        "what": f"{shape} model ({'adapter' if adapter else 'no adapter'}, watcher {watcher}): after {[list(o) for o in h[: i + 1]][-3:]} Enforcer and AsyncEnforcer differ in {diffs[0][0]}: sync {str(diffs[0][1])[:160]} vs async {str(diffs[0][2])[:160]}",
                        "case": {"config": {"shape": shape, "adapter": adapter, "watcher": watcher, "initial": eval(init)}, "history": [list(o) for o in h[: i + 1]]},
                        "expected": str(diffs[0][1])[:400],
                        "observed": str(diffs[0][2])[:400],
                        "model_text": ec.TEXT[shape],
                    }
                )
                break


def replay(obj):
    if obj.get("stream") == "raising":
        c = obj["case"]
        hist = [tuple(o) for o in c["history"]]
        return _raising_history((c["shape"], c["initial"], hist, False, obj["exc"]))[-1] != _raising_history((c["shape"], c["initial"], hist, True, obj["exc"]))[-1]
    if obj.get("stream") == "filtered":
        c = obj["case"]
        hist = [tuple(tuple(x) if isinstance(x, list) else x for x in o) for o in c["history"]]
        return _filtered_history((c["shape"], c["rows"], hist, False))[-1] != _filtered_history((c["shape"], c["rows"], hist, True))[-1]
    if obj.get("stream") == "two-definitions":
        c = obj["case"]
        args = ([tuple(x) for x in c["g"]], [tuple(x) for x in c["g2"]], [tuple(x) for x in c["p"]])
        return _two_g_case(args + (False,)) != _two_g_case(args + (True,))
    if obj.get("stream") == "conditional":
        c = obj["case"]
        hist = [tuple(o) for o in c["history"]]
        return _cond_history((c["shape"], c["initial_g"], hist, False))[-1] != _cond_history((c["shape"], c["initial_g"], hist, True))[-1]
    if obj.get("stream") == "file":
        c = obj["case"]
        hist = [tuple(o) for o in c["history"]]
        return _file_history((c["shape"], c["initial"], hist, False))[-1] != _file_history((c["shape"], c["initial"], hist, True))[-1]
    c = obj["case"]["config"]
    hist = [tuple(o) for o in obj["case"]["history"]]
    outs = []
    for is_async in (False, True):
        cfg = ec.Config(c["shape"], adapter=c["adapter"], watcher=c["watcher"], initial=c["initial"], is_async=is_async)
        outs.append(ec.run_history(cfg, hist, ec.query_set(cfg), fresh_oracle=False, extra="c18"))
    for rs, ra in zip(*outs):
        for k in ("ret", "pol", "acalls", "wcalls", "answers", "extra"):
            if rs.get(k) != ra.get(k):
                return True
    return False


if __name__ == "__main__":
    # (re)pin the residual differences of the current tree:  /venv/bin/python tools/harness/props/c18.py --pin
    import sys

    if "--pin" in sys.argv:
        json.dump(structural(), open(RESIDUAL, "w"), indent=1, sort_keys=True)
        print("pinned", RESIDUAL)
    else:
        for k, v in structural().items():
            if v != "same":
                print(k, v)
