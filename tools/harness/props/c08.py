"""C08 — enforce_ex explains a decision with the rule that decided it"""
import common
import effect_corr

TRANSLATORS = ["T1"]
LEVEL = "proof"
ASSUMPTIONS = [
    "the explanation is compared as an index into the stored policy (object identity of the returned rule)",
    "same matcher abstraction and ties as C01",
]
TRUSTED_EXTRA = ["translator T1 (tools/translate/t1_effectors.py)"]


def run(ctx):
    res = common.Result()
    return effect_corr.run(ctx, res, "explain")


def replay(obj):
    return effect_corr.replay(obj, "explain")
