"""C15 — the RBAC query API agrees with enforcement"""
import itertools

import common
import enf_corr as ec
from common import enc_list, enc_rule, enc_str, parse_ms, run_driver

TRANSLATORS = []
LEVEL = "proof"
ASSUMPTIONS = [
    "RBAC model r = sub, obj, act / p = sub, obj, act / g = _, _ with the matcher g(r.sub, p.sub) && r.obj == p.obj && r.act == p.act under allow-override (domain variant: rbac_with_domains)",
    "role hierarchies stay within the depth bound (max_hierarchy_level = 10) for the enforce <-> implicit-permission equivalence; deeper chains are probed and not judged",
    "non-empty permission policy (the empty-policy branch of enforce is C01's subject)",
    "get_implicit_users_for_resource[_by_domain] are judged against enforce on one-level hierarchies (no role is itself given a role; the hypothesis Flat of the _partial theorems, decided per state by the driver query `flat`); on nested hierarchies the loop is compared exactly with its Lean model and the disagreement with enforce is counted as an observation, not judged (the property text does not define this view)",
    "no domain matching function is registered; the empty string is not used as a name (it is the wildcard of get_filtered_policy)",
]
TRUSTED_EXTRA = []

NAMES = ["alice", "bob", "admin", "root"]
OBJS = ["data1", "data2"]
DOMS3 = ["d1", "d2", "d3"]  # d3: a domain nothing is stored for
PU_ALL = [[s, o, "read"] for s in NAMES for o in OBJS]
PD_ALL = [[s, d, o, "read"] for s in NAMES for d in ("d1", "d2") for o in OBJS]
NESTED = "nested-hierarchy"  # counter suffix of the observation (DESIGN.md 11.3)


def call(e, name, *args, **kw):
    """a query method of Enforcer or of AsyncEnforcer (a coroutine there)"""
    import inspect

    r = getattr(e, name)(*args, **kw)
    if inspect.iscoroutine(r):
        r = ec.run_async(r)
    return r


def guarded(fn):
    try:
        return fn()
    except Exception as ex:  # noqa
        return "!" + type(ex).__name__


def probe_views(cfg, e, out):
    """the resource-centred views, the per-domain views and the direct views, through the enforcer's own methods"""
    dom = cfg.shape == "dom"
    rules = PD_ALL if dom else PU_ALL
    for u in NAMES:
        out[f"pf:{u}"] = guarded(lambda: [list(r) for r in call(e, "get_permissions_for_user", u)])
    for r in rules:
        out["hp:" + "|".join(r)] = guarded(lambda: bool(call(e, "has_permission_for_user", *r)))
    out["allroles"] = guarded(lambda: list(e.get_all_roles()))
    if not dom:
        for o in OBJS + ["data9", "data"]:
            out[f"ufr:{o}"] = guarded(lambda: [list(r) for r in call(e, "get_implicit_users_for_resource", o)])
        return
    for d in DOMS3:
        out[f"rbd:{d}"] = guarded(lambda: list(call(e, "get_all_roles_by_domain", d)))
        for o in OBJS + ["data"]:
            out[f"ufrd:{o}:{d}"] = guarded(lambda: [list(r) for r in call(e, "get_implicit_users_for_resource_by_domain", o, d)])
        for u in NAMES:
            out[f"pid:{u}:{d}"] = guarded(lambda: [list(r) for r in call(e, "get_permissions_for_user_in_domain", u, d)])
            out[f"ipd:{u}:{d}:T"] = guarded(lambda: [list(r) for r in call(e, "get_implicit_permissions_for_user", u, d)])
            out[f"ipd:{u}:{d}:F"] = guarded(lambda: [list(r) for r in call(e, "get_implicit_permissions_for_user", u, d, filter_policy_dom=False)])
            out[f"rid:{u}:{d}"] = guarded(lambda: list(call(e, "get_roles_for_user_in_domain", u, d)))
            out[f"uid:{u}:{d}"] = guarded(lambda: list(call(e, "get_users_for_role_in_domain", u, d)))


def probe(cfg, e):
    """the query API of the real enforcer + the cross-checks the property states, evaluated on the implementation"""
    out = {}
    probe_views(cfg, e, out)
    dom = cfg.shape == "dom"
    doms = ["d1", "d2"] if dom else [None]
    problems = []
    g = [list(r) for r in e.get_named_grouping_policy("g")]
    p = [list(r) for r in e.get_policy()]
    rm = e.get_role_manager()
    for d in doms:
        dargs = () if d is None else (d,)
        for u in NAMES:
            roles = call(e, "get_implicit_roles_for_user", u, *dargs)
            if len(set(roles)) != len(roles):
                problems.append(("implicit-roles-duplicate", f"get_implicit_roles_for_user({u}{',' + d if d else ''}) = {roles} names a role twice"))
            out[f"implicitroles:{u}:{d}"] = sorted(roles)
            perms = call(e, "get_implicit_permissions_for_user", u, *dargs)
            out[f"implicitperms:{u}:{d}"] = sorted(map(tuple, perms))
            # inverse views
            direct = rm.get_roles(u, *dargs)
            for r in NAMES:
                inv = u in rm.get_users(r, *dargs)
                if (r in direct) != inv:
                    problems.append(("inverse-views", f"get_roles({u}) has {r}: {r in direct} but get_users({r}) has {u}: {inv} (domain {d})"))
            # enforce <-> implicit permission (non-empty policy, depth within the bound)
            if p and cfg.tag.get("depth_ok", True):
                for o in OBJS:
                    req = [u, o, "read"] if d is None else [u, d, o, "read"]
                    allowed = e.enforce(*req)
                    listed = any((list(x[1:]) == req[1:]) for x in perms)
                    if allowed != listed:
                        problems.append(("enforce-vs-implicit-permission", f"enforce{tuple(req)} = {allowed} but get_implicit_permissions_for_user({u}{',' + d if d else ''}) {'lists' if listed else 'does not list'} {req[1:]}: {perms}"))
    if not dom:
        roles_col = {r[1] for r in g}
        subjects = []
        for x in [r[0] for r in g] + [r[0] for r in p]:
            if x not in subjects:
                subjects.append(x)
        for o in OBJS:
            users = call(e, "get_implicit_users_for_permission", o, "read")
            out[f"implicitusers:{o}"] = sorted(users)
            if len(set(users)) != len(users):
                problems.append(("implicit-users-duplicate", f"get_implicit_users_for_permission({o},read) = {users} names a user twice"))
            expected = sorted(x for x in subjects if x not in roles_col and e.enforce(x, o, "read"))
            if sorted(users) != expected:
                problems.append(("implicit-users-vs-enforce", f"get_implicit_users_for_permission({o},read) = {sorted(users)}; the non-role subjects that enforce allows are {expected}"))
    out["problems"] = problems
    return out


ec.EXTRAS["c15"] = probe


def lean_queries(cfg):
    qs = []
    if cfg.shape == "rbac":
        for u in NAMES:
            qs.append(("implicitroles", u, None))
            qs.append(("implicitperms", u))
        for o in OBJS:
            qs.append(("implicitusers", [o, "read"]))
        qs.append(("flat", None))
        for o in OBJS + ["data9", "data"]:
            qs.append(("usersforresource", o))
        for r in PU_ALL:
            qs.append(("hasperm", r))
    else:
        for d in ("d1", "d2"):
            for u in NAMES:
                qs.append(("implicitroles", u, d))
        for d in DOMS3:
            qs.append(("flat", d))
            qs.append(("rolesbydomain", d))
            for o in OBJS + ["data"]:
                qs.append(("usersforresourcedom", o, d))
            for u in NAMES:
                qs.append(("permsindom", u, d))
                qs.append(("implicitpermsdom", u, d, True))
                qs.append(("implicitpermsdom", u, d, False))
                qs.append(("roles", "g", u, d))
                qs.append(("users", "g", u, d))
        for r in PD_ALL:
            qs.append(("hasperm", r))
    qs.append(("allroles",))
    for u in NAMES:
        qs.append(("permsfor", u))
    return qs


def canon_rules(rules):
    v = sorted(enc_rule(list(x)) for x in rules)
    body = "~" if not v else ",".join(v)
    return body if len(set(v)) == len(v) else "!dup:" + body


def q_line(q):
    if q[0] == "implicitroles":
        return "\t".join(["q", "implicitroles", enc_str(q[1]), "~" if q[2] is None else enc_str(q[2])])
    if q[0] == "implicitperms":
        return "\t".join(["q", "implicitperms", enc_str(q[1])])
    if q[0] == "implicitusers":
        return "\t".join(["q", "implicitusers", enc_list([enc_str(x) for x in q[1]])])
    if q[0] == "flat":
        return "\t".join(["q", "flat", "~" if q[1] is None else enc_str(q[1])])
    if q[0] in ("roles", "users"):
        return ec.q_line(q)
    if q[0] == "hasperm":
        return "\t".join(["q", "hasperm", enc_list([enc_str(x) for x in q[1]])])
    if q[0] == "implicitpermsdom":
        return "\t".join(["q", q[0], enc_str(q[1]), enc_str(q[2]), "T" if q[3] else "F"])
    return "\t".join(["q", q[0]] + [enc_str(x) for x in q[1:]])


def impl_answer(rec, q):
    ex = rec["extra"]
    if q[0] == "implicitroles":
        return enc_list(sorted(enc_str(x) for x in ex[f"implicitroles:{q[1]}:{q[2]}"]))
    if q[0] == "implicitperms":
        v = sorted({enc_rule(list(x)) for x in ex[f"implicitperms:{q[1]}:None"]})  # compared as a set
        return "~" if not v else ",".join(v)
    if q[0] == "implicitusers":
        return enc_list(sorted(enc_str(x) for x in ex[f"implicitusers:{q[1][0]}"]))
    key = {"usersforresource": lambda: f"ufr:{q[1]}", "usersforresourcedom": lambda: f"ufrd:{q[1]}:{q[2]}", "rolesbydomain": lambda: f"rbd:{q[1]}",
           "allroles": lambda: "allroles", "permsfor": lambda: f"pf:{q[1]}", "permsindom": lambda: f"pid:{q[1]}:{q[2]}",
           "hasperm": lambda: "hp:" + "|".join(q[1]), "implicitpermsdom": lambda: f"ipd:{q[1]}:{q[2]}:{'T' if q[3] else 'F'}",
           "roles": lambda: f"rid:{q[2]}:{q[3]}", "users": lambda: f"uid:{q[2]}:{q[3]}"}[q[0]]()
    v = ex[key]
    if isinstance(v, str):
        return v  # an exception
    if q[0] in ("usersforresource", "usersforresourcedom"):
        return canon_rules(v)  # a dict's keys: compared as a set, duplicates reported
    if q[0] in ("rolesbydomain", "allroles", "roles", "users"):
        body = enc_list(sorted(enc_str(x) for x in v))  # a set in the code
        return body if len(set(v)) == len(v) else "!dup:" + body
    if q[0] in ("permsfor", "permsindom"):
        return "L" + common.enc_rules(v)  # stored order is observable
    if q[0] == "hasperm":
        return "T" if v else "F"
    w = sorted({enc_rule(list(x)) for x in v})  # implicitpermsdom: compared as a set (one copy per holder)
    return "~" if not w else ",".join(w)


def gen(ctx, deep):
    rng = ctx["rng"]
    jobs = []
    PU = [[s, o, "read"] for s in NAMES for o in OBJS]
    GU = [[a, b] for a in NAMES for b in NAMES]
    small_p = [list(c) for n in range(0, 3) for c in itertools.combinations(PU, n)]
    small_g = [list(c) for n in range(0, 3) for c in itertools.combinations(GU, n)]
    pols = [(p, g) for p in small_p for g in small_g]
    if not deep:
        pols = rng.sample(pols, 1500)
    more = 600 if not deep else 6000
    for _ in range(more):
        pols.append((rng.sample(PU, rng.randint(1, 4)), rng.sample(GU, rng.randint(2, 6))))
    for p, g in pols:
        cfg = ec.Config("rbac", adapter=True, watcher=None, initial={"p": p, "g": g, "g2": []})
        cfg.tag = {"depth_ok": True}
        jobs.append((cfg, [("remove", "p", ["nobody", "x", "y"])]))
    # the same questions in states reached through a detour: a link removed and re-added, a reload from a store that
    # no longer holds any role assignment (then one granted again)
    detour = [pg for pg in pols if pg[1]]
    for p, g in rng.sample(detour, min(len(detour), 200 if not deep else 2000)):
        cfg = ec.Config("rbac", adapter=True, watcher=None, initial={"p": p, "g": g, "g2": []})
        cfg.tag = {"depth_ok": True}
        e = rng.choice(g)
        jobs.append((cfg, [("remove", "g", e), ("add", "g", e)]))
        jobs.append((cfg, [("setstore", {"p": p, "g": [], "g2": []}), ("load", None), ("add", "g", e)]))
        # a swapped role manager, then a grant and a revocation; a reload that is rejected while the links are being built
        other = rng.choice([x for x in GU if x not in g] or [e])
        jobs.append((cfg, [("remove", "p", ["nobody", "x", "y"]), ("setrm",), ("add", "g", other), ("remove", "g", e)]))  # decisions are asked before the swap too
        jobs.append((cfg, [("setstore", {"p": p, "g": [other, [other[0]]], "g2": []}), ("load", None)]))
    # chains around the depth bound (names n0 -> n1 -> ... ), probed; beyond the bound enforce and the query API differ by design
    for L in range(7, 13):
        chain = [[f"n{i}", f"n{i+1}"] for i in range(L)]
        cfg = ec.Config("rbac", adapter=True, watcher=None, initial={"p": [[f"n{L}", "data1", "read"], ["alice", "data2", "read"]], "g": chain + [["alice", "n0"]], "g2": []})
        cfg.tag = {"depth_ok": L + 1 < 10}
        jobs.append((cfg, [("remove", "p", ["nobody", "x", "y"])]))
    # wide hierarchies: many roles reachable within few levels (the depth bound counts levels, not visited roles)
    for width in (9, 10, 11, 14, 20):
        for variant in range(3):
            roles = [f"r{i}" for i in range(width)]
            if variant == 0:
                g = [["alice", r] for r in roles]
            elif variant == 1:
                g = [["alice", "admin"]] + [["admin", r] for r in roles]
            else:
                g = [["alice", r] for r in roles[: width // 2]] + [[roles[0], r] for r in roles[width // 2 :]]
            rng.shuffle(g)
            p = [[roles[-1], "data2", "read"], [roles[0], "data1", "read"], [roles[width // 2], "data1", "read"], ["bob", "data2", "read"]]
            cfg = ec.Config("rbac", adapter=True, watcher=None, initial={"p": p, "g": g, "g2": []})
            cfg.tag = {"depth_ok": True}
            jobs.append((cfg, [("remove", "p", ["nobody", "x", "y"])]))
    # domain variant: implementation cross-checks + implicit roles against the model
    PD = [[s, d, o, "read"] for s in NAMES for d in ("d1", "d2") for o in OBJS]
    GD = [[a, b, d] for a in NAMES for b in NAMES for d in ("d1", "d2")]
    for _ in range(300 if not deep else 3000):
        cfg = ec.Config("dom", adapter=True, watcher=None, initial={"p": rng.sample(PD, rng.randint(1, 4)), "g": rng.sample(GD, rng.randint(1, 6)), "g2": []})
        cfg.tag = {"depth_ok": True}
        jobs.append((cfg, [("remove", "p", ["nobody", "d1", "x", "y"])]))
    # domain policies reached through a management history: the same (user, role) pair held in both domains and revoked
    # in one; a rule arriving twice in one batch and then revoked; batch / filtered revocations; revoked and granted again
    for _ in range(120 if not deep else 1500):
        g = rng.sample(GD, rng.randint(2, 6))
        e = rng.choice(g)
        twin = [e[0], e[1], "d2" if e[2] == "d1" else "d1"]
        if twin not in g and rng.random() < 0.6:
            g.append(twin)
        x = rng.choice([r for r in GD if r not in g])
        cfg = ec.Config("dom", adapter=True, watcher=None, initial={"p": rng.sample(PD, rng.randint(1, 4)), "g": g, "g2": []})
        cfg.tag = {"depth_ok": True}
        ask = ("remove", "p", ["nobody", "d1", "x", "y"])  # a no-op: the questions are asked after every call
        jobs.append((cfg, rng.choice([
            [ask, ("remove", "g", e)],
            [ask, ("remove", "g", e), ("add", "g", e)],
            [ask, ("addmany", "g", [x, x]), ("remove", "g", x)],
            [ask, ("addmany", "g", [x, x]), ("remove", "g", x)],
            [ask, ("removemany", "g", [e])],
            [ask, ("removefiltered", "g", 2, [e[2]])],
            [ask, ("delete_roles_for_user_in_domain", e[0], e[1], e[2])],
        ])))
    for p, g in rng.sample(detour, min(len(detour), 100 if not deep else 1000)):
        cfg = ec.Config("rbac", adapter=True, watcher=None, initial={"p": p, "g": g, "g2": []})
        cfg.tag = {"depth_ok": True}
        e = rng.choice(g)
        other = rng.choice([x for x in GU if x not in g] or [e])
        jobs.append((cfg, rng.choice([[("addmany", "g", [other, other]), ("remove", "g", other)], [("remove", "g", e)], [("add", "g", other + ["x"]), ("add", "g", other + ["y"]), ("remove", "g", other + ["x"])]])))
    # one-level hierarchies (users -> roles only) with several actions: the hypothesis of the resource-centred theorems
    for _ in range(250 if not deep else 2500):
        users, roles = ["alice", "bob"], ["admin", "root"]
        g = [x for x in ([u, r] for u in users for r in roles) if rng.random() < 0.5]
        p = rng.sample([[s, o, a] for s in NAMES for o in OBJS for a in ("read", "write")], rng.randint(1, 5))
        cfg = ec.Config("rbac", adapter=True, watcher=None, initial={"p": p, "g": g, "g2": []})
        cfg.tag = {"depth_ok": True}
        jobs.append((cfg, [("remove", "p", ["nobody", "x", "y"])]))
        gd = [x for x in ([u, r, d] for u in users for r in roles for d in ("d1", "d2")) if rng.random() < 0.4]
        if rng.random() < 0.3:
            gd.append(["admin", "root", rng.choice(["d1", "d2"])])  # a role that is a plain user in the other domain
        if rng.random() < 0.2:
            gd.append([rng.choice(users), "d2", "d1"])  # a role named like a domain
        if rng.random() < 0.2:
            gd.append(["d2", rng.choice(roles), "d1"])  # a user named like a domain
        pd = rng.sample([[s, d, o, a] for s in NAMES + ["d2"] for d in ("d1", "d2") for o in OBJS for a in ("read", "write")], rng.randint(1, 6))
        cfg = ec.Config("dom", adapter=True, watcher=None, initial={"p": pd, "g": gd, "g2": []})
        cfg.tag = {"depth_ok": True}
        jobs.append((cfg, [("remove", "p", ["nobody", "d1", "x", "y"])]))
    # the same policies and histories on AsyncEnforcer (the query API is written a second time there)
    twins = []
    for cfg, hist in rng.sample(jobs, min(len(jobs), 400 if not deep else 5000)):
        if any(op[0] in ("setrm",) for op in hist):
            continue
        c2 = ec.Config(cfg.shape, adapter=True, watcher=None, initial=cfg.initial, is_async=True)
        c2.tag = dict(cfg.tag)
        twins.append((c2, list(hist)))  # a list of its own: the records are keyed by the history object
    return jobs + twins


def run(ctx):
    res = common.Result()
    stages = [False] if not ctx["deep"] else ([True] if ctx["proof_ok"] else [False, True])
    for deep in stages:
        _stage(ctx, res, deep)
        deny_model_stream(ctx, res, deep)
        if res.spec_violations:
            break
    res.rule = (
        "RBAC policies over 4 names (users and roles, incl. self-assignments, cycles, diamonds) x 2 objects: a seeded sample (thorough: all) of the "
        "policies with <= 2 permission and <= 2 grouping rules, random larger ones, chains of length 7-12 around the depth bound, and random domain "
        "policies, plus the same policies reached through a detour (a link removed and re-added; a reload from a store without role assignments; a swapped role manager followed by a grant and a revocation; a rejected reload); for every policy: get_implicit_roles_for_user / get_implicit_permissions_for_user / get_implicit_users_for_permission of every "
        "name compared with the Lean model and with the specification (reachability by an independent bounded BFS), and on the implementation itself: "
        "enforce <-> implicit permission for every request, implicit users = non-role subjects that enforce allows (each once), get_roles/get_users "
        "inverse; added: get_implicit_users_for_resource (rbac) / get_implicit_users_for_resource_by_domain, get_all_roles_by_domain, get_all_roles, "
        "get_permissions_for_user, get_permissions_for_user_in_domain, has_permission_for_user (every rule of the universe), "
        "get_implicit_permissions_for_user(u, dom, filter_policy_dom=True/False), get_roles_for_user_in_domain / get_users_for_role_in_domain, for every "
        "name, object (and a prefix of the objects, an unknown object), domain (d1, d2 and the unused d3), each compared three ways (implementation, Lean "
        "model, independent specification: enforce per candidate subject and action / filter of the stored rules / bounded BFS), on one-level "
        "hierarchies with two actions, roles and users named like a domain, and on 400 of the histories repeated on AsyncEnforcer; "
        "non-trivial/distinct = distinct policy"
    )
    res.exhaustive = ctx["deep"]
    return res



DENY_TEXT = """[request_definition]
r = sub, obj, act
[policy_definition]
p = sub, obj, act, eft
[role_definition]
g = _, _
[policy_effect]
e = some(where (p.eft == allow)) && !some(where (p.eft == deny))
[matchers]
m = g(r.sub, p.sub) && r.obj == p.obj && r.act == p.act
"""


def _deny_case(args):
    """a model with an effect column (allow-and-no-deny): implicit users of a permission on the real enforcers"""
    is_async, prules, grules = args
    casbin = common.use_repo()
    import asyncio

    E = casbin.AsyncEnforcer if is_async else casbin.Enforcer
    e = E(E.new_model(text=DENY_TEXT))
    run = (lambda c: asyncio.new_event_loop().run_until_complete(c)) if is_async else (lambda x: x)
    for r in prules:
        run(e.add_policy(*r))
    for r in grules:
        run(e.add_grouping_policy(*r))
    out = {}
    for obj in ("data1", "data2"):
        try:
            got = list(run(e.get_implicit_users_for_permission(obj, "read")) if is_async else e.get_implicit_users_for_permission(obj, "read"))
        except Exception as ex:  # noqa
            got = ["!" + type(ex).__name__]
        roles = {r[1] for r in grules}
        cands = sorted(({r[0] for r in prules} | {r[0] for r in grules}) - roles)
        out[obj] = (got, [u for u in cands if e.enforce(u, obj, "read")])
    return out


def deny_model_stream(ctx, res, deep):
    """C15 on a model whose rules carry an effect: the implicit users of a permission are exactly the non-role subjects
    enforce allows - a subject with its own DENY rule on the permission is not among them"""
    rng = ctx["rng"]
    names, roles = ["alice", "bob", "carol"], ["admin", "staff"]
    for _ in range(120 if not deep else 1200):
        pr = list(dict.fromkeys((rng.choice(names + roles), rng.choice(["data1", "data2"]), "read", rng.choice(["allow", "allow", "deny"])) for _ in range(rng.randint(1, 4))))
        gr = list(dict.fromkeys((rng.choice(names + roles[1:]), rng.choice(roles)) for _ in range(rng.randint(0, 3))))
        gr = [g for g in gr if g[0] != g[1]]
        for is_async in (False, True) if rng.random() < 0.3 else (False,):
            out = _deny_case((is_async, pr, gr))
            res.evaluations += 2
            res.count("stream:deny-model:" + ("async" if is_async else "sync"))
            res.nontrivial.add(hash(("deny", repr(pr), repr(gr))))
            for obj, (got, exp) in out.items():
                if sorted(got) != exp:
                    res.violation({"signature": f"C15:deny-model:implicitusers{':async' if is_async else ''}", "replay_kind": "deny-model", "async": is_async, "p": [list(r) for r in pr], "g": [list(r) for r in gr], "object": obj,
                                   "expected": exp, "observed": got, "model_text": DENY_TEXT,
                                   "what": f"allow-and-no-deny model{' (AsyncEnforcer)' if is_async else ''}, rules {pr}, assignments {gr}: get_implicit_users_for_permission({obj}, read) = {got}; the non-role subjects enforce allows are {exp}"})
                    return


def _stage(ctx, res, deep):
    jobs = gen(ctx, deep)
    recs = {}

    def judge(r, cfg, hist, i, op, rec, model, case, queries):
        recs[id(hist)] = (rec, case)  # the state after the last call of the history is the one the Lean side is asked about
        for kind, text in rec.get("extra", {}).get("problems", []):
            r.violation({"signature": f"C15:{cfg.shape}:{kind}", "what": f"{cfg.shape} policy p={rec['pol']['p']} g={rec['pol']['g']}: {text}", "case": case, "expected": "agreement", "observed": text, "model_text": ec.TEXT[cfg.shape]})
        return True

    ec.run_configs(res, jobs, judge, fresh_oracle=False, extra="c15")
    # the Lean side: model and specification of the query API
    lines = []
    spans = []
    for cfg, hist in jobs:
        qs = lean_queries(cfg)
        ops = [ll for op in hist for ll in ec.lean_lines(op)]
        start = len(lines) + 2 + len(ops)
        lines += ["#reset", cfg.init_line()] + ops + [q_line(q) for q in qs]
        spans.append((start, qs))
    answers = run_driver("enf", lines)
    for (cfg, hist), (start, qs) in zip(jobs, spans):
        if id(hist) not in recs:
            continue
        rec, case = recs[id(hist)]
        flat = {}
        for k, q in enumerate(qs):
            if q[0] == "flat":
                flat[q[1]] = parse_ms(answers[start + k])[0] == "T"
        res.count(f"{cfg.shape}:{'async' if cfg.is_async else 'sync'}:{'one-level' if all(flat.values()) else 'nested or unsynced'}")
        for k, q in enumerate(qs):
            if q[0] == "flat":
                continue
            model, spec = parse_ms(answers[start + k])
            impl = impl_answer(rec, q)
            res.evaluations += 1
            if model == "!fuel":
                raise common.Infra("implicitLoop ran out of fuel")
            where = f"{cfg.shape}{' (AsyncEnforcer)' if cfg.is_async else ''} policy p={rec['pol']['p']} g={rec['pol']['g']}"
            if q[0] in ("usersforresource", "usersforresourcedom") and not flat[q[2] if q[0] == "usersforresourcedom" else None]:
                # outside the hypotheses of the _partial theorems (a role that is given a role): the loop itself is compared
                # exactly; the disagreement with enforce is the open finding F31
                if impl != model:
                    res.disagree({"what": f"query {q}: impl {impl} vs model {model}", "case": case})
                elif impl != spec:
                    # not judged: C15's statement does not say what this view returns on nested hierarchies (it is only
                    # named among the observation points); recorded as an observation in DESIGN.md 11.3
                    res.count(f"observation:{q[0]}:{NESTED}:differs-from-enforce")
                continue
            if model != spec:
                res.model_vs_spec.append({"case": case, "query": q, "model": model, "spec": spec})
            if impl != model:
                res.disagree({"what": f"query {q}: impl {impl} vs model {model}", "case": case})
            if impl != spec:
                res.violation({"signature": f"C15:{cfg.shape}:{q[0]}", "what": f"{where}: {q} answers {impl}, the specification ({SPEC_WORDS.get(q[0], 'reachability over the assignments')}) gives {spec}", "case": case, "expected": spec, "observed": impl, "model_text": ec.TEXT[cfg.shape]})


SPEC_WORDS = {
    "usersforresource": "the non-role subjects that enforce allows, per action",
    "usersforresourcedom": "the subjects that are not a role of the domain and that enforce allows in that domain, per action",
    "rolesbydomain": "the roles given to some subject in that domain",
    "allroles": "the roles given to some subject",
    "permsfor": "the stored rules of that subject, in order",
    "permsindom": "the stored rules of that subject in that domain, in order",
    "hasperm": "membership of the stored rules",
    "implicitpermsdom": "the stored rules of the user and of every role reachable in that domain",
    "roles": "the assignments recorded for the domain",
    "users": "the assignments recorded for the domain",
}


def replay(obj):
    if obj.get("replay_kind") == "deny-model":
        got, exp = _deny_case((obj.get("async", False), [tuple(r) for r in obj["p"]], [tuple(r) for r in obj["g"]]))[obj["object"]]
        return sorted(got) != exp
    c = obj["case"]["config"]
    cfg = ec.Config(c["shape"], adapter=c["adapter"], watcher=c["watcher"], initial=c["initial"], is_async=c.get("async", False))
    cfg.tag = {"depth_ok": True}
    hist = [tuple(o) for o in obj["case"]["history"]]
    out = ec.run_history(cfg, hist, [], fresh_oracle=False, extra="c15")
    if out[-1].get("extra", {}).get("problems"):
        return True
    if "expected" in obj and obj["expected"] != "agreement":
        qs = lean_queries(cfg)
        for q in qs:
            if str(q) in obj.get("what", "") and impl_answer(out[-1], q) != obj["expected"]:
                return True
    return False
