"""C14 — pattern role assignments grant their roles to exactly the names that match"""
import itertools

import common
import rm_corr

TRANSLATORS = []
LEVEL = "proof"
ASSUMPTIONS = [
    "the matching function is a total deterministic predicate matches(name, pattern); the model receives it as its truth table over the names of the history (computed with the real key_match / key_match2 / regex functions, exceptions = no match)",
    "scope of the theorems and of the judged stream: patterns on the user / resource side of an assignment (no other name matches a role), matching function transitive over the names in use (key_match is transitive; key_match2 is on the universes used); outside it the first-sight copy of derived grants is order dependent (open finding F22, separate stream)",
    "tie: differential execution of RoleManager / DomainManager with registered matching functions against Model/RoleManager.lean on exhaustive small scopes + seeded histories; the Enforcer is probed end to end (g2(r.obj,p.obj) with add_named_matching_func, g(r.sub,p.sub,r.dom) with add_named_domain_matching_func)",
]
TRUSTED_EXTRA = []

PATS = ["/b/*", "/b/:id", "/b/1"]
ROLES = ["g1", "g2"]
PROBE = ["/b/1", "/c/1", "/b/:id"]


def final_probe(names, roles, dom=()):
    ops = [["has", n, r, *dom] for n in names for r in roles]
    ops += [["roles", n, *dom] for n in names]
    return ops


def gen_pattern_histories(maxlen, late):
    """all histories over 2 patterns + 1 concrete user x 2 roles (+ a role chain g1 -> g2), with first-sight probes of
    a matching name, a non-matching name and a pattern interleaved; key_match2"""
    links = [(u, r) for u in PATS for r in ROLES] + [("g1", "g2")]
    alpha = [["add", *l] for l in links] + [["del", *l] for l in links] + [("Q", n) for n in PROBE]
    for n in range(1, maxlen + 1):
        for seq in itertools.product(alpha, repeat=n):
            if n == 4 and not any(o[0] == "del" for o in seq) and not any(o[0] == "Q" for o in seq):
                continue  # length 4 add-only without an interleaved query: covered by the final probe of length <= 3 + insertion order
            ops = []
            for o in seq:
                if o[0] == "Q":
                    ops += [["has", o[1], "g1"], ["has", o[1], "g2"]]
                else:
                    ops.append(o)
            tail = final_probe(["/b/1", "/c/1", "/b/:id", "/b/*", "/b/2", "g1"], ROLES)
            if late:
                yield dict(kind="plain", L=10, ops=ops + [["matchfn", "key_match2"]] + tail, stream="pattern-late", scope="in")
            else:
                yield dict(kind="plain", L=10, ops=[["matchfn", "key_match2"]] + ops + tail, stream="pattern", scope="in")


DOMS = ["d1", "d2", "*"]


def gen_domain_pattern_histories(maxlen, late=False):
    """all histories over a chain a -> r -> s recorded in {d1, d2, *}; key_match as domain matching function
    (late: registered after the history, when caches built without it exist)"""
    links = [("a", "r"), ("r", "s")]
    alpha = [["add", *l, d] for l in links for d in DOMS] + [["del", *l, d] for l in links for d in DOMS] + [("Q", d) for d in DOMS]
    for n in range(1, maxlen + 1):
        for seq in itertools.product(alpha, repeat=n):
            if n == 4 and not any(o[0] == "Q" for o in seq[:3]):
                continue  # without an earlier query no cache exists: same as the final probe of a shorter history
            ops = []
            for o in seq:
                if o[0] == "Q":
                    ops += [["has", "a", "s", o[1]], ["has", "a", "r", o[1]]]
                else:
                    ops.append(o)
            tail = []
            for d in DOMS + ["d3"]:
                tail += [["has", "a", "r", d], ["has", "a", "s", d], ["roles", "a", d], ["users", "s", d]]
            if late:
                yield dict(kind="domain", L=10, ops=ops + [["dmatchfn", "key_match"]] + tail, stream="domain-pattern-late", scope="in")
            else:
                yield dict(kind="domain", L=10, ops=[["dmatchfn", "key_match"]] + ops + tail, stream="domain-pattern", scope="in")


UNIVERSES = [
    # (function, users, roles, probes)  — transitive on these names, roles matched by nothing else
    ("key_match", ["/b/*", "/b/c/*", "/b/1", "/b/c/1", "*"], ["g1", "g2", "g3"], ["/b/1", "/b/c/1", "/c/1", "/b/*", "/b/c/*", "/b/2", "g1"]),
    ("key_match2", ["/b/:id", "/b/*", "/b/1", "/c/:x"], ["g1", "g2", "g3"], ["/b/1", "/b/2", "/c/1", "/b/:id", "/d", "g2"]),
    ("regex", ["u\\d+", "u1", "u[12]", "v.*"], ["g1", "g2", "g3"], ["u1", "u2", "u3", "v", "w", "g1"]),
    ("raising", ["/b/*", "/b/1"], ["g1", "g2"], ["/b/1", "/b/*", "g1"]),
    ("raising_one", ["/b/*", "bad(", "/b/1", "/b/c/1"], ["g1", "g2"], ["/b/1", "/b/c/1", "/b/*", "bad(", "g1"]),
    ("raising_one", ["/b/*", "bad(", "/b/1", "/b/c/1"], ["g1", "g2"], ["/b/1", "/b/c/1", "/b/*", "bad(", "g1"]),
    ("eq", ["a", "b"], ["g1", "g2"], ["a", "b", "g1"]),
    ("prefix_star", ["/b/*", "/b/1", "/b/2", "/c/1"], ["g1", "g2"], ["/b/1", "/b/2", "/c/1", "/b/*", "g1"]),
    ("prefix_star", ["/b/*", "/b/1", "/b/2", "/c/1"], ["g1", "g2"], ["/b/1", "/b/2", "/c/1", "/b/*", "g1"]),
]


def gen_random(rng, n, maxlen):
    for _ in range(n):
        fname, users, roles, probes = rng.choice(UNIVERSES)
        kind = rng.choice(["plain", "plain", "plain", "domain"])
        doms = ["d1", "*", "d2"] if kind == "domain" else [None]
        ops = []
        reg = rng.random()
        if reg < 0.7:
            ops.append(["matchfn", fname])
        dlate_at = -1
        if kind == "domain":
            if rng.random() < 0.75:
                ops.append(["dmatchfn", "key_match"])
            else:
                dlate_at = rng.randint(1, maxlen)
        late_at = rng.randint(1, maxlen) if reg >= 0.7 else -1
        present = []
        steps = rng.randint(2, maxlen)
        for i in range(steps):
            if i == late_at:
                ops.append(["matchfn", fname])
            if i == dlate_at:
                ops.append(["dmatchfn", "key_match"])
            d = rng.choice(doms)
            dom = [d] if d is not None else []
            x = rng.random()
            if x < 0.40:
                u = rng.choice(users + roles[:2])
                r = rng.choice(roles)
                present.append((u, r, d))
                ops.append(["add", u, r, *dom])
            elif x < 0.62:
                l = rng.choice(present) if present and rng.random() < 0.85 else (rng.choice(users), rng.choice(roles), d)
                ops.append(["del", l[0], l[1], *([l[2]] if l[2] is not None else [])])
            elif x < 0.64:
                ops.append(["clear"])
            elif x < 0.9:
                ops.append(["has", rng.choice(probes), rng.choice(roles), *dom])
            else:
                ops.append(["roles", rng.choice(probes), *dom])
        if late_at >= steps:
            ops.append(["matchfn", fname])
        if dlate_at >= steps:
            ops.append(["dmatchfn", "key_match"])
        tail = []
        for d in doms:
            dom = [d] if d is not None else []
            tail += [["has", p, r, *dom] for p in probes for r in roles[:2]]
        yield dict(kind=kind, L=rng.choice([10, 10, 3, 2]), ops=ops + tail, stream="random", scope="in")


BOTH_LINKS = [("/b/*", "g1"), ("/b/1", "g1"), ("g1", "g2")]
BOTH_DOMS = ["d1", "*"]


def gen_both_histories(maxlen):
    """DomainManager with a role-name matching function AND a domain matching function at the same time: all histories
    over {/b/* -> g1, /b/1 -> g1, g1 -> g2} recorded in {d1, *}, per-domain first-sight queries (which fill the
    per-domain caches and make the cached managers copy pattern roles), RE-registration of either function in the
    middle (name function key_match -> key_match2: every cached manager is rebuilt; domain function key_match ->
    full-match regex, under which `*` is an invalid pattern = matches nothing: every cache is dropped), x 4 orders of
    the first registration (both first / name function last / domain function last / both last, over existing caches)"""
    alpha = [["add", *l, d] for l in BOTH_LINKS for d in BOTH_DOMS] + [["del", *l, d] for l in BOTH_LINKS for d in BOTH_DOMS]
    alpha += [("Q", "d1"), ("Q", "d2"), ("RM",), ("RD",)]
    tail = []
    for d in ["d1", "d2", "*"]:
        tail += [["has", "/b/1", "g1", d], ["has", "/b/2", "g2", d], ["has", "/c/1", "g1", d], ["roles", "/b/1", d], ["roles", "/b/2", d], ["users", "g1", d]]
    M, D = ["matchfn", "key_match"], ["dmatchfn", "key_match"]
    for n in range(1, maxlen + 1):
        for seq in itertools.product(alpha, repeat=n):
            ops = []
            for o in seq:
                if o[0] == "Q":
                    ops += [["has", "/b/1", "g2", o[1]], ["has", "/b/2", "g1", o[1]]]
                elif o[0] == "RM":
                    ops.append(["matchfn", "key_match2"])
                elif o[0] == "RD":
                    ops.append(["dmatchfn", "regex"])
                else:
                    ops.append(o)
            for v, full in enumerate(([M, D] + ops, [D] + ops + [M], [M] + ops + [D], ops + [D, M])):
                if v and n == maxlen and not any(o[0] == "Q" for o in seq):
                    continue  # late registration over no cache: the same as registration first
                yield dict(kind="domain", L=10, ops=full + tail, stream="both-functions", scope="in")


NONREFL = [
    # (domain function, domains, probe domains): the function does not relate every domain to itself
    ("regex", ["d(1)", "d.", "dx"], ["d(1)", "dx", "d."]),
    ("prefix_star", ["d1", "d*"], ["d1", "d2", "d*"]),
]


def gen_nonreflexive_domain(maxlen):
    """a domain matching function under which a domain does not match itself (regex_match on `d(1)`, a prefix function on
    a concrete domain): the cached manager of the very domain a link is added to / deleted from must follow (F36)"""
    for fname, doms, probes in NONREFL:
        alpha = [["add", "a", "r", d] for d in doms] + [["del", "a", "r", d] for d in doms] + [("Q", d) for d in probes[:2]]
        tail = [["has", "a", "r", d] for d in probes] + [["roles", "a", d] for d in probes]
        for n in range(1, maxlen + 1):
            for seq in itertools.product(alpha, repeat=n):
                ops = [["has", "a", "r", o[1]] if o[0] == "Q" else o for o in seq]
                yield dict(kind="domain", L=10, ops=[["dmatchfn", fname]] + ops + tail, stream="domain-nonreflexive", scope="in")
                if n < maxlen:
                    yield dict(kind="domain", L=10, ops=ops + [["dmatchfn", fname]] + tail, stream="domain-nonreflexive", scope="in")


DOMFNS = ["key_match", "key_match", "regex", "prefix_star", "eq"]
RDOMS = ["d1", "d2", "*", "d.", "d(1)", "d*"]


def gen_both_random(rng, n, maxlen):
    """seeded histories of a DomainManager under a name function and a domain function, both (re-)registered at random
    points (possibly changed: the name function to equality and back, the domain function among key_match / regex /
    prefix / equality), over several user patterns, role chains and domain patterns"""
    for _ in range(n):
        fname, users, roles, probes = rng.choice(UNIVERSES)
        doms = rng.sample(RDOMS, 3)
        ops = []
        present = []
        steps = rng.randint(3, maxlen)
        regs = sorted(rng.randint(0, steps) for _ in range(rng.randint(2, 4)))
        kinds = ["M", "D"] + [rng.choice("MD") for _ in regs[2:]]
        rng.shuffle(kinds)
        for i in range(steps + 1):
            for at, k in zip(regs, kinds):
                if at == i:
                    if k == "M":
                        ops.append(["matchfn", fname if rng.random() < 0.8 else "eq"])
                    else:
                        ops.append(["dmatchfn", rng.choice(DOMFNS)])
            if i == steps:
                break
            d = rng.choice(doms)
            x = rng.random()
            if x < 0.40:
                u = rng.choice(users + roles[:2])
                r = rng.choice(roles)
                present.append((u, r, d))
                ops.append(["add", u, r, d])
            elif x < 0.60:
                l = rng.choice(present) if present and rng.random() < 0.85 else (rng.choice(users), rng.choice(roles), d)
                ops.append(["del", *l])
            elif x < 0.62:
                ops.append(["clear"])
            elif x < 0.88:
                ops.append(["has", rng.choice(probes), rng.choice(roles), rng.choice(doms + ["d3"])])
            else:
                ops.append([rng.choice(["roles", "roles", "users"]), rng.choice(probes), rng.choice(doms)])
        tail = []
        for d in doms + ["d3"]:
            tail += [["has", p, r, d] for p in probes for r in roles[:2]]
            tail += [["roles", p, d] for p in probes[:3]]
        yield dict(kind="domain", L=rng.choice([10, 10, 3, 2]), ops=ops + tail, stream="both-random", scope="in")


RS_LINKS = [("bob", "/g/*"), ("al", "/g/*"), ("bob", "/g/x1"), ("/g/x1", "top")]
RS_Q = [("bob", "/g/x1"), ("al", "top"), ("al", "/g/x1")]
RS_TAIL = [["has", u, x] for u in ["bob", "al"] for x in ["/g/x1", "/g/*", "top"]] + [["has", "/g/x1", "top"]]


def gen_role_side(maxlen):
    """pattern on the ROLE side of an assignment (g, bob, /g/*; key_match): a concrete name matching the role pattern is
    materialised by a query before / after the assignment; the assignment is revoked; a direct assignment to the same
    name and a second holder of the pattern overlap with it (F35). ONE concrete member of the pattern only: with two, the
    later one inherits the earlier one (open observation, outside C14's user-side scope)."""
    alpha = [["add", *l] for l in RS_LINKS] + [["del", *l] for l in RS_LINKS] + [["has", *q] for q in RS_Q]
    for n in range(1, maxlen + 1):
        for seq in itertools.product(alpha, repeat=n):
            yield dict(kind="plain", L=10, ops=[["matchfn", "key_match"]] + [list(o) for o in seq] + RS_TAIL, stream="role-side-revocation", scope="in", nospec=True)


_RS = {}


def _rs_new():
    if not _RS:
        common.use_repo()
        from casbin import util
        from casbin.rbac.default_role_manager import role_manager as rmmod

        _RS["cls"], _RS["key_match"] = rmmod.RoleManager, util.key_match
    return _RS["cls"](10)


def _rs_fresh(force):
    rm = _rs_new()
    rm.add_matching_func(_RS["key_match"])
    for l in force:
        rm.add_link(*l)
    return rm


def _rs_run(ops):
    """first has_link answer that differs from a FRESH manager holding the assignments in force: (index, got, expected)"""
    rm = _rs_new()
    force = []
    n = 0
    for i, op in enumerate(ops):
        try:
            if op[0] == "matchfn":
                rm.add_matching_func(_RS[op[1]])
            elif op[0] == "add":
                rm.add_link(op[1], op[2])
                if tuple(op[1:]) not in force:
                    force.append(tuple(op[1:]))
            elif op[0] == "del":
                rm.delete_link(op[1], op[2])
                if tuple(op[1:]) in force:
                    force.remove(tuple(op[1:]))
            else:
                n += 1
                got, exp = rm.has_link(op[1], op[2]), _rs_fresh(force).has_link(op[1], op[2])
                if got != exp:
                    return (i, "T" if got else "F", "T" if exp else "F"), n
        except Exception as ex:  # noqa
            return (i, rm_corr.fmt_exc(ex), "ok"), n
    return None, n


def _rs_chunk(hs):
    out = []
    n = 0
    for h in hs:
        bad, k = _rs_run(h["ops"])
        n += k
        if bad:
            out.append((h, bad))
    return out, n


def role_side_revocation(ctx, res, hs):
    """judged by the fresh-manager oracle (C04's statement at role-manager level): after any of these histories every
    has_link answer equals that of a new RoleManager holding the assignments in force"""
    import multiprocessing

    chunks = [hs[i : i + 1500] for i in range(0, len(hs), 1500)]
    with multiprocessing.get_context("fork").Pool(12) as pool:
        outs = pool.map(_rs_chunk, chunks, chunksize=1)
    for bads, n in outs:
        res.evaluations += n
        res.count("stream:role-side-revocation-oracle", n)
        for h, (i, got, exp) in bads:
            if res._per_sig.get("C14:plain:role-side-revocation:has", 0) >= 3:
                res.n_spec += 1
                continue
            ops = h["ops"][: i + 1]
            j = 1
            while j < len(ops) - 1:  # greedy shrinking
                cand = ops[:j] + ops[j + 1 :]
                b, _ = _rs_run(cand)
                if b and b[0] == len(cand) - 1:
                    ops = cand
                else:
                    j += 1
            b, _ = _rs_run(ops)
            if b:
                got, exp = b[1], b[2]
            res.violation(
                {
                    "signature": "C14:plain:role-side-revocation:has",
                    "what": f"RoleManager under key_match with the pattern on the role side: after {ops[:-1]} has_link{tuple(ops[-1][1:])} = {got}; a fresh manager holding the assignments in force answers {exp}",
                    "rs_ops": ops,
                    "observed": got,
                    "expected": exp,
                    "replay_kind": "roleside",
                }
            )
    return res


def replay_roleside(obj):
    b, _ = _rs_run(obj["rs_ops"])
    return b is not None


def gen_tie_only(rng, n):
    """outside the property's scope, compared with the Lean model only: patterns on the role side, conditional managers
    with a matching function, names matching each other in both positions"""
    names = ["/b/*", "/b/:id", "/b/1", "/b/1/2", "g1", "*", "a"]
    for _ in range(n):
        kind = rng.choice(["plain", "cond", "domain", "conddomain"])
        dom = ["d1"] if kind in ("domain", "conddomain") else []
        ops = [["matchfn", rng.choice(["key_match", "key_match2"])]] if rng.random() < 0.8 else []
        for i in range(rng.randint(2, 9)):
            x = rng.random()
            if x < 0.45:
                ops.append(["add", rng.choice(names), rng.choice(names), *dom])
            elif x < 0.6:
                ops.append(["del", rng.choice(names), rng.choice(names), *dom])
            elif x < 0.65:
                ops.append(["matchfn", rng.choice(["key_match", "key_match2"])])
            elif x < 0.72 and kind in ("cond", "conddomain"):
                ops.append(["condfn", rng.choice(names), rng.choice(names), dom[0] if dom else "", rng.choice("TF")])
            elif x < 0.9:
                ops.append(["has", rng.choice(names), rng.choice(names), *dom])
            else:
                ops.append([rng.choice(["roles", "users"]), rng.choice(names), *dom])
        ops += [["has", u, r, *dom] for u in names[:5] for r in names[:5]]
        yield dict(kind=kind, L=rng.choice([10, 2]), ops=ops, stream="tie-only", scope="in", nospec=True)


def gen_f22():
    """OUTSIDE the hypotheses (open finding F22): key_match2 is not transitive on {/b/1/2, /b/*, /b/:id}; a name seen for
    the first time copies the grants a matching *pattern node* obtained by itself matching another pattern"""
    links = [("/b/:id", "g1"), ("/b/*", "g2")]
    alpha = [["add", *l] for l in links] + [("Q", n) for n in ["/b/1/2", "/b/*"]]
    for n in range(1, 5):
        for seq in itertools.product(alpha, repeat=n):
            ops = []
            for o in seq:
                if o[0] == "Q":
                    ops += [["has", o[1], "g1"]]
                else:
                    ops.append(o)
            yield dict(kind="plain", L=10, ops=[["matchfn", "key_match2"]] + ops + [["has", "/b/1/2", "g1"], ["has", "/b/1/2", "g2"]], stream="outside-F22", scope="F22-nontransitive-first-sight")


# ------------------------------------------------------------------ Enforcer level

RES_ROLE = """[request_definition]
r = sub, obj, act
[policy_definition]
p = sub, obj, act
[role_definition]
g = _, _
g2 = _, _
[policy_effect]
e = some(where (p.eft == allow))
[matchers]
m = g(r.sub, p.sub) && g2(r.obj, p.obj) && r.act == p.act
"""
DOM = """[request_definition]
r = sub, dom, obj, act
[policy_definition]
p = sub, dom, obj, act
[role_definition]
g = _, _, _
[policy_effect]
e = some(where (p.eft == allow))
[matchers]
m = g(r.sub, p.sub, r.dom) && r.obj == p.obj && r.act == p.act
"""


def _enf(kind, filtered=False):
    """filtered: the permission rules come in through load_filtered_policy of a FilteredFileAdapter AFTER the matching
    function was registered (the filter keeps all of them): the registered functions must survive that load"""
    casbin = common.use_repo()
    from casbin import util

    prules = [["alice", grp, "read"] for grp in ROLES] if kind == "g2" else [[x, "any", "res_" + x, "read"] for x in ["a", "r", "s"]]
    if kind == "both":
        # g(r.sub, p.sub, r.dom); the two functions are registered by steps of the history (`reg`)
        e = casbin.Enforcer(casbin.Enforcer.new_model(text=DOM))
        for r in prules:
            e.add_policy(*r)
        return e
    text = RES_ROLE if kind == "g2" else DOM
    if filtered is True:
        import tempfile

        from casbin.persist.adapters import FilteredFileAdapter
        from casbin.persist.adapters.filtered_file_adapter import Filter

        f = tempfile.NamedTemporaryFile("w", prefix="c14f_", suffix=".csv", delete=False)
        f.write("\n".join(", ".join(["p"] + r) for r in prules) + "\n")
        f.close()
        e = casbin.Enforcer(casbin.Enforcer.new_model(text=text), FilteredFileAdapter(f.name))
        e.enable_auto_save(False)
        e._verif_tmp = f.name
    else:
        e = casbin.Enforcer(casbin.Enforcer.new_model(text=text))
    if filtered == "swapped":
        # the role manager is replaced by a new one BEFORE the registration; one build_role_links binds it
        from casbin.rbac.default_role_manager import DomainManager, RoleManager

        if kind == "g2":
            e.set_named_role_manager("g2", RoleManager(10))
        else:
            e.set_role_manager(DomainManager(10))
    if kind == "g2":
        e.add_named_matching_func("g2", util.key_match2)
    else:
        e.add_named_domain_matching_func("g", util.key_match)
    if filtered == "swapped":
        e.build_role_links()
        filtered = False
    if filtered:
        flt = Filter()
        flt.P, flt.G = (["alice"], []) if kind == "g2" else (["", "any"], [])
        e.load_filtered_policy(flt)
    else:
        for r in prules:
            e.add_policy(*r)
    return e


def _enf_done(e):
    import os

    p = getattr(e, "_verif_tmp", None)
    if p and os.path.exists(p):
        os.unlink(p)


def _enf_step(e, kind, k, l):
    """None = management call went through; otherwise the probe's answer or the exception"""
    try:
        if k == "reg":
            from casbin import util

            ok = e.add_named_matching_func("g", util.key_match2) if l[0] == "M" else e.add_named_domain_matching_func("g", util.key_match)
            return None if ok is True else f"!registration returned {ok!r}"
        if k == "add":
            (e.add_named_grouping_policy("g2", *l) if kind == "g2" else e.add_grouping_policy(*l))
            return None
        if k == "remove":
            (e.remove_named_grouping_policy("g2", *l) if kind == "g2" else e.remove_grouping_policy(*l))
            return None
        if kind == "g2":
            # one rule (alice, <group>, read) per group: the explanation tells which group let the object in
            got = e.enforce_ex("alice", l[0], "read")
            got = bool(got[0] and got[1][1] == l[1])
            if not got:
                # another group's rule may have decided first: ask the registered g2 directly
                got = e.get_named_role_manager("g2").has_link(l[0], l[1])
        else:
            got = e.enforce(l[0], l[2], "res_" + l[1], "read")
        return "T" if got is True else "F" if got is False else repr(got)
    except Exception as ex:  # noqa
        return rm_corr.fmt_exc(ex)


def enforce_probe(ctx, res, n):
    rng = ctx["rng"]
    cases = []
    for it in range(n):
        kind = ("g2", "dom", "both")[it % 3]
        hist = []
        present = set()
        steps = rng.randint(1, 7)
        regat = {}
        if kind == "both":
            # registration order varied: before the links, between them, after enforce calls filled the caches; sometimes repeated
            for f in ["M", "D"] + (["D"] if rng.random() < 0.3 else []) + (["M"] if rng.random() < 0.3 else []):
                regat.setdefault(rng.choice([0, 0, rng.randint(0, steps), steps]), []).append(f)
        for si in range(steps):
            for f in regat.get(si, []):
                hist.append(("reg", (f,)))
            if kind == "g2":
                l = (rng.choice(PATS + ["/c/1"]), rng.choice(ROLES))
            elif kind == "both":
                l = rng.choice([("/u/*", "r"), ("/u/1", "r"), ("/u/:id", "s"), ("r", "s"), ("a", "r")]) + (rng.choice(DOMS),)
            else:
                l = (rng.choice(["a", "r"]), rng.choice(["r", "s"]), rng.choice(DOMS))
            if l in present:
                if rng.random() < 0.7:
                    present.discard(l)
                    hist.append(("remove", l))
            else:
                present.add(l)
                hist.append(("add", l))
            if kind == "g2":
                hist.append(("enforce", (rng.choice(["/b/1", "/c/1", "/b/2"]), rng.choice(ROLES))))
            elif kind == "both":
                hist.append(("enforce", (rng.choice(["/u/1", "/u/2", "a", "/v/1"]), rng.choice(["r", "s"]), rng.choice(DOMS + ["d3"]))))
            else:
                hist.append(("enforce", (rng.choice(["a", "r"]), rng.choice(["r", "s"]), rng.choice(DOMS))))
        for f in regat.get(steps, []):
            hist.append(("reg", (f,)))
        if kind == "g2":
            hist += [("enforce", (o, g)) for o in ["/b/1", "/b/2", "/c/1", "/b/:id"] for g in ROLES]
        elif kind == "both":
            hist += [("enforce", (u, x, d)) for u in ["/u/1", "/u/2", "a", "/v/1"] for x in ["r", "s"] for d in DOMS + ["d3"]]
        else:
            hist += [("enforce", (u, x, d)) for u in ["a", "r"] for x in ["r", "s"] for d in DOMS + ["d3"]]
        cases.append((kind, hist))
    lines = []
    for kind, hist in cases:
        uni = sorted({x for k, l in hist if k != "reg" for x in l} | {""})
        lines += ["#reset", "new\t" + ("plain" if kind == "g2" else "domain") + "\t10"]
        if kind != "both":
            lines.append(("matchfn\t" + rm_corr.pairs_field("key_match2", uni)) if kind == "g2" else ("dmatchfn\t" + rm_corr.pairs_field("key_match", uni)))
        for k, l in hist:
            if k == "reg":
                lines.append(("matchfn\t" + rm_corr.pairs_field("key_match2", uni)) if l[0] == "M" else ("dmatchfn\t" + rm_corr.pairs_field("key_match", uni)))
            else:
                lines.append("\t".join([{"add": "add", "remove": "del", "enforce": "has"}[k]] + [common.enc_str(x) for x in l]))
    answers = rm_corr.run_driver("rm", lines)
    pos = 0
    for ci, (kind, hist) in enumerate(cases):
        filtered = False if kind == "both" else [False, True, "swapped"][(ci // 3) % 3]
        e = _enf(kind, filtered)
        hdr = 2 if kind == "both" else 3
        ans = answers[pos + hdr : pos + hdr + len(hist)]
        pos += hdr + len(hist)
        for i, ((k, l), a) in enumerate(zip(hist, ans)):
            res.evaluations += 1
            res.count("stream:enforce-" + kind)
            got = _enf_step(e, kind, k, l)
            if got is None:
                continue
            _, spec = rm_corr.parse_ms(a)
            if k != "enforce":
                spec = "ok"  # a management call on a rule that is absent (add) / present (remove) must go through
            if got == "T":
                res.nontrivial.add(hash(("enf", kind, repr(hist[: i + 1]))))
            if spec != "?" and got != spec:
                res.violation(
                    {
                        "signature": f"C14:enforce:{kind}",
                        "what": f"Enforcer ({'g2(r.obj,p.obj) with key_match2' if kind == 'g2' else 'g(r.sub,p.sub,r.dom) with key_match2 on names and key_match on domains, registered where the history says' if kind == 'both' else 'g(r.sub,p.sub,r.dom) with key_match on domains'}{', role manager replaced before the registration' if filtered == 'swapped' else ', permission rules loaded by load_filtered_policy after the registration' if filtered else ''}): probe {l} = {got} after {hist[:i]}; the effective assignments give {spec}",
                        "enf_kind": kind,
                        "enf_filtered": filtered,
                        "enf_history": [[k2, list(l2)] for k2, l2 in hist[: i + 1]],
                        "observed": got,
                        "expected": spec,
                        "replay_kind": "enforce",
                    }
                )
        _enf_done(e)
    return res


def replay_enforce(obj):
    e = _enf(obj["enf_kind"], obj.get("enf_filtered", False))
    got = None
    try:
        for k, l in obj["enf_history"]:
            r = _enf_step(e, obj["enf_kind"], k, tuple(l))
            if r is not None:
                got = r
    finally:
        _enf_done(e)
    return got != obj["expected"]


def run(ctx):
    res = common.Result()
    rng = ctx["rng"]
    stages = ["quick"] if not ctx["deep"] else (["thorough"] if ctx["proof_ok"] else ["quick", "thorough"])
    for stage in stages:
        hs = list(gen_pattern_histories(4, False)) + list(gen_pattern_histories(3, True))
        hs += list(gen_domain_pattern_histories(4)) + list(gen_domain_pattern_histories(3, True))
        hs += list(gen_f22())
        hs += list(gen_both_histories(3)) + list(gen_nonreflexive_domain(4))
        rs = list(gen_role_side(4))
        hs += rs
        if stage == "quick":
            hs += list(gen_random(rng, 4000, 10)) + list(gen_tie_only(rng, 1500)) + list(gen_both_random(rng, 3000, 14))
            nenf = 360
        else:
            hs += list(gen_random(rng, 120000, 20)) + list(gen_tie_only(rng, 30000)) + list(gen_both_random(rng, 100000, 24))
            nenf = 4200
        res.rule = (
            "all add/delete/first-sight-query histories of length <= 4 over {/b/*, /b/:id, /b/1} x {g1, g2} + g1->g2 under key_match2 "
            "(matching function registered first; registered last for length <= 3) with has_link probes of a matching, a non-matching and a "
            "pattern name; all histories of length <= 4 of a chain recorded in domains {d1, d2, *} under a key_match domain function with "
            "per-domain queries interleaved (domain function registered first; registered last, over existing caches, for length <= 3); "
            "DomainManager under BOTH a name function and a domain function: all histories of length <= 3 over {/b/* -> g1, /b/1 -> g1, g1 -> g2} x {d1, *} "
            "with first-sight queries per domain and re-registration of either function (key_match -> key_match2; key_match -> full-match regex) x 4 orders of "
            "the first registration; all histories of length <= 4 under a domain function that does not relate a domain to itself (regex on d(1), prefix function; F36); "
            "all histories of length <= 4 with the pattern on the ROLE side (two holders of /g/*, a direct assignment to a matching name, a role of that name; one "
            "concrete member) judged by the fresh-manager oracle and tied to the model (F35); "
            "seeded histories with both functions (re-)registered and changed at random points over 6 domain names; seeded random histories over key_match / key_match2 / regex / raising universes incl. clear and "
            "late registration, plain and domain managers; a tie-only stream (role-side patterns, conditional managers with patterns); the "
            "outside-the-hypotheses stream F22; Enforcer probes (g2 with add_named_matching_func, g with add_named_domain_matching_func, g with BOTH "
            "registered through the enforcer before / between / after grouping rules and enforce calls); "
            "non-trivial = a has_link answer True between different names; distinct by history prefix"
        )
        res.exhaustive = True
        rm_corr.run_all(ctx, res, "C14", hs, chunk=500, workers=14)
        role_side_revocation(ctx, res, rs)
        enforce_probe(ctx, res, nenf)
        if [v for v in res.spec_violations if not v["signature"].startswith("C14:F22")]:
            break
    return res


def replay(obj):
    if obj.get("replay_kind") == "enforce":
        return replay_enforce(obj)
    if obj.get("replay_kind") == "roleside":
        return replay_roleside(obj)
    return rm_corr.replay(obj)
