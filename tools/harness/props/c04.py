"""C04 — role links always reflect the grouping policy (revocation takes effect)"""
import common
import enf_corr as ec

TRANSLATORS = []
LEVEL = "proof"
ASSUMPTIONS = [
    "auto_build_role_links is on whenever a management call changes the policy (windows with the flag off contain only reloads of the mirrored store); grouping rules of any size are inside the theorems and the alphabet (shorter than the role definition: refused before anything is stored, F27; longer: truncated to a link that is shared and goes with the last rule having it, F28)",
    "role managers are represented by their link store; Props/C03 proves the managers' answers are a function of it",
    "pattern stream (key_match as domain / role-name matching function, one pattern, so transitive on the names in use) and filtered-reload stream are outside the Lean model: judged by the fresh-enforcer oracle on the implementation only",
    "oracle on the implementation: after every call every decision / has_link / get_roles / get_users over the universe is compared with a freshly constructed Enforcer loaded with the current policy",
]
TRUSTED_EXTRA = []


def _links_stale(hist, i):
    """role assignments were changed while auto_build_role_links was off and no rebuild (build_role_links, a successful
    load_policy or clear_policy with the flag on) has happened since: by design of the flag the links lag behind"""
    off = dirty = False
    for o in hist[: i + 1]:
        if o[0] == "autobuild":
            off = not o[1]
        elif o[0] in ("build", "setrm") or (o[0] == "load" and o[1] is None and not off) or (o[0] == "clear" and not off):
            dirty = False
        elif off and o[0] not in ("save", "load", "autosave", "autonotify", "setstore") and not (len(o) > 1 and o[1] == "p"):
            dirty = True
    return dirty


def judge(res, cfg, hist, i, op, rec, model, case, queries):
    if _links_stale(hist, i):
        res.count("window:auto-build-off:links-lag-behind (tie only)")
        return True
    # the theorem `observational`: the model answers like a fresh model
    for q, m, s in zip(queries, model["answers"], model["fresh"]):
        if m != s:
            res.model_vs_spec.append({"case": case, "query": q, "model": m, "spec": s})
            return False
    if rec.get("fresh") is None:
        res.violation({"signature": f"C04:{cfg.shape}:{op[0]}:fresh-unconstructible", "what": f"after {op} a fresh enforcer cannot be built from the current policy: {rec.get('fresh_error')}", "case": case, "expected": "constructible", "observed": rec.get("fresh_error")})
        return False
    for q, a, f in zip(queries, rec["answers"], rec["fresh"]):
        if a != f:
            sec = op[1] if len(op) > 1 and op[1] in ("p", "g", "g2") else ""
            res.violation(
                {
                    "signature": f"C04:{cfg.shape}:{op[0]}:{sec}",
                    "what": f"{cfg.shape} model: after {[list(o) for o in hist[: i + 1]][-3:]} the query {q} answers {a}, a freshly constructed enforcer holding the same policy answers {f}",
                    "case": case,
                    "query": list(q),
                    "model_text": ec.TEXT[cfg.shape],
                    "expected": f,
                    "observed": a,
                }
            )
            return False
    return True


def gen(ctx, deep):
    rng = ctx["rng"]
    jobs = []
    for shape in ("rbac", "dom", "res"):
        P, G, G2, R = ec.universe(shape)
        ops = ec.op_alphabet(shape)
        inits = [{"p": [], "g": [], "g2": []}, {"p": P, "g": G, "g2": G2}, {"p": P[:1], "g": G[:1], "g2": G2[:1]}]
        for k, init in enumerate(inits):
            cfg = ec.Config(shape, adapter=True, watcher=None, initial=init)
            for a in ops:
                jobs.append((cfg, [a]))
            for a in ops:
                for b in ops:
                    # every pair from the full initial policy; from the empty and the small one a seeded half (quick tier)
                    if k == 1 or deep or rng.random() < 0.5:
                        jobs.append((cfg, [a, b]))
        # a window with auto_build_role_links off in which nothing but a reload (of the mirrored store) happens, then
        # incremental maintenance again; and a swap of the role manager followed by a rebuild
        window = [("autobuild", False), ("load", None), ("autobuild", True)]
        for init in inits[1:]:
            cfg = ec.Config(shape, adapter=True, watcher=None, initial=init)
            for b in ops:
                jobs.append((cfg, window + [b]))
                jobs.append((cfg, [("setrm",), b]))
            for a in rng.sample(ops, 12 if deep else 8):
                for b in rng.sample(ops, 12 if deep else 8):
                    if a[0] != "clear":  # clear_policy leaves the store behind: the reload would not be of a mirrored store
                        jobs.append((cfg, [a] + window + [b]))
                    jobs.append((cfg, [a, ("setrm",), b]))
        # the bulk-edit sequence: automatic link building off, role assignments changed (the links lag behind, by design),
        # saved or not, the flag on again and a reload: from there on everything must again be what a fresh enforcer says
        gops = [o for o in ops if len(o) > 1 and o[1] in ("g", "g2")]
        for init in inits[1:]:
            cfg = ec.Config(shape, adapter=True, watcher=None, initial=init)
            for a in rng.sample(gops, min(len(gops), 10 if deep else 6)):
                for b in rng.sample(gops, min(len(gops), 6 if deep else 3)):
                    c = rng.choice(ops)
                    jobs.append((cfg, [("autobuild", False), a, b, ("save",), ("autobuild", True), ("load", None), c]))
                    jobs.append((cfg, [("autobuild", False), a, b, ("autobuild", True), ("load", None), c]))
                    jobs.append((cfg, [("autobuild", False), a, b, ("autobuild", True), ("build",), c]))
        # a reload that fails while the links are being rebuilt (a malformed grouping line after a new, valid one) or while
        # the adapter is delivering: the policy that stays in place must still be the one the links reflect
        short = G[0][:-1]
        newg = [r for r in G if r not in inits[2]["g"]]
        cfg = ec.Config(shape, adapter=True, watcher=None, initial=inits[2])
        for bad_g in ([newg[0], short], inits[2]["g"] + [newg[-1], short], [short]):
            for after in ([], [("add", "g", newg[0])], [("remove", "g", inits[2]["g"][0])] if inits[2]["g"] else []):
                jobs.append((cfg, [("setstore", {"p": P, "g": bad_g, "g2": G2}), ("load", None)] + after))
        for k in (0, 1, 2, 3):
            jobs.append((cfg, [("setstore", {"p": P, "g": G, "g2": G2}), ("load", k), ("add", "g", newg[0])]))
        # a reload that leaves a role definition WITHOUT any rule while links existed before: the store never held them
        # (auto-save off while they were granted), or the store has been emptied
        for init in inits:
            cfg0 = ec.Config(shape, adapter=True, watcher=None, initial=init)
            jobs.append((cfg0, [("setstore", {"p": P, "g": [], "g2": []}), ("load", None), ("add", "g", G[0])]))
            jobs.append((cfg0, [("setstore", {"p": P, "g": G, "g2": []}), ("load", None)]))
            if not init["g"]:
                jobs.append((cfg0, [("autosave", False), ("add", "g", G[0]), ("add", "g", G[1]), ("load", None), ("autosave", True), ("add", "g", G[2])]))
                if shape == "res":
                    jobs.append((cfg0, [("autosave", False), ("add", "g2", G2[0]), ("load", None)]))
        # the other call form (rule as one list argument) and the async twins of the single calls
        singles = [o for o in ops if o[0] in ("add", "remove")]
        for is_async, listform in ((False, True), (True, True), (True, False)):
            cfgl = ec.Config(shape, adapter=True, watcher=None, initial=inits[1], is_async=is_async)
            cfgl.listform = listform
            for a in singles:
                jobs.append((cfgl, [a]))
                jobs.append((cfgl, [a, rng.choice(singles)]))
        # rules longer than the role definition that share one link: the link goes with the LAST of them - single, batch
        # and filtered removal, on Enforcer and on AsyncEnforcer (its own copies of the management calls)
        l1, l2 = list(G[0]) + ["t1"], list(G[0]) + ["t2"]
        for is_async in (False, True):
            cfgo = ec.Config(shape, adapter=True, watcher=None, initial=inits[0], is_async=is_async)
            for rm in (("remove", "g", l1), ("removemany", "g", [l1]), ("removefiltered", "g", len(G[0]), ["t1"])):
                jobs.append((cfgo, [("add", "g", l1), ("add", "g", l2), rm]))
                jobs.append((cfgo, [("addmany", "g", [l1, l2]), rm, ("remove", "g", l2)]))
        n = 1000 if not deep else 8000
        ops_r = ops + [("setrm",)]
        for _ in range(n):
            cfg = ec.Config(shape, adapter=True, watcher=None, initial=rng.choice(inits))
            jobs.append((cfg, [rng.choice(ops_r) for _ in range(rng.randint(3, 9))]))
    return jobs


def _filtered_reload_case(args):
    """Enforcer + FilteredFileAdapter: full load, a filtered load that succeeds or fails (invalid filter object / file
    unreachable), then management calls; after every step all queries are compared with a freshly constructed enforcer
    holding the current policy"""
    import os
    import shutil
    import tempfile

    shape, script = args
    casbin = common.use_repo()
    from casbin.persist.adapters import FilteredFileAdapter
    from casbin.persist.adapters.filtered_file_adapter import Filter

    P, G, G2, R = ec.universe(shape)
    d = tempfile.mkdtemp(prefix="c04f_")
    out = []
    try:
        path = os.path.join(d, "policy.csv")
        with open(path, "w") as f:
            f.write("\n".join(", ".join(["p"] + r) for r in P) + "\n" + "\n".join(", ".join(["g"] + r) for r in G) + "\n")
        e = casbin.Enforcer(casbin.Enforcer.new_model(text=ec.TEXT[shape]), FilteredFileAdapter(path))
        e.enable_auto_save(False)
        cfg = ec.Config(shape, adapter=False)
        qs = ec.query_set(cfg)
        for op in script:
            try:
                if op[0] == "load":
                    e.load_policy()
                elif op[0] == "loadf":
                    flt = Filter()
                    flt.P, flt.G = list(op[1]), list(op[2])
                    e.load_filtered_policy(flt)
                elif op[0] == "loadf-badfilter":
                    e.load_filtered_policy(object())
                elif op[0] == "loadf-gone":
                    os.replace(path, path + ".away")
                    try:
                        flt = Filter()
                        flt.P, flt.G = [P[0][0]], []
                        e.load_filtered_policy(flt)
                    finally:
                        os.replace(path + ".away", path)
                else:
                    ec.impl_call(e, op, False)
                ret = "ok"
            except Exception as ex:  # noqa
                ret = "!" + type(ex).__name__
            pol = {"p": [list(r) for r in e.get_policy()], "g": [list(r) for r in e.get_grouping_policy()], "g2": []}
            fresh = casbin.Enforcer(casbin.Enforcer.new_model(text=ec.TEXT[shape]), ec.make_adapter(casbin, pol))
            out.append((ret, [ec.q_impl(e, q) for q in qs], [ec.q_impl(fresh, q) for q in qs]))
        return out
    finally:
        shutil.rmtree(d, ignore_errors=True)


def filtered_reload_stream(ctx, res):
    jobs = []
    for shape in ("rbac", "dom"):
        P, G, G2, R = ec.universe(shape)
        tail = [("remove", "g", G[0]), ("add", "g", G[0])]
        for mid in (("loadf-badfilter",), ("loadf-gone",), ("loadf", [P[0][0]], []), ("loadf", [], [G[0][0]])):
            jobs.append((shape, [("load",), mid] + tail))
            jobs.append((shape, [("load",), ("remove", "g", G[1]), mid] + tail))
    cfgs = {}
    for (shape, script), out in zip(jobs, [_filtered_reload_case(j) for j in jobs]):
        qs = cfgs.setdefault(shape, ec.query_set(ec.Config(shape, adapter=False)))
        res.nontrivial.add(hash(("filtered-reload", shape, repr(script))))
        for i, (ret, got, fresh) in enumerate(out):
            res.evaluations += 1
            res.count("filtered-reload:" + script[i][0])
            bad = [(q, a, f) for q, a, f in zip(qs, got, fresh) if a != f]
            if bad:
                q, a, f = bad[0]
                res.violation({"signature": f"C04:{shape}:filtered-reload:{script[i][0]}", "stream": "filtered-reload", "shape": shape, "script": [list(o) for o in script[: i + 1]],
                               "what": f"{shape} model with FilteredFileAdapter: after {[list(o) for o in script[: i + 1]]} (last result {ret}) the query {q} answers {a}, a freshly constructed enforcer holding the same policy answers {f}",
                               "expected": f, "observed": a})
                break


PAT_TEXT = {"dom-keymatch": "dom", "rbac-keymatch": "rbac"}
PAT_DOMS = ["d1", "d2", "*"]


def _pat_universe(kind):
    if kind == "dom-keymatch":
        P = [["admin", "d1", "data1", "read"], ["admin", "d2", "data2", "read"], ["user", "d2", "data1", "read"]]
        G = [[u, r, d] for u in ("alice", "bob") for r in ("admin", "user") for d in PAT_DOMS]
        R = [[s, d, o, "read"] for s in ("alice", "bob") for d in ("d1", "d2") for o in ("data1", "data2")]
        L = [(u, r, d) for u in ("alice", "bob") for r in ("admin", "user") for d in ("d1", "d2")]
    else:
        P = [["admin", "data1", "read"], ["user", "data2", "read"]]
        G = [[u, r] for u in ("/u/1", "/u/2", "/u/*") for r in ("admin", "user")]
        R = [[s, o, "read"] for s in ("/u/1", "/u/2") for o in ("data1", "data2")]
        L = [(u, r) for u in ("/u/1", "/u/2") for r in ("admin", "user")]
    return P, G, R, L


def _pattern_case(args):
    """Enforcer with a matching function on g (key_match on the domain, or on the user name; the pattern `*` / `/u/*` is
    the only pattern, so the function is transitive on the names in use - outside F22): role assignments given under a
    pattern are added and removed between queries for concrete names (which fill the per-domain caches); after every step
    all queries are compared with a freshly constructed enforcer (same function) holding the current policy"""
    kind, init, script = args
    casbin = common.use_repo()
    from casbin.util import key_match_func

    P, G, R, L = _pat_universe(kind)

    def make(pol):
        e = casbin.Enforcer(casbin.Enforcer.new_model(text=ec.TEXT[PAT_TEXT[kind]]), ec.make_adapter(casbin, pol))
        if kind == "dom-keymatch":
            e.add_named_domain_matching_func("g", key_match_func)
        else:
            e.add_named_matching_func("g", key_match_func)
        e.build_role_links()
        return e

    def ask(x):
        out = [x.enforce(*r) for r in R]
        rm = x.get_role_manager()
        out += [rm.has_link(*l) for l in L]
        out += [sorted(rm.get_roles(l[0], *l[2:])) for l in L[::2]]
        return out

    e = make({"p": P, "g": [G[i] for i in init], "g2": []})
    out = [("init", ask(e), ask(make({"p": P, "g": [G[i] for i in init], "g2": []})))]
    for op in script:
        try:
            if op[0] == "add":
                ret = e.add_grouping_policy(*G[op[1]])
            elif op[0] == "remove":
                ret = e.remove_grouping_policy(*G[op[1]])
            elif op[0] == "addmany":
                ret = e.add_grouping_policies([G[i] for i in op[1]])
            elif op[0] == "removemany":
                ret = e.remove_grouping_policies([G[i] for i in op[1]])
            elif op[0] == "removef":
                ret = e.remove_filtered_grouping_policy(op[1], op[2])
            elif op[0] == "load":
                ret = e.load_policy()
            elif op[0] == "deluser":
                ret = e.delete_user(op[1])
            else:
                raise common.Infra("unknown op " + repr(op))
            ret = repr(ret)
        except common.Infra:
            raise
        except Exception as ex:  # noqa
            ret = "!" + type(ex).__name__
        pol = {"p": [list(r) for r in e.get_policy()], "g": [list(r) for r in e.get_grouping_policy()], "g2": []}
        out.append((ret, ask(e), ask(make(pol))))
    return out


def _pattern_jobs(ctx, deep):
    rng = ctx["rng"]
    jobs = []
    for kind in ("dom-keymatch", "rbac-keymatch"):
        P, G, R, L = _pat_universe(kind)
        n = len(G)
        patt = [i for i, g in enumerate(G) if "*" in g[-1] or "*" in g[0]]
        ops = [("add", i) for i in range(n)] + [("remove", i) for i in range(n)] + [("load",)]
        ops += [("removef", 2, "*"), ("removef", 1, "admin")] if kind == "dom-keymatch" else [("removef", 0, "/u/*"), ("removef", 1, "admin")]
        ops += [("deluser", G[patt[0]][0])]
        # every pattern assignment alone and beside its concrete twin: revoke it, grant it again
        for i in patt:
            for init in ([i], [i, (i + 1) % n], list(range(n))):
                jobs.append((kind, init, [("remove", i), ("add", i)]))
                jobs.append((kind, init, [("removemany", [i]), ("addmany", [i])]))
        for a in ops:
            for b in ops:
                if deep or rng.random() < 0.3:
                    jobs.append((kind, sorted(rng.sample(range(n), rng.randint(0, 4)) + patt[:1]), [a, b]))
        for _ in range(600 if deep else 120):
            jobs.append((kind, sorted(rng.sample(range(n), rng.randint(0, 5))), [rng.choice(ops) for _ in range(rng.randint(3, 7))]))
    return jobs


def pattern_stream(ctx, res, deep):
    import multiprocessing as mp

    jobs = _pattern_jobs(ctx, deep)
    with mp.Pool(12) as pool:
        outs = pool.map(_pattern_case, jobs, chunksize=8)
    for (kind, init, script), out in zip(jobs, outs):
        res.nontrivial.add(hash(("pattern", kind, repr(init), repr(script))))
        for i, (ret, got, fresh) in enumerate(out):
            res.evaluations += 1
            res.count("pattern:" + kind + ":" + (script[i - 1][0] if i else "init"))
            if got != fresh:
                k = [j for j in range(len(got)) if got[j] != fresh[j]][0]
                res.violation({"signature": f"C04:{kind}:pattern:{script[i - 1][0] if i else 'init'}", "stream": "pattern", "kind": kind, "init": init, "script": [list(o) for o in script[:i]],
                               "what": f"{kind}: initial grouping rules {init} (indices into the universe), after {[list(o) for o in script[:i]]} (last result {ret}) query #{k} answers {got[k]}, a freshly constructed enforcer (same matching function) holding the same policy answers {fresh[k]}",
                               "expected": fresh[k], "observed": got[k]})
                break


def run(ctx):
    res = common.Result()
    stages = [False] if not ctx["deep"] else ([True] if ctx["proof_ok"] else [False, True])
    for deep in stages:
        ec.run_configs(res, gen(ctx, deep), judge)
        filtered_reload_stream(ctx, res)
        pattern_stream(ctx, res, deep)
        if res.spec_violations:
            break
    res.rule = (
        "RBAC, RBAC-with-domains and resource-role models x 3 initial policies: every history of length <= 2 over the op alphabet from the full initial policy (quick tier: a seeded half of the pairs from the empty and the small initial policy, thorough: all) "
        "(single/batch/filtered adds and removes of role assignments and permissions incl. duplicate, rejected, partly-present batches, "
        "delete_user/delete_role/delete_roles_for_user, update, clear_policy, build_role_links, load_policy, save_policy) plus seeded random "
        "histories of length 3-9; after every call ~40 queries (all decisions, has_link pairs, get_roles, get_users) are compared with a "
        "freshly constructed enforcer and with the Lean model; filtered-reload stream and pattern stream (matching function on domains / names, pattern assignments revoked between queries) with the fresh-enforcer oracle; non-trivial/distinct = (configuration, history)"
    )
    res.exhaustive = True
    return res


def replay(obj):
    if obj.get("stream") == "pattern":
        ret, got, fresh = _pattern_case((obj["kind"], obj["init"], [tuple(o) for o in obj["script"]]))[-1]
        return got != fresh
    if obj.get("stream") == "filtered-reload":
        script = [tuple(o) for o in obj["script"]]
        ret, got, fresh = _filtered_reload_case((obj["shape"], script))[-1]
        return got != fresh
    case = obj["case"]
    c = case["config"]
    cfg = ec.Config(c["shape"], adapter=c["adapter"], watcher=c["watcher"], initial=c["initial"], is_async=c.get("async", False))
    cfg.listform = c.get("listform", False)
    hist = [tuple(tuple(x) if False else x for x in o) for o in case["history"]]
    hist = [tuple(o) for o in hist]
    q = tuple(tuple(x) if isinstance(x, list) else x for x in obj["query"]) if "query" in obj else None
    qs = [q] if q else ec.query_set(cfg)
    out = ec.run_history(cfg, hist, qs)
    last = out[-1]
    if last.get("fresh") is None:
        return True
    return any(a != f for a, f in zip(last["answers"], last["fresh"]))
