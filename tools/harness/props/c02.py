"""C02 — a rule matches exactly when the matcher expression is true of request and rule.

Three parts (see DESIGN.md §6 C02):
 (a) correspondence of every char-level function of the textual pipeline with its Lean model
     (Model/Matcher.lean), exhaustively over small alphabets / piece sets, plus seeded random ASCII text;
 (b) tie of the whole pipeline: the text the real enforcer hands to `ast.parse` (recorded by substituting
     `casbin.core_enforcer.SimpleEval`) against `Matcher.pipeline` on the same model text and rule;
     token-level three-way comparison impl / model / theorem right-hand side (`layout` op);
 (c) END-TO-END oracle: expression ASTs -> Lean `evalExpr` (the specification) versus the AST rendered with a
     LAYOUT into a real model text -> `casbin.Enforcer` -> `enforce` / `enforce_ex` on single- and multi-rule
     policies.  Any difference is a violation of the property (layout dependence is its heart).
String literals (F01b, repaired: every rewriting step skips them): literals whose text contains `&&`, `||`, `!`, `#`,
`eval(`, `r.x` / `p.x`, dots, blanks, the other kind of quote or an escaped quote are frequent in every stream - char level
(exhaustive suites over quote / backslash alphabets, literal-rich random text), token level (`lit` items of the `layout`
op: model = theorem right-hand side, literals preserved) and end to end (matcher, sub-expressions stored in the rule,
the empty policy).  A violation on a matcher with such a literal carries the signature of F01b.  Blanks between `eval` and `(` and around its
argument are ordinary layout (F01c, repaired): `eval` `(` name `)` are four tokens with gaps like any others."""
import hashlib
import itertools
import logging
import multiprocessing
import os
import random
import sys
import time

import common
from common import dec_list, dec_str, enc_bool, enc_list, enc_str, run_driver

TRANSLATORS = []
LEVEL = "proof"
ASSUMPTIONS = [
    "ast.parse and simpleeval are third-party: not verified; the reference evaluator evalExpr (Lean) is the specification of the Casbin expression language on its well-typed fragment and is compared with them end to end on every generated expression",
    "function results (g/g2, keyMatch, regexMatch, user functions) enter the specification as oracle tables computed with the real functions (their correctness is C03/C13/C14)",
    "the regular expressions of util.py (\\b, \\d, \\w) are modelled for ASCII model text; non-ASCII model text is outside the modelled domain",
    "layouts: blanks are ' ' and TAB; continuation lines as Config._parse_buffer defines them; a trailing comment starts with '#'",
    "string literals are '...' and \"...\" with backslash escapes (what util.split_literals, the Lean scanner `pieces` and Python's tokenizer agree on); Python-only literal forms (triple quotes, prefixes) are not part of the Casbin expression language; a literal is not continued across lines of the model text",
    "expressions whose value the language leaves open (ill-typed operands, undefined names) are not judged",
]
TRUSTED_EXTRA = ["the harness's AST renderer (token sequence + gaps -> text); its output is re-rendered by the Lean `render` and compared (op `layout`)"]

NPROC = min(16, os.cpu_count() or 4)

# ------------------------------------------------------------------------------------------------
# real-code access


class _Rec:
    """stands in for casbin.core_enforcer.SimpleEval: records the text given to ast.parse"""

    captured = []
    real = None

    def __init__(self, expr, functions=None):
        _Rec.captured.append(expr)
        self._inner = _Rec.real(expr, functions) if _Rec.parse else None

    parse = True

    def eval(self, names=None):
        return self._inner.eval(names)


_CASBIN = None


def cas():
    global _CASBIN
    if _CASBIN is None:
        logging.disable(logging.CRITICAL)
        import warnings

        warnings.filterwarnings("ignore", category=SyntaxWarning)
        _CASBIN = common.use_repo()
        import casbin.core_enforcer as ce

        _Rec.real = ce.SimpleEval
        ce.SimpleEval = _Rec
    return _CASBIN


def impl_getexpr(s):
    cas()
    import casbin.core_enforcer as ce

    _Rec.parse = False
    _Rec.captured.clear()
    try:
        ce.CoreEnforcer._get_expression(s)
        return _Rec.captured[-1]
    finally:
        _Rec.parse = True
        _Rec.captured.clear()


def impl_char(op, arg):
    """run one char-level function of the real code; returns the protocol answer string"""
    c = cas()
    from casbin import util

    if op == "getexpr":
        return enc_str(impl_getexpr(arg))
    if op == "escape":
        return enc_str(util.escape_assertion(arg))
    if op == "rmcomment":
        return enc_str(util.remove_comments(arg))
    if op == "strip":
        return enc_str(arg.strip())
    if op == "haseval":
        return enc_bool(bool(util.has_eval(arg)))
    if op == "evalnames":
        return enc_list([enc_str(x) for x in util.get_eval_value(arg)])
    if op == "replaceeval":
        s, rules = arg
        try:
            return enc_str(util.replace_eval(s, list(rules)))
        except IndexError:
            return "!indexError"
    if op == "tokens":
        key, value = arg
        m = c.model.Model()
        if value == "":
            return None  # add_def returns early: not a definition
        m.add_def(key[0], key, value)
        return enc_list([enc_str(t) for t in m[key[0]][key].tokens])
    if op == "config":
        from casbin.config import Config

        try:
            cfg = Config.new_config_from_text(arg)
        except RuntimeError as ex:
            if str(ex).startswith("parse the content error"):
                return "!config"
            raise
        out = []
        for sec, d in cfg._data.items():
            for k, v in d.items():
                out.append(enc_str(sec) + "|" + enc_str(k) + "|" + enc_str(v))
        return enc_list(sorted(out))
    raise ValueError(op)


def lean_char_line(op, arg):
    if op == "replaceeval":
        return "\t".join([op, enc_str(arg[0]), enc_list([enc_str(r) for r in arg[1]])])
    if op == "tokens":
        return "\t".join([op, enc_str(arg[0]), enc_str(arg[1])])
    return op + "\t" + enc_str(arg)


def canon_char(op, ans):
    if op == "config" and not ans.startswith("!"):
        return enc_list(sorted(dec_list(ans)))
    return ans


# ------------------------------------------------------------------------------------------------
# (a) char-level suites

EVAL_PIECES = ["eval(", "eval", "e", "a", ")", "(", " ", "\t", "_", "&&"]
CFG_PIECES = ["m", "=", " ", "\\", "\n", "#", ";", "[s]", "a", "]"]
RULES = ["x y", "(z)"]
LIT_EVAL_PIECES = ["eval(", "a", ")", '"', "'", "\\", " "]


def suites(deep):
    """(op, alphabet / pieces, max length, argument builder)"""
    d = 1 if deep else 0
    return [
        ("getexpr", list("a&|!= ("), 6 + d, None),
        ("escape", list("apr2._ (\""), 5 + d, None),
        ("rmcomment", list("a# \t"), 7 + d, None),
        ("strip", list("a \t\n\x0b\x1c\x85\xa0 "), 4 + d, None),
        ("haseval", EVAL_PIECES, 5 + d, None),
        ("evalnames", EVAL_PIECES, 5 + d, None),
        ("replaceeval", EVAL_PIECES, 5 + d, lambda s: (s, RULES)),
        ("tokens", list("a, \t_"), 5 + d, lambda s: ("r2", s)),
        ("config", CFG_PIECES, 5 + d, None),
        # string literals (F01b repaired): both quote kinds, backslash escapes, unterminated literals, around everything
        # the steps rewrite
        ("getexpr", list("a&|!\"'\\"), 6 + d, None),
        ("escape", ["p.", "p2.", "r.", "a", " ", '"', "'", "\\"], 5 + d, None),
        ("rmcomment", list("a# \"'\\"), 6 + d, None),
        ("haseval", LIT_EVAL_PIECES, 5 + d, None),
        ("evalnames", LIT_EVAL_PIECES, 5 + d, None),
        ("replaceeval", LIT_EVAL_PIECES, 5 + d, lambda s: (s, RULES)),
    ]


def _enum(alpha, maxlen):
    for n in range(0, maxlen + 1):
        for t in itertools.product(alpha, repeat=n):
            yield "".join(t)


def _char_chunk(job):
    op, args = job
    lines, impl = [], []
    for a in args:
        r = impl_char(op, a)
        if r is None:
            continue
        impl.append((a, r))
        lines.append(lean_char_line(op, a))
    answers = run_driver("matcher", lines)
    bad = []
    for (a, r), ans in zip(impl, answers):
        if canon_char(op, ans) != r:
            bad.append({"what": f"char-level {op}: implementation vs Model/Matcher.lean", "op": op, "input": a, "impl": r, "model": ans})
            if len(bad) > 5:
                break
    return op, len(impl), bad


ASCII = [chr(i) for i in range(32, 127)] + ["\t"]
FRAGS = ["&&", "||", "!", "!=", "==", "p.", "r.", "p2.", "r2.", "eval(", ")", "(", "#", " ", "  ", "p", "r", "_", ".", "1", "a", "sub", "\\", "\n", "=", "[", "]", ";", ",", '"', "'"]


LIT_BODIES = ["a&&b", "a||b", "!", "x#y", "#", "eval(a)", "eval ( p.r )", "p.txt", "r2.sub", "p2.", " a  b ", "it's", 'say "hi"', "\\\\", "a\\\"b", "a\\'b", "", ")", "(", "&&", "a.b"]


def random_text(rng, n):
    out = []
    for _ in range(n):
        k = rng.randint(0, 14)
        if rng.random() < 0.5:
            out.append("".join(rng.choice(FRAGS) if rng.random() < 0.8 else rng.choice(ASCII) for _ in range(k)))
        else:
            # matcher-like text with string literals whose bodies contain what the steps rewrite; sometimes a literal
            # is left open or closed with the other kind of quote
            parts = []
            for _ in range(k):
                if rng.random() < 0.4:
                    qk = rng.choice("\"'")
                    end = qk if rng.random() < 0.85 else rng.choice(["", "\"", "'"])
                    parts.append(qk + rng.choice(LIT_BODIES) + end)
                else:
                    parts.append(rng.choice(FRAGS))
            out.append("".join(parts))
    return out


def run_char_level(ctx, res, pool):
    deep = ctx["deep"]
    jobs = []
    for op, alpha, maxlen, build in suites(deep):
        args = list(_enum(alpha, maxlen))
        if build:
            args = [build(a) for a in args]
        for i in range(0, len(args), 15000):
            jobs.append((op, args[i : i + 15000]))
    # seeded random ASCII text through every function
    rnd = random_text(ctx["rng"], 40000 if deep else 8000)
    for op in ("getexpr", "escape", "rmcomment", "strip", "haseval", "evalnames", "config"):
        jobs.append((op, rnd))
    jobs.append(("replaceeval", [(s, RULES) for s in rnd]))
    jobs.append(("tokens", [("p", s) for s in rnd if "\n" not in s]))
    for op, n, bad in pool.imap_unordered(_char_chunk, jobs):
        res.evaluations += n
        res.count("char:" + op, n)
        for b in bad:
            res.disagree(b)
    # str.isspace over all code points (one driver line)
    ans = run_driver("matcher", ["isspace\t0\t1114112"])[0]
    lean_ws = set(int(x) for x in dec_list(ans))
    py_ws = set(i for i in range(0x110000) if chr(i).isspace())
    res.evaluations += 0x110000
    res.count("char:isspace-codepoints", 0x110000)
    if lean_ws != py_ws:
        res.disagree({"what": "str.isspace table differs", "only_lean": sorted(lean_ws - py_ws)[:10], "only_py": sorted(py_ws - lean_ws)[:10]})
    # result typing table
    for k, v in (("bT", True), ("bF", False), ("f1", 1.5), ("f0", 0.0), ("i1", 3), ("i0", 0), ("o", "x")):
        lean = run_driver("matcher", ["restype\t" + k])[0]
        got = impl_result_typing(v)
        res.evaluations += 1
        res.count("char:restype")
        if lean != got:
            # the model states the property (int is numeric): a difference is the implementation contradicting it
            res.violation({"signature": "result-typing:" + k, "what": f"a matcher result {v!r} ({type(v).__name__}): enforce gives {got}, the property (bool as is, numeric iff non-zero, otherwise error) gives {lean}",
                           "stream": "restype", "value_kind": k, "expected": lean, "observed": got})


def impl_result_typing(v):
    c = cas()
    text = "[request_definition]\nr = k\n[policy_definition]\np = k\n[policy_effect]\ne = some(where (p.eft == allow))\n[matchers]\nm = f(r.k)\n"
    e = c.Enforcer(c.Enforcer.new_model(text=text))
    e.add_function("f", lambda k: v)
    e.model.model["p"]["p"].policy = [["k"]]
    try:
        return enc_bool(e.enforce("k"))
    except RuntimeError as ex:
        if str(ex) == "matcher result should be bool, int or float":
            return "!resultType"
        raise


# ------------------------------------------------------------------------------------------------
# expression ASTs (python side), rendering with layouts

PREC = {"or": 1, "and": 2, "not": 3, "eq": 4, "ne": 4, "lt": 4, "le": 4, "gt": 4, "ge": 4, "in": 4, "add": 5, "sub": 5, "mul": 6, "mod": 6}
OPTXT = {"or": "||", "and": "&&", "eq": "==", "ne": "!=", "lt": "<", "le": "<=", "gt": ">", "ge": ">=", "in": "in", "add": "+", "sub": "-", "mul": "*", "mod": "%"}
# child minimal precedences (left, right): never rely on Python's comparison chaining or on the place of `not`
CHILD = {"or": (1, 2), "and": (2, 3), "eq": (5, 5), "ne": (5, 5), "lt": (5, 5), "le": (5, 5), "gt": (5, 5), "ge": (5, 5), "in": (5, 5), "add": (5, 6), "sub": (5, 6), "mul": (6, 9), "mod": (6, 9)}


def prec(e):
    if e[0] == "bin":
        return PREC[e[1]]
    if e[0] == "not":
        return 3
    return 9


def q(s, qk='"'):
    """the literal as it is written: a backslash and the literal's own quote are escaped with a backslash"""
    return qk + s.replace("\\", "\\\\").replace(qk, "\\" + qk) + qk


def fmt_float(num, exp):
    return repr(num / (1 << exp))


def tokens(e, minp=0):
    """list of (text, left_is_word, right_is_word, kind); kind 'bop' marks && / || (continuation points)"""
    k = e[0]
    if prec(e) < minp:
        return [("(", False, False, "o")] + tokens(e, 0) + [(")", False, False, "o")]
    if k == "ref":
        return [(e[1], True, True, "w")]
    if k == "attr":
        base = tokens(e[1], 9)
        t = base[-1]
        if t[3] == "w":
            return base[:-1] + [(t[0] + "." + e[2], True, True, "w")]
        return base + [("." + e[2], False, True, "o")]
    if k == "str":
        return [(q(e[1], e[2] if len(e) > 2 else '"'), False, False, "s")]
    if k == "int":
        return [(str(e[1]), True, True, "w")]
    if k == "flt":
        return [(fmt_float(e[1], e[2]), True, True, "w")]
    if k == "tuple":
        out = [("(", False, False, "o")]
        for i, x in enumerate(e[1]):
            if i:
                out.append((",", False, False, "o"))
            out += tokens(x, 1)
        return out + [(")", False, False, "o")]
    if k == "not":
        return [("!", False, False, "o")] + tokens(e[1], 9)
    if k == "bin":
        lp, rp = CHILD[e[1]]
        op = OPTXT[e[1]]
        mid = (op, True, True, "w") if e[1] == "in" else (op, False, False, "bop" if e[1] in ("and", "or") else "o")
        return tokens(e[2], lp) + [mid] + tokens(e[3], rp)
    if k == "call":
        out = [(e[1], True, True, "w"), ("(", False, False, "o")]
        for i, x in enumerate(e[2]):
            if i:
                out.append((",", False, False, "o"))
            out += tokens(x, 1)
        return out + [(")", False, False, "o")]
    if k == "eval":
        # four tokens: the layout decides the white space between `eval` and `(` and around the argument
        return [("eval", True, True, "w"), ("(", False, False, "o"), (e[1], True, True, "w"), (")", False, False, "o")]
    if k == "evalform":
        # a fixed spelling of the call (always exercised, whatever the sampled layouts are)
        return [(e[2].replace("X", e[1]), True, False, "w")]
    if k == "paren":
        return [("(", False, False, "o")] + tokens(e[1], 0) + [(")", False, False, "o")]
    raise ValueError(k)


LAYOUTS = ["tight", "single", "double", "cont-before", "cont-after", "comment", "tight-cont", "tab", "random"]


def gaps_for(toks, layout, rng=None):
    """one gap after each token (the last gap is the text after the expression)"""
    n = len(toks)
    gaps = []
    for i in range(n):
        last = i == n - 1
        need = (not last) and toks[i][2] and toks[i + 1][1]
        nxt_bop = (not last) and toks[i + 1][3] == "bop"
        cur_bop = toks[i][3] == "bop"
        if last:
            g = {"comment": "  # the matcher", "double": "  ", "tab": "\t"}.get(layout, "")
            if layout == "random":
                g = rng.choice(["", " ", "  # c", "\t", " #", "  # it's a \"comment", " # 'p.x' && eval(q)"])
        elif layout == "tight":
            g = " " if need else ""
        elif layout in ("single", "comment"):
            g = " "
        elif layout == "double":
            g = "  "
        elif layout == "tab":
            g = "\t"
        elif layout == "cont-before":
            g = " \\\n    " if nxt_bop else " "
        elif layout == "cont-after":
            g = " \\\n" if cur_bop else " "
        elif layout == "tight-cont":
            g = "\\\n" if nxt_bop else (" " if need else "")
        else:
            g = rng.choice(["", "", " ", " ", "  ", "\t", " \\\n", "\\\n  ", " \\\n\t "])
            if need and g == "":
                g = " "
        gaps.append(g)
    return gaps


def render(toks, gaps):
    return "".join(t[0] + g for t, g in zip(toks, gaps))


def render_inline(toks, layout, rng):
    """layout for text stored in a policy rule (eval): no continuations, no comment"""
    lay = {"cont-before": "single", "cont-after": "single", "comment": "single", "tight-cont": "tight"}.get(layout, layout)
    gaps = gaps_for(toks, lay, rng)
    gaps = [g.replace("\\\n", " ").replace("\n", " ").split("#")[0] for g in gaps]
    gaps[-1] = ""
    for i in range(len(toks) - 1):
        if toks[i][2] and toks[i + 1][1] and gaps[i] == "":
            gaps[i] = " "
    return render(toks, gaps)


# --- token items for the driver's `layout` operation (Model/MatcherTokens.lean `Tok`)

import re as _re

_REF = _re.compile(r"^([pr])(\d*)\.([A-Za-z_][A-Za-z_0-9]*)((?:\.[A-Za-z_][A-Za-z_0-9]*)*)$")


_EVALFORM = _re.compile(r"^eval([ \t]*)\(([ \t]*)([^() \t]+)([ \t]*)\)$")


def tok_items(toks, gaps):
    """harness tokens + blank-only gaps -> list of encoded `Tok` items"""
    items = []

    def add(kind, *parts, gap=""):
        items.append("|".join([kind] + [enc_str(x) for x in parts] + [enc_str(gap)]))

    for (text, _lw, _rw, kind), g in zip(toks, gaps):
        mf = _EVALFORM.match(text)
        if mf:
            add("word", "eval", gap=mf.group(1))
            add("other", "(", gap=mf.group(2))
            items.extend(tok_items([(mf.group(3), True, True, "w")], [mf.group(4)]))
            add("other", ")", gap=g)
            continue
        if kind == "s":
            items.append("|".join(["lit", enc_str(text[0]), enc_str(text[1:-1]), enc_str(g)]))
            continue
        m = _REF.match(text) if kind == "w" else None
        if m:
            rest = [x for x in m.group(4).split(".") if x]
            add("ref", m.group(1), m.group(2), m.group(3), gap=g if not rest else "")
            for i, a in enumerate(rest):
                add("other", ".")
                add("word", a, gap=g if i == len(rest) - 1 else "")
        elif text == "&&":
            add("and", gap=g)
        elif text == "||":
            add("or", gap=g)
        elif text == "!":
            add("not", gap=g)
        elif text == "!=":
            add("ne", gap=g)
        elif kind == "w" and not text.startswith("."):
            add("word", text, gap=g)
        else:
            add("other", text, gap=g)
    return items


def blank_gaps(gaps):
    """what Config + remove_comments make of the gaps: continuation -> one blank, trailing comment dropped"""
    out = []
    for g in gaps:
        g = g.split("#")[0]
        while "\\\n" in g:
            a, b = g.split("\\\n", 1)
            g = a.rstrip() + " " + b.lstrip()
        out.append(g)
    return out


# --- token notation for the driver


def e_tokens(e):
    k = e[0]
    if k == "ref":
        return ["R", enc_str(e[1])]
    if k == "attr":
        return ["A", enc_str(e[2])] + e_tokens(e[1])
    if k == "str":
        return ["S", enc_str(e[1])]
    if k == "int":
        return ["I", str(e[1])]
    if k == "flt":
        return ["F", str(e[1]), str(e[2])]
    if k == "tuple":
        return ["T", str(len(e[1]))] + [t for x in e[1] for t in e_tokens(x)]
    if k == "not":
        return ["N"] + e_tokens(e[1])
    if k == "bin":
        return ["B", e[1]] + e_tokens(e[2]) + e_tokens(e[3])
    if k == "call":
        return ["C", enc_str(e[1]), str(len(e[2]))] + [t for x in e[2] for t in e_tokens(x)]
    if k == "paren":
        return e_tokens(e[1])
    raise ValueError(k)


class Obj:
    def __init__(self, d):
        self.__dict__.update(d)

    def __repr__(self):
        return "Obj(%r)" % (self.__dict__,)


def v_tokens(v):
    if isinstance(v, bool):
        return ["b", enc_bool(v)]
    if isinstance(v, int):
        return ["i", str(v)]
    if isinstance(v, float):
        n, d = v.as_integer_ratio()
        return ["f", str(n), str(d.bit_length() - 1)]
    if isinstance(v, str):
        return ["s", enc_str(v)]
    if v is None:
        return ["n"]
    if isinstance(v, tuple):
        return ["t", str(len(v))] + [t for x in v for t in v_tokens(x)]
    if isinstance(v, Obj):
        items = list(v.__dict__.items())
        return ["o", str(len(items))] + [t for k, x in items for t in [enc_str(k)] + v_tokens(x)]
    raise ValueError(v)


def to_json(v):
    if isinstance(v, Obj):
        return {"__obj__": {k: to_json(x) for k, x in v.__dict__.items()}}
    if isinstance(v, tuple):
        return {"__tuple__": [to_json(x) for x in v]}
    return v


def from_json(v):
    if isinstance(v, dict) and "__obj__" in v:
        return Obj({k: from_json(x) for k, x in v["__obj__"].items()})
    if isinstance(v, dict) and "__tuple__" in v:
        return tuple(from_json(x) for x in v["__tuple__"])
    return v


def subst_eval(e, rule_asts):
    """replace eval(p.f) nodes by the rule's sub-expression (what the property says eval means)"""
    k = e[0]
    if k in ("eval", "evalform"):
        return ("paren", rule_asts[e[1]])
    if k in ("attr",):
        return (k, subst_eval(e[1], rule_asts), e[2])
    if k in ("not", "paren"):
        return (k, subst_eval(e[1], rule_asts))
    if k == "bin":
        return (k, e[1], subst_eval(e[2], rule_asts), subst_eval(e[3], rule_asts))
    if k == "tuple":
        return (k, [subst_eval(x, rule_asts) for x in e[1]])
    if k == "call":
        return (k, e[1], [subst_eval(x, rule_asts) for x in e[2]])
    return e


# ------------------------------------------------------------------------------------------------
# model shapes

SUBS = ["alice", "bob", "root"]
ROLES = ["admin", "user"]
OBJS = ["data1", "data2", "/res/1"]
POBJS = ["data1", "data2", "/res/*"]
ACTS = ["read", "write"]
DOMS = ["d1", "d2"]


def user_f2(a, b):
    """a user-registered function (deterministic, total)"""
    return (len(str(a)) + len(str(b))) % 2 == 0


def R(n):
    return ("ref", n)


def B(op, a, b):
    return ("bin", op, a, b)


def AND(*xs):
    e = xs[0]
    for x in xs[1:]:
        e = B("and", e, x)
    return e


def S(s, qk=None):
    """a string literal; written with double quotes unless its text contains one (or `qk` says otherwise)"""
    if qk is None:
        qk = "'" if '"' in s and "'" not in s else '"'
    return ("str", s) if qk == '"' else ("str", s, qk)


# literal texts that the textual pipeline used to rewrite (F01b): operators, comment sign, eval(, reference-like
# text, dots, the other kind of quote, blanks - inside a literal all of it is just text
RISKY = ["a&&b", "a||b", "a!b", "p.txt", "r.sub", "x#y", "eval(a)", "a != b", "p2.x", "a.b", "it's", 'say "hi"', " a  b ", "eval(p.sub_rule)",
         "!", "#", "&&", "||", "r.obj == p.obj", "a # b", "eval ( p.rule2 )", "r2.sub", "p.", "x) || (y", "'", '"', "a&&b||!c#d eval(p.x) r.y",
         # written with escapes: the quote inside does not close the literal
         'a"&&"b', "x'||'y", 'q"#"r\'s', "a\\b", 'e"eval(p.sub_rule)"', '"!"', "'p.obj'"]
RISKY_SET = set(RISKY)


def has_risky(e):
    """does the expression contain one of the RISKY literals"""
    if isinstance(e, (list, tuple)):
        if len(e) >= 2 and e[0] == "str" and e[1] in RISKY_SET:
            return True
        return any(has_risky(x) for x in e)
    if isinstance(e, dict):
        return any(has_risky(x) for x in e.values())
    return False


def risky_strings(e, out):
    if isinstance(e, (list, tuple)):
        if len(e) >= 2 and e[0] == "str" and e[1] in RISKY_SET:
            out.append(e[1])
        else:
            for x in e:
                risky_strings(x, out)
    elif isinstance(e, dict):
        for x in e.values():
            risky_strings(x, out)
    return out


class Shape:
    """one model shape: definitions, base matcher, policy / request universes"""

    def __init__(self, name, rdef, pdef, base, gdefs=(), suffix="", effect="some(where (p.eft == allow))", funcs=(), extra_defs=None):
        self.name, self.rdef, self.pdef, self.base, self.gdefs, self.suffix = name, rdef, pdef, base, list(gdefs), suffix
        self.effect, self.funcs = effect, list(funcs)
        self.extra_defs = extra_defs  # for the multi-definition shape: the plain r/p/m definitions

    def model_text(self, matcher_text, rng=None, cfg_layout="plain"):
        sfx = self.suffix
        eq = {"plain": " = ", "tight": "=", "wide": "   =  "}.get(cfg_layout, " = ")
        sep = "\n" if cfg_layout != "wide" else "\n\n# a comment line\n; another one\n"
        comma = {"plain": ", ", "tight": ",", "wide": " ,  "}.get(cfg_layout, ", ")
        L = ["[request_definition]"]
        if self.extra_defs:
            L.append("r" + eq + self.extra_defs["r"])
        L.append("r" + sfx + eq + comma.join(self.rdef))
        L.append(sep + "[policy_definition]")
        if self.extra_defs:
            L.append("p" + eq + self.extra_defs["p"])
        L.append("p" + sfx + eq + comma.join(self.pdef))
        if self.gdefs:
            L.append(sep + "[role_definition]")
            for g, ar in self.gdefs:
                L.append(g + eq + ", ".join(["_"] * ar))
        L.append(sep + "[policy_effect]")
        L.append("e" + eq + "some(where (p.eft == allow))")
        if sfx and self.effect != "some(where (p.eft == allow))":
            L.append("e" + sfx + eq + self.effect)
        L.append(sep + "[matchers]")
        if self.extra_defs:
            L.append("m" + eq + self.extra_defs["m"])
        L.append("m" + sfx + eq + matcher_text)
        return "\n".join(L) + "\n"


def shapes():
    r, p = "r", "p"
    acl = AND(B("eq", R("r.sub"), R("p.sub")), B("eq", R("r.obj"), R("p.obj")), B("eq", R("r.act"), R("p.act")))
    out = [
        Shape("acl", ["sub", "obj", "act"], ["sub", "obj", "act"], acl),
        Shape("aclroot", ["sub", "obj", "act"], ["sub", "obj", "act"], B("or", acl, B("eq", R("r.sub"), S("root")))),
        Shape("rbac", ["sub", "obj", "act"], ["sub", "obj", "act"], AND(("call", "g", [R("r.sub"), R("p.sub")]), B("eq", R("r.obj"), R("p.obj")), B("eq", R("r.act"), R("p.act"))), gdefs=[("g", 2)]),
        Shape("rbacres", ["sub", "obj", "act"], ["sub", "obj", "act"], AND(("call", "g", [R("r.sub"), R("p.sub")]), ("call", "g2", [R("r.obj"), R("p.obj")]), B("eq", R("r.act"), R("p.act"))), gdefs=[("g", 2), ("g2", 2)]),
        Shape("dom", ["sub", "dom", "obj", "act"], ["sub", "dom", "obj", "act"], AND(("call", "g", [R("r.sub"), R("p.sub"), R("r.dom")]), B("eq", R("r.dom"), R("p.dom")), B("eq", R("r.obj"), R("p.obj")), B("eq", R("r.act"), R("p.act"))), gdefs=[("g", 3)]),
        Shape("abac", ["sub", "obj", "act"], ["sub", "obj", "act"], AND(B("or", B("eq", ("attr", R("r.sub"), "name"), ("attr", R("r.obj"), "owner")), B("gt", ("attr", R("r.sub"), "age"), ("int", 18))), B("eq", ("attr", R("r.obj"), "name"), R("p.obj")), B("eq", R("r.act"), R("p.act")))),
        Shape("keymatch", ["sub", "obj", "act"], ["sub", "obj", "act"], AND(B("eq", R("r.sub"), R("p.sub")), ("call", "keyMatch", [R("r.obj"), R("p.obj")]), ("call", "regexMatch", [R("r.act"), R("p.act")])), funcs=["keyMatch", "regexMatch"]),
        Shape("eval", ["sub", "obj", "act"], ["sub_rule", "obj", "act", "rule2"], AND(("eval", "p.sub_rule"), B("eq", ("attr", R("r.obj"), "name"), R("p.obj")), B("or", B("eq", R("r.act"), R("p.act")), ("eval", "p.rule2")))),
        Shape("multi", ["sub", "obj", "act"], ["sub", "obj", "act"], AND(B("eq", R("r2.sub"), R("p2.sub")), B("eq", R("r2.obj"), R("p2.obj")), B("eq", R("r2.act"), R("p2.act"))), suffix="2",
              extra_defs={"r": "who, what", "p": "who, what", "m": "r.who != p.who && r.what == p.what"}),
        Shape("multie2", ["sub", "obj", "act"], ["sub", "obj", "act", "eft"], AND(B("eq", R("r2.sub"), R("p2.sub")), B("eq", R("r2.obj"), R("p2.obj")), B("eq", R("r2.act"), R("p2.act"))), suffix="2",
              effect="!some(where (p.eft == deny))", extra_defs={"r": "who, what", "p": "who, what", "m": "r.who != p.who && r.what == p.what"}),
    ]
    return {s.name: s for s in out}


SHAPES = shapes()


def rp(shape):
    return "r" + shape.suffix, "p" + shape.suffix


def is_abac(shape):
    return shape.name in ("abac", "eval")


def gen_universe(shape, rng):
    """policy (rules), grouping rules, requests for one enforcer; all drawn from the small universe"""
    nm = shape.name
    rules, groups, reqs = [], {}, []
    nrules = rng.choice([1, 2, 3, 3, 4])
    if nm == "dom":
        for _ in range(nrules):
            rules.append([rng.choice(SUBS + ROLES), rng.choice(DOMS), rng.choice(POBJS[:2]), rng.choice(ACTS)])
        groups["g"] = [[rng.choice(SUBS), rng.choice(ROLES), rng.choice(DOMS)] for _ in range(rng.randint(0, 3))]
        for _ in range(5):
            reqs.append([rng.choice(SUBS), rng.choice(DOMS), rng.choice(OBJS[:2]), rng.choice(ACTS)])
    else:
        for _ in range(nrules):
            rules.append([rng.choice(SUBS + (ROLES if shape.gdefs else [])), rng.choice(POBJS if nm in ("keymatch", "rbacres") else POBJS[:2]), rng.choice(ACTS + ([".*"] if nm == "keymatch" else []))])
        if shape.gdefs:
            groups["g"] = [[rng.choice(SUBS + ROLES[:1]), rng.choice(ROLES)] for _ in range(rng.randint(0, 3))]
            if nm == "rbacres":
                groups["g2"] = [[rng.choice(OBJS), rng.choice(["data2", "/res/*"])] for _ in range(rng.randint(0, 2))]
        for _ in range(5):
            sub, obj = rng.choice(SUBS), rng.choice(OBJS)
            if is_abac(shape):
                sub = Obj({"name": sub, "age": rng.choice([10, 18, 30, 70]), "score": rng.choice([0.5, 1.5, 2.0]), "grp": Obj({"id": rng.choice(ROLES)})})
                obj = Obj({"name": obj, "owner": rng.choice(SUBS), "grp2": Obj({"id": rng.choice(SUBS)})})
            reqs.append([sub, obj, rng.choice(ACTS)])
    if nm == "eval":
        rules = [r + ["True"] for r in rules]
    if "eft" in shape.pdef:
        rules = [r + [rng.choice(["allow", "deny", "deny"])] for r in rules]
    # make sure some request meets some rule on the plain fields
    if rules and not is_abac(shape) and nm != "dom":
        r0 = rules[0]
        reqs[0] = [r0[0] if r0[0] in SUBS else SUBS[0], r0[1] if r0[1] in OBJS else OBJS[0], r0[2] if r0[2] in ACTS else ACTS[0]]
    return rules, groups, reqs


# ------------------------------------------------------------------------------------------------
# typed random expression generator


class Gen:
    def __init__(self, shape, rng, lits_risky=False, no_eval=False):
        self.s, self.rng, self.risky, self.no_eval = shape, rng, lits_risky, no_eval
        self.r, self.p = rp(shape)

    def str_atom(self):
        rng, s = self.rng, self.s
        c = rng.random()
        if c < 0.4:
            f = rng.choice(s.rdef)
            e = R(self.r + "." + f)
            if is_abac(s) and f in ("sub", "obj"):
                if rng.random() < 0.25:
                    e = ("attr", ("attr", e, "grp" if f == "sub" else "grp2"), "id")
                else:
                    e = ("attr", e, rng.choice(["name"] if f == "sub" else ["name", "owner"]))
            return e
        if c < 0.75:
            fs = [f for f in s.pdef if not f.endswith("rule") and f != "rule2"]
            return R(self.p + "." + rng.choice(fs))
        if c < 0.95 or True:
            pool = SUBS + OBJS + ACTS + ["", "admin"]
            if self.risky or rng.random() < 0.4:
                # literals whose text looks like operators / comments / eval( / references: frequent in every stream
                t = rng.choice(RISKY)
                return S(t, rng.choice("\"'") if ('"' not in t and "'" not in t) or rng.random() < 0.5 else None)
            return S(rng.choice(pool))

    def num_atom(self, depth):
        rng = self.rng
        c = rng.random()
        if is_abac(self.s) and c < 0.5:
            return ("attr", R(self.r + ".sub"), rng.choice(["age", "age", "score"]))
        if c < 0.8 or depth <= 0:
            return rng.choice([("int", 0), ("int", 1), ("int", 18), ("int", 60), ("flt", 3, 1), ("flt", 1, 1), ("flt", 0, 0)])
        return B(rng.choice(["add", "sub", "mul", "mod"]), self.num_atom(depth - 1), self.num_atom(depth - 1))

    def bool_atom(self):
        rng, s = self.rng, self.s
        c = rng.random()
        if c < 0.45:
            return B(rng.choice(["eq", "eq", "eq", "ne", "lt", "ge"]), self.str_atom(), self.str_atom())
        if c < 0.55:
            return B("in", self.str_atom(), ("tuple", [S(x) for x in rng.sample(SUBS + OBJS + ACTS, rng.choice([2, 3]))]))
        if c < 0.70:
            return B(rng.choice(["lt", "le", "gt", "ge", "eq", "ne"]), self.num_atom(1), self.num_atom(1))
        if c < 0.80:
            return ("call", rng.choice(["f2", "f2", "is_eval"]), [self.str_atom(), self.str_atom()])
        if c < 0.90 and s.gdefs:
            g, ar = rng.choice(s.gdefs)
            args = [self.str_atom(), self.str_atom()] + ([R(self.r + ".dom")] if ar == 3 else [])
            return ("call", g, args)
        if c < 0.95 and s.funcs:
            return ("call", rng.choice(s.funcs), [self.str_atom(), self.str_atom()])
        if s.name == "eval" and c < 0.97 and not self.no_eval:
            return ("eval", rng.choice(["p.sub_rule", "p.rule2"]))
        return B("eq", self.str_atom(), self.str_atom())

    def boolean(self, depth):
        rng = self.rng
        if depth <= 0 or rng.random() < 0.2:
            return self.bool_atom()
        c = rng.random()
        if c < 0.4:
            return B("and", self.boolean(depth - 1), self.boolean(depth - 1))
        if c < 0.75:
            return B("or", self.boolean(depth - 1), self.boolean(depth - 1))
        if c < 0.95:
            return ("not", self.boolean(depth - 1))
        return ("paren", self.boolean(depth - 1))

    def top(self, depth):
        """mostly boolean; sometimes a numeric or string-valued matcher (result typing)"""
        c = self.rng.random()
        if c < 0.93:
            return self.boolean(depth)
        if c < 0.98:
            return self.num_atom(1)
        return self.str_atom()


def enum_acl_asts():
    """complete enumeration, depth <= 2, ACL fields"""
    atoms = []
    for a, b in [(R("r.sub"), R("p.sub")), (R("r.obj"), R("p.obj")), (R("r.act"), R("p.act")), (R("r.sub"), S("alice")), (R("r.obj"), S("data1"))]:
        atoms.append(B("eq", a, b))
        atoms.append(B("ne", a, b))
    d1 = atoms + [("not", a) for a in atoms]
    out = list(d1)
    for op in ("and", "or"):
        for x in d1:
            for y in d1:
                out.append(B(op, x, y))
    return out


# ------------------------------------------------------------------------------------------------
# running one (shape, universe, list of ASTs) work item: spec from Lean, implementation per layout


def build_enforcer(text, shape, groups):
    c = cas()
    e = c.Enforcer(c.Enforcer.new_model(text=text))
    e.add_function("f2", user_f2)
    e.add_function("is_eval", user_f2)
    for g, rules in groups.items():
        for rule in rules:
            e.add_named_grouping_policy(g, *rule)
    return e


def fn_tables(shape, groups):
    """oracle results of the functions over the universe, computed with the real functions"""
    c = cas()
    from casbin import util

    text = shape.model_text("1.0")
    e = build_enforcer(text, shape, groups)
    strs = sorted(set(SUBS + ROLES + OBJS + POBJS + ACTS + DOMS + ["", ".*"]))
    lines = []

    def add(name, args, val):
        lines.append("\t".join(["deffn", enc_str(name), " ".join([str(len(args))] + [t for a in args for t in v_tokens(a)]), " ".join(v_tokens(val))]))

    for a in strs:
        for b in strs:
            add("f2", [a, b], user_f2(a, b))
            add("is_eval", [a, b], user_f2(a, b))
    for g, ar in shape.gdefs:
        f = util.generate_g_function(e.model.model["g"][g].rm)
        names = sorted(set(SUBS + ROLES + OBJS + POBJS))
        for a in names:
            for b in names:
                if ar == 2:
                    add(g, [a, b], f(a, b))
                else:
                    for d in DOMS:
                        add(g, [a, b, d], f(a, b, d))
    from casbin.model import FunctionMap

    fm = FunctionMap.load_function_map().get_functions()
    for name in shape.funcs:
        for a in OBJS + ACTS + SUBS:
            for b in POBJS + ACTS + [".*"] + SUBS:
                try:
                    add(name, [a, b], fm[name](a, b))
                except Exception:
                    pass
    return lines


def env_tokens(shape, req, rule):
    r, p = rp(shape)
    items = [(r + "." + f, v) for f, v in zip(shape.rdef, req)] + [(p + "." + f, v) for f, v in zip(shape.pdef, rule)]
    return " ".join([str(len(items))] + [t for k, v in items for t in [enc_str(k)] + v_tokens(v)])


ERR_RESULT_TYPE = "matcher result should be bool, int or float"


def impl_enforce(e, shape, req, want_ex=False):
    c = cas()
    args = list(req)
    if shape.suffix:
        ctx = e.new_enforce_context(shape.suffix)
        if shape.effect == "some(where (p.eft == allow))":
            ctx.etype = "e"
        args = [ctx] + args
    try:
        if want_ex:
            d, ex = e.enforce_ex(*args)
            return ("ok", bool(d), list(ex))
        return ("ok", bool(e.enforce(*args)), None)
    except RuntimeError as ex:
        if str(ex) == ERR_RESULT_TYPE:
            return ("resultType", None, None)
        return ("exc", f"{type(ex).__name__}: {str(ex)[:120]}", None)
    except Exception as ex:  # noqa
        return ("exc", f"{type(ex).__name__}: {str(ex)[:120]}", None)


def expected_multi(shape, verdicts, rules):
    """the effect expression over the rules in order (C01), restricted to what this property needs: allow-override without
    effect column, deny-override with one; an open / error verdict before the decisive rule leaves the case open"""
    deny = shape.effect.startswith("!some")
    for i, v in enumerate(verdicts):
        if v == "!resultType":
            return ("resultType", None, None)
        if v.startswith("?"):
            return None
        if v == "T":
            if not deny:
                return ("ok", True, i)
            if rules[i][-1] == "deny":
                return ("ok", False, i)
    return ("ok", deny, None)


SIG_F01B = "F01b:text-inside-string-literal-rewritten"


def sig_of(stream, shape, layout, kind, risky=False):
    if stream == "string-literal" or risky:
        return SIG_F01B
    return f"{stream}:{kind}"


def empty_probe(shape, a):
    """matchers with risky literal text are also run against the empty policy (there `has_eval` alone decides between an
    evaluation with empty rule values and the "rule must exist when using eval()" error)"""
    return shape.name != "eval" and not shape.effect.startswith("!some") and has_risky(a["ast"])


def run_item(item):
    """item: dict(shape, rules, groups, reqs, asts (each: dict(ast, rule_asts?)), layouts, seed, stream)"""
    rng = random.Random(item["seed"])
    shape = SHAPES[item["shape"]]
    rules, groups, reqs = item["rules"], item["groups"], item["reqs"]
    stream = item["stream"]
    out = {"evals": 0, "viol": [], "dis": [], "mvs": [], "dist": {}, "nontrivial": set(), "samples": [], "traces": 0}

    def count(k, n=1):
        out["dist"][k] = out["dist"].get(k, 0) + n

    # ---- specification: one driver batch
    lines = ["#reset"] + fn_tables(shape, groups)
    nfn = len(lines)
    index = []
    for ai, a in enumerate(item["asts"]):
        for qi, req in enumerate(reqs):
            for ri, rule in enumerate(a["rules"]):
                ast = subst_eval(a["ast"], a["rule_asts"][ri]) if a.get("rule_asts") else a["ast"]
                lines.append("\t".join(["eval", " ".join(e_tokens(ast)), env_tokens(shape, req, rule)]))
                index.append((ai, qi, ri))
            if empty_probe(shape, a):
                # the empty policy: the matcher is evaluated once, with every p field bound to ""
                lines.append("\t".join(["eval", " ".join(e_tokens(a["ast"])), env_tokens(shape, req, [""] * len(shape.pdef))]))
                index.append((ai, qi, "empty"))
    answers = run_driver("matcher", lines)
    for x in answers[1:nfn]:
        if x != "ok":
            raise common.Infra("deffn rejected: " + x)
    spec = {}
    for key, ans in zip(index, answers[nfn:]):
        if not ans.startswith("spec="):
            raise common.Infra("eval rejected: " + ans)
        spec[key] = ans[5:]

    lay_lines, lay_src = [], []
    # ---- implementation: per AST and layout
    for ai, a in enumerate(item["asts"]):
        toks = tokens(a["ast"])
        arules = a["rules"]
        # operator / comment / eval( / reference-like text inside a string literal of the matcher or of a stored sub-expression
        risky_a = has_risky(a["ast"]) or has_risky(a.get("rule_asts"))
        count("literal:" + ("risky-text-inside" if risky_a else ("plain" if any(t[3] == "s" for t in toks) else "none")))
        for layout in item["layouts"]:
            gaps = gaps_for(toks, layout, rng)
            mtext = render(toks, gaps)
            if stream == "main":
                bg = blank_gaps(gaps)
                lay_lines.append("layout\t" + enc_list(tok_items(toks, bg)))
                lay_src.append(render(toks, bg))
            cfg_layout = rng.choice(["plain", "plain", "tight", "wide"])
            text = shape.model_text(mtext, rng, cfg_layout)
            case_base = {"shape": shape.name, "layout": layout, "matcher": mtext, "model_text": text, "groups": groups, "stream": stream}
            try:
                e = build_enforcer(text, shape, groups)
            except Exception as ex:  # noqa
                # loading must succeed for every layout of a well-formed expression
                definite = any(not spec[(ai, qi, ri)].startswith("?") for qi in range(len(reqs)) for ri in range(len(arules)))
                out["evals"] += 1
                if definite:
                    out["viol"].append(dict(case_base, signature=sig_of(stream, shape, layout, "load:" + type(ex).__name__, risky_a), what=f"model text with matcher {mtext!r} fails to load: {type(ex).__name__}: {str(ex)[:100]}", policy=arules, request=None, expected="loads", observed=f"{type(ex).__name__}: {str(ex)[:120]}"))
                continue
            pol = e.model.model["p"]["p" + shape.suffix]
            # -- pipeline tie: the text handed to ast.parse against Matcher.pipeline
            tie_lines, tie_impl = [], []
            for qi, req in enumerate(reqs):
                # single-rule policies
                for ri, rule in enumerate(arules):
                    v = spec[(ai, qi, ri)]
                    pol.policy = [list(rule)]
                    _Rec.captured.clear()
                    got = impl_enforce(e, shape, req)
                    cap = list(_Rec.captured)
                    out["evals"] += 1
                    count("layout:" + layout)
                    count("shape:" + shape.name)
                    count("verdict:" + (v if not v.startswith("?") else "open"))
                    if qi == 0 and cap:
                        tie_lines.append("\t".join(["pipeline", enc_str(text), enc_str("r" + shape.suffix), enc_str("p" + shape.suffix), enc_str("m" + shape.suffix), str(len(req)), enc_list([enc_str(x) for x in rule], "|")]))
                        tie_impl.append((cap[-1], rule))
                    if v.startswith("?"):
                        continue
                    exp = expected_multi(shape, [v], [rule])[:2] + (None,)
                    if v == "T":
                        out["nontrivial"].add(hash((shape.name, mtext, repr(req), tuple(rule))))
                    if got != exp:
                        kind = "exception:" + got[1].split(":")[0] if got[0] == "exc" else ("wrong-decision" if got[0] == "ok" and exp[0] == "ok" else "result-typing")
                        out["viol"].append(dict(case_base, signature=sig_of(stream, shape, layout, kind, risky_a), what=f"matcher {mtext!r} (shape {shape.name}, layout {layout}) on request {req!r} and the single rule {rule!r}: enforce gives {got[:2]}, the expression evaluates to {v}",
                                                policy=[list(rule)], request=[to_json(x) for x in req], expected=list(exp[:2]), observed=list(got[:2])))
                if (ai, qi, "empty") in spec and not spec[(ai, qi, "empty")].startswith("?") and spec[(ai, qi, "empty")] in ("T", "F"):
                    v = spec[(ai, qi, "empty")]
                    pol.policy = []
                    got = impl_enforce(e, shape, req)
                    out["evals"] += 1
                    count("empty-policy")
                    exp = ("ok", v == "T", None)
                    if got != exp:
                        kind = "exception:" + got[1].split(":")[0] if got[0] == "exc" else "wrong-decision"
                        out["viol"].append(dict(case_base, signature=sig_of(stream, shape, layout, "empty-" + kind, risky_a), what=f"matcher {mtext!r} (shape {shape.name}, layout {layout}) on request {req!r} and the EMPTY policy: enforce gives {got[:2]}, the expression with empty rule values evaluates to {v}",
                                                policy=[], request=[to_json(x) for x in req], expected=list(exp[:2]), observed=list(got[:2])))
                # multi-rule policy, with explanation
                if len(arules) > 1:
                    pol.policy = [list(r) for r in arules]
                    exp = expected_multi(shape, [spec[(ai, qi, ri)] for ri in range(len(arules))], arules)
                    got = impl_enforce(e, shape, req, want_ex=True)
                    out["evals"] += 1
                    count("multi-rule")
                    if exp is None:
                        continue
                    if exp[0] == "ok":
                        expn = ("ok", exp[1], list(arules[exp[2]]) if exp[2] is not None else [])
                    else:
                        expn = exp
                    if got != expn:
                        kind = "exception:" + got[1].split(":")[0] if got[0] == "exc" else ("wrong-decision" if got[0] == "ok" and exp[0] == "ok" else "result-typing")
                        out["viol"].append(dict(case_base, signature=sig_of(stream, shape, layout, "multi-" + kind, risky_a), what=f"matcher {mtext!r} (shape {shape.name}, layout {layout}) on request {req!r} and policy {arules!r}: enforce_ex gives {got}, rule-by-rule evaluation gives {expn}",
                                                policy=[list(r) for r in arules], request=[to_json(x) for x in req], expected=list(expn), observed=list(got), multi=True))
            if tie_lines:
                for (cap, rule), ans in zip(tie_impl, run_driver("matcher", tie_lines)):
                    out["traces"] += 1
                    if ans != enc_str(cap):
                        out["dis"].append({"what": "text handed to ast.parse vs Matcher.pipeline", "model_text": text, "rule": rule, "impl": cap, "model": ans if ans.startswith("!") else dec_str(ans)})
            if len(out["samples"]) < 2:
                out["samples"].append({"shape": shape.name, "layout": layout, "matcher": mtext, "policy": arules[:2], "request": repr(reqs[0]), "spec": spec[(ai, 0, 0)]})
    # ---- token level, three ways: real functions / Lean model / right-hand side of the layout theorems
    if lay_lines:
        from casbin import util

        for src, ans in zip(lay_src, run_driver("matcher", lay_lines)):
            f = dict(x.split("=", 1) for x in ans.split(" "))
            out["evals"] += 1
            count("layout-op:" + ("hyp" if f.get("hyp") == "T" else "outside-hyp") + ("+literals" if f.get("nlit", "0") != "0" else ""))
            if dec_str(f["src"]) != src:
                out["dis"].append({"what": "Lean `render` vs the harness renderer", "harness": src, "lean": dec_str(f["src"])})
                continue
            impl = impl_getexpr(util.escape_assertion(src))
            if enc_str(impl) != f["model"]:
                out["dis"].append({"what": "_get_expression(escape_assertion(text)) vs Model", "text": src, "impl": impl, "model": dec_str(f["model"])})
            if f["hyp"] == "T" and (f["model"] != f["spec"] or f.get("lits") != "T"):
                out["mvs"].append({"text": src, "model": dec_str(f["model"]), "spec": dec_str(f["spec"]), "literals_preserved": f.get("lits")})
    return out


def make_rules_for_ast(shape, ast, rules, rng, layout_pool, brackets=False):
    """the policy an AST is run against; for eval() shapes each rule carries a sub-expression (AST + rendered text)"""
    if shape.name != "eval":
        return {"ast": ast, "rules": rules}
    g = Gen(SHAPES["eval"], rng, no_eval=True)  # sub-expressions talk about the request (r.sub.age …) and the rule's other fields
    rule_asts, out_rules = [], []
    for rule in rules:
        sub, sub2 = g.boolean(1), g.boolean(1)
        if brackets or rng.random() < 0.25:
            # a stored sub-expression that itself begins and ends with a bracket: (A) || (B), (A) && (B), (A)
            sub = rng.choice([B(rng.choice(["or", "or", "and"]), ("paren", g.boolean(1)), ("paren", g.boolean(1))), ("paren", sub)])
        if brackets and rng.random() < 0.5:
            sub2 = B(rng.choice(["or", "and"]), ("paren", g.bool_atom()), ("paren", g.bool_atom()))
        txt = render_inline(tokens(sub), rng.choice(layout_pool), rng)
        txt2 = render_inline(tokens(sub2), rng.choice(layout_pool), rng)
        rule_asts.append({"p.sub_rule": sub, "p.rule2": sub2})
        out_rules.append([txt] + list(rule[1:3]) + [txt2])
    return {"ast": ast, "rules": out_rules, "rule_asts": rule_asts}


def build_items(ctx, deep):
    rng = ctx["rng"]
    items = []
    # (1) complete enumeration on the ACL shape x every fixed layout
    asts = enum_acl_asts()
    fixed = [l for l in LAYOUTS if l != "random"]
    acl = SHAPES["acl"]
    rules = [["alice", "data1", "read"], ["bob", "data2", "write"], ["alice", "data2", "read"]]
    reqs = [["alice", "data1", "read"], ["bob", "data1", "read"], ["alice", "data2", "write"]]
    step = 40
    for i in range(0, len(asts), step):
        items.append(dict(shape="acl", rules=rules, groups={}, reqs=reqs, asts=[{"ast": a, "rules": rules} for a in asts[i : i + step]], layouts=fixed if deep else fixed[:7], seed=rng.getrandbits(32), stream="main"))
    # (2) every shape: base matcher + typed random expressions, all layouts incl. random ones
    n_per_shape = 1200 if deep else 96
    for name, shape in SHAPES.items():
        for chunk in range(n_per_shape // 12):
            r2 = random.Random(rng.getrandbits(32))
            rules, groups, reqs = gen_universe(shape, r2)
            g = Gen(shape, r2)
            alist = [shape.base] + [g.top(r2.choice([1, 2, 2, 3])) for _ in range(11)]
            # requests that carry the text of a risky literal of these matchers (so that comparisons with it are true sometimes)
            reqs = reqs[:4]
            for t in risky_strings(alist, [])[:2]:
                rq = list(reqs[r2.randrange(len(reqs))])
                fi = r2.choice([0, len(rq) - 1]) if not is_abac(shape) else len(rq) - 1
                rq[fi] = t
                reqs.append(rq)
            items.append(dict(shape=name, rules=rules, groups=groups, reqs=reqs, asts=[make_rules_for_ast(shape, a, rules, r2, LAYOUTS) for a in alist], layouts=r2.sample(LAYOUTS, 3) + ["random"], seed=r2.getrandbits(32), stream="main"))
    # (3) outside the hypotheses of the layout theorems: risky string literals (F01b)
    for chunk in range(6 if deep else 2):
        r2 = random.Random(rng.getrandbits(32))
        shape = SHAPES["acl"]
        rules, groups, reqs = gen_universe(shape, r2)
        g = Gen(shape, r2, lits_risky=True)
        alist = []
        for _ in range(10):
            lit = g.str_atom()
            while lit[0] != "str":
                lit = g.str_atom()
            alist.append(B("or", B("eq", R("r.sub"), lit), B("ne", R("r.obj"), lit)))
        reqs = reqs[:2] + [[x[2][3][1], "o", "read"] for x in alist[:3]]
        items.append(dict(shape="acl", rules=rules, groups=groups, reqs=reqs, asts=[{"ast": a, "rules": rules} for a in alist], layouts=["single"], seed=r2.getrandbits(32), stream="string-literal"))
    # (4) every spelling of the eval() call, in the main stream: blanks / TABs between `eval` and `(` and around the argument
    r2 = random.Random(rng.getrandbits(32))
    shape = SHAPES["eval"]
    rules, groups, reqs = gen_universe(shape, r2)
    forms = ("eval(X)", "eval( X )", "eval (X)", "eval(X )", "eval( X)", "eval  (  X  )", "eval\t(\tX\t)")
    alist = [AND(("evalform", "p.sub_rule", form), B("or", B("eq", ("attr", R("r.obj"), "name"), R("p.obj")), ("evalform", "p.rule2", forms[(i + 3) % len(forms)]))) for i, form in enumerate(forms)]
    items.append(dict(shape="eval", rules=rules, groups=groups, reqs=reqs[:3], asts=[make_rules_for_ast(shape, a, rules, r2, ["single"]) for a in alist], layouts=["tight", "single"], seed=r2.getrandbits(32), stream="main"))
    # (5) sub-expressions stored in the rule that begin and end with a bracket, under &&, || and ! in the matcher:
    # eval() stands for the WHOLE stored expression, whatever its own bracketing
    for chunk in range(10 if deep else 3):
        r2 = random.Random(rng.getrandbits(32))
        rules, groups, reqs = gen_universe(shape, r2)
        ev, ev2 = ("eval", "p.sub_rule"), ("eval", "p.rule2")
        name_ok = B("eq", ("attr", R("r.obj"), "name"), R("p.obj"))
        alist = [shape.base, AND(ev, name_ok), AND(name_ok, ev), B("and", ("not", ev), name_ok), B("or", B("and", name_ok, ev), B("and", ev2, B("eq", R("r.act"), R("p.act")))), B("and", ev, ev2)]
        items.append(dict(shape="eval", rules=rules, groups=groups, reqs=reqs[:5], asts=[make_rules_for_ast(shape, a, rules, r2, ["single", "tight", "double"], brackets=True) for a in alist], layouts=["tight", "single"], seed=r2.getrandbits(32), stream="main"))
    # (6) string literals with blanks in them (runs of blanks, leading / trailing blank, TAB): a literal is a value, its
    # blanks are not layout
    acl = SHAPES["acl"]
    blanky = ["a  b", " a", "a ", "a\tb", "a b", "x   y  z", "  "]
    for chunk in range(4 if deep else 1):
        r2 = random.Random(rng.getrandbits(32))
        rules = [[r2.choice(blanky + SUBS), r2.choice(POBJS[:2] + blanky), r2.choice(ACTS)] for _ in range(3)]
        reqs = [[r2.choice(blanky), r2.choice(OBJS[:2] + blanky), r2.choice(ACTS)] for _ in range(4)] + [["a b", "a b", "read"], ["a  b", "a  b", "read"]]
        alist = []
        for lit in blanky:
            other = r2.choice(blanky)
            alist.append(B("or", B("eq", R("r.sub"), S(lit)), B("and", B("eq", R("r.obj"), S(other)), B("ne", R("p.sub"), S(lit)))))
            alist.append(B("in", R("r.sub"), ("tuple", [S(lit), S("alice")])))
        items.append(dict(shape="acl", rules=rules, groups={}, reqs=reqs, asts=[{"ast": a, "rules": rules} for a in alist], layouts=fixed if deep else ["tight", "single", "double", "cont-before", "comment", "tab"], seed=r2.getrandbits(32), stream="main"))
    # (7) string literals inside the sub-expression STORED IN THE RULE (escape_assertion of the rule text, splicing by
    # replace_eval, operator rewriting of the spliced text), and literals with eval(...) text next to real eval() calls
    shape = SHAPES["eval"]
    for chunk in range(6 if deep else 2):
        r2 = random.Random(rng.getrandbits(32))
        rules, groups, reqs = gen_universe(shape, r2)
        reqs = reqs[:3]
        lits = r2.sample(RISKY, 4)
        out_rules, rule_asts = [], []
        for i, rule in enumerate(rules):
            a, b = S(lits[i % 4], r2.choice("\"'") if r2.random() < 0.5 else None), S(lits[(i + 1) % 4])
            sub = B(r2.choice(["or", "and"]), B("eq", ("attr", R("r.sub"), "name"), a), B("ne", R("r.act"), b))
            sub2 = B("or", B("eq", R("r.act"), b), B("eq", ("attr", R("r.obj"), "owner"), a))
            rule_asts.append({"p.sub_rule": sub, "p.rule2": sub2})
            out_rules.append([render_inline(tokens(sub), r2.choice(["single", "tight", "double"]), r2)] + list(rule[1:3]) + [render_inline(tokens(sub2), r2.choice(["single", "tight"]), r2)])
        for t in lits[:3]:
            rq = list(reqs[r2.randrange(len(reqs))])
            rq[0] = Obj(dict(rq[0].__dict__, name=t))
            rq[2] = r2.choice([t, rq[2]])
            reqs.append(rq)
        ev, ev2 = ("eval", "p.sub_rule"), ("eval", "p.rule2")
        name_ok = B("eq", ("attr", R("r.obj"), "name"), R("p.obj"))
        alist = [ev, B("or", ev, ev2), AND(ev, B("ne", R("r.act"), S("eval(p.rule2)"))), B("or", B("eq", R("r.act"), S("eval(p.sub_rule)", "'")), AND(name_ok, ev2)), B("and", ("not", ev), B("ne", S(lits[0]), S(lits[1])))]
        items.append(dict(shape="eval", rules=rules, groups=groups, reqs=reqs, asts=[{"ast": a, "rules": out_rules, "rule_asts": rule_asts} for a in alist], layouts=["tight", "single", "comment"], seed=r2.getrandbits(32), stream="string-literal"))
    return items


def run_end_to_end(ctx, res, pool):
    deep = ctx["deep"]
    items = build_items(ctx, deep)
    for out in pool.imap_unordered(run_item, items):
        res.evaluations += out["evals"]
        res.traces_validated += out["traces"]
        res.nontrivial |= out["nontrivial"]
        for k, n in out["dist"].items():
            res.count(k, n)
        for v in out["viol"]:
            res.violation(v)
        for d in out["dis"]:
            res.disagree(d)
        res.model_vs_spec.extend(out["mvs"])
        for s in out["samples"]:
            res.sample(s)


# ------------------------------------------------------------------------------------------------
# environment streams: what the role functions and the user-registered functions are bound to


def _rolefn_judge(res, cfg, hist, i, op, rec, model, case, queries):
    """decisions after the role environment changed (grants, revocations, a swapped role manager, a reload) against the
    Lean enforcer model, whose g(...) is reachability in the current grouping rules (Props/C15 enforce_iff_implicit_permission)"""
    for q, a, m in zip(queries, rec["answers"], model["answers"]):
        if q[0] == "enforce" and a != m:
            res.violation({"signature": f"C02:rolefn-binding:{cfg.shape}", "stream": "rolefn",
                           "what": f"{cfg.shape} model: after {[list(o) for o in hist[: i + 1]]} the request {list(q[1])} is decided {a}; with g bound to the current role assignments the matcher gives {m}",
                           "case": case, "query": list(q), "expected": m, "observed": a})
            return False
    return True


def run_rolefn_binding(ctx, res):
    import enf_corr as ec

    rng = ctx["rng"]
    jobs = []
    for shape in ("rbac", "dom", "res"):
        P, G, G2, R = ec.universe(shape)
        init = {"p": P, "g": G[:2], "g2": G2[:1]}
        env = [("setrm",), ("load", None), ("build",), ("clear",)]
        grants = [("add", "g", r) for r in G] + [("remove", "g", r) for r in G] + [("removefiltered", "g", 0, [G[0][0]])]
        if shape == "res":
            grants += [("add", "g2", r) for r in G2] + [("remove", "g2", r) for r in G2]
        cfg = ec.Config(shape, adapter=True, watcher=None, initial=init)
        for a in env:
            for b in grants:
                jobs.append((cfg, [a, b]))
                jobs.append((cfg, [b, a, rng.choice(grants)]))
        for _ in range(60 if not ctx["deep"] else 400):
            jobs.append((cfg, [rng.choice(env + grants + grants) for _ in range(rng.randint(3, 7))]))
    ec.run_configs(res, jobs, _rolefn_judge, fresh_oracle=False)


def _iso_worker(seed):
    """two enforcers in one process register different functions under the same name (and one overrides a built-in):
    every decision must be the matcher's value with the enforcer's OWN functions"""
    rng = random.Random(seed)
    c = cas()
    text = """[request_definition]
r = sub, obj, act
[policy_definition]
p = sub, obj, act
[policy_effect]
e = some(where (p.eft == allow))
[matchers]
m = r.sub == p.sub && fn(r.obj, p.obj) && keyMatch(r.act, p.act)
"""
    from casbin import util

    fns = {
        "prefix": lambda a, b: a.startswith(b),
        "equal": lambda a, b: a == b,
        "never": lambda a, b: False,
        "suffix": lambda a, b: a.endswith(b),
    }
    kms = {"builtin": None, "always": lambda a, b: True, "equal": lambda a, b: a == b}
    objs = ["/data", "/data/1", "/dat", "/x/data"]
    acts = ["read", "re*", "*", "write"]
    out = {"evals": 0, "viol": []}
    n_enf = rng.randint(2, 4)
    plan = [(rng.choice(sorted(fns)), rng.choice(sorted(kms))) for _ in range(n_enf)]
    enfs = []
    script = []

    def check(k):
        e, fk, kk = enfs[k]
        km = kms[kk] or util.key_match_func
        for ro in objs:
            for po in objs[:2]:
                for ra, pa in (("read", "read"), ("read", "re*"), ("write", "*"), ("write", "read")):
                    e.model.model["p"]["p"].policy = [["alice", po, pa]]
                    try:
                        got = e.enforce("alice", ro, ra)
                    except Exception as ex:  # noqa
                        got = f"{type(ex).__name__}"
                    exp = bool(fns[fk](ro, po)) and bool(km(ra, pa))
                    out["evals"] += 1
                    if got != exp:
                        out["viol"].append({"signature": "C02:function-isolation", "stream": "isolation", "seed": seed,
                                            "what": f"enforcer #{k} (fn={fk}, keyMatch={kk}) after the script {script}: request ('alice', {ro!r}, {ra!r}) on rule ['alice', {po!r}, {pa!r}] is decided {got}; with its own functions the matcher gives {exp}",
                                            "expected": exp, "observed": got})
                        return False
        return True

    for k, (fk, kk) in enumerate(plan):
        e = c.Enforcer(c.Enforcer.new_model(text=text))
        e.add_function("fn", fns[fk])
        if kms[kk] is not None:
            e.add_function("keyMatch", kms[kk])
        enfs.append((e, fk, kk))
        script.append(["new", k, fk, kk])
        # every enforcer built so far is re-checked after each registration
        for j in rng.sample(range(len(enfs)), len(enfs)):
            script.append(["check", j])
            if not check(j):
                return out
    # a function registered again under the same name AFTER the enforcer has decided requests replaces the old one at once
    for _ in range(2):
        k = rng.randrange(len(enfs))
        e, fk, kk = enfs[k]
        fk2 = rng.choice([x for x in sorted(fns) if x != fk])
        e.add_function("fn", fns[fk2])
        kk2 = rng.choice(sorted(kms))
        if kms[kk2] is not None:
            e.add_function("keyMatch", kms[kk2])
        else:
            kk2 = kk  # a built-in cannot be un-registered: keep what is there
        enfs[k] = (e, fk2, kk2)
        script.append(["re-register", k, fk2, kk2])
        for j in range(len(enfs)):
            script.append(["check", j])
            if not check(j):
                return out
    return out


EVAL_G_TEXT = """[request_definition]
r = sub, obj, act
r2 = sub, obj, act
[policy_definition]
p = sub_rule, obj, act
p2 = sub_rule, obj, act
[role_definition]
g = _, _
[policy_effect]
e = some(where (p.eft == allow))
e2 = some(where (p.eft == allow))
[matchers]
m = %s
m2 = eval(p2.sub_rule) && r2.obj == p2.obj && r2.act == p2.act
"""


def _eval_g_worker(scenario):
    """a role function that occurs only inside a rule-supplied sub-expression spliced in by eval(): the rule takes part
    exactly when the sub-expression is true, with g bound to the current role assignments (fresh enforcer per scenario:
    nothing else has bound g before)"""
    c = cas()
    which, m_text = scenario
    e = c.Enforcer(c.Enforcer.new_model(text=EVAL_G_TEXT % m_text))
    G = [["alice", "admin"], ["admin", "root"], ["bob", "staff"]]
    for u, r in G:
        e.add_grouping_policy(u, r)
    reach = {u: {u} for u in ("alice", "bob", "carol", "admin", "root", "staff")}
    changed = True
    while changed:
        changed = False
        for u, r in G:
            for x in reach:
                if u in reach[x] and r not in reach[x]:
                    reach[x].add(r)
                    changed = True
    rules = [['g(r.sub, "admin")', "data1", "read"], ['g(r.sub, "root") && r.sub != "admin"', "data2", "read"], ['r.sub == "carol" || g(r.sub, "staff")', "data3", "read"]]
    rules2 = [[x[0].replace("r.sub", "r2.sub"), x[1], x[2]] for x in rules]
    e.model.model["p"]["p"].policy = [list(r) for r in rules]
    e.model.model["p"]["p2"].policy = [list(r) for r in rules2]

    def truth(sub, k):
        if k == 0:
            return "admin" in reach[sub]
        if k == 1:
            return "root" in reach[sub] and sub != "admin"
        return sub == "carol" or "staff" in reach[sub]

    out = {"evals": 0, "viol": []}
    ctx2 = e.new_enforce_context("2")
    order = [("m2", (ctx2,)), ("m", ())] if which == "context-first" else [("m", ()), ("m2", (ctx2,))]
    if which == "eval-only":
        order = [("m", ())]
    for name, pre in order:
        for sub in ("alice", "bob", "carol", "admin"):
            for k, (_, obj, act) in enumerate(rules):
                exp = truth(sub, k)
                try:
                    got = e.enforce(*pre, sub, obj, act)
                except Exception as ex:  # noqa
                    got = f"{type(ex).__name__}: {str(ex)[:60]}"
                out["evals"] += 1
                if name == "m" and not m_text.startswith("eval("):
                    continue  # m calls g directly with the rule's first field as a role name: only used to bind g first / later
                if got != exp:
                    out["viol"].append({"signature": "C02:eval-rolefn", "stream": "evalg", "scenario": list(scenario),
                                        "what": f"scenario {which} (m = {m_text!r}), matcher {name}: request ({sub}, {obj}, {act}) with the rule sub-expression {rules[k][0]!r} is decided {got}; the sub-expression is {exp} under the current role assignments",
                                        "expected": exp, "observed": got})
                    return out
    return out


def run_eval_rolefn(ctx, res, pool):
    scenarios = [("eval-only", "eval(p.sub_rule) && r.obj == p.obj && r.act == p.act"),
                 ("context-first", "g(r.sub, p.sub_rule) && r.obj == p.obj"),
                 ("plain-first", "g(r.sub, p.sub_rule) && r.obj == p.obj"),
                 ("context-first", "eval(p.sub_rule) && r.obj == p.obj && r.act == p.act")]
    for out in pool.imap_unordered(_eval_g_worker, scenarios, chunksize=1):
        res.evaluations += out["evals"]
        res.count("stream:eval-rolefn", out["evals"])
        for v in out["viol"]:
            res.violation(v)


def run_function_isolation(ctx, res, pool):
    seeds = [ctx["rng"].randrange(1 << 30) for _ in range(24 if not ctx["deep"] else 200)]
    # each plan runs in a fresh process: class-level state leaked between enforcers is per process
    for out in pool.imap_unordered(_iso_worker, seeds, chunksize=1):
        res.evaluations += out["evals"]
        res.count("stream:function-isolation", out["evals"])
        for v in out["viol"]:
            res.violation(v)


def run(ctx):
    res = common.Result()
    cas()
    mp = multiprocessing.get_context("fork")
    with mp.Pool(NPROC, maxtasksperchild=1) as pool:
        run_function_isolation(ctx, res, pool)
        run_eval_rolefn(ctx, res, pool)
    with mp.Pool(NPROC) as pool:
        run_char_level(ctx, res, pool)
        run_end_to_end(ctx, res, pool)
    run_rolefn_binding(ctx, res)
    res.exhaustive = True
    res.rule = (
        "char-level: every string over the per-function alphabets / piece sets up to the stated length through the real function and the "
        "Lean model (exhaustive) + seeded random ASCII text; end-to-end: every ACL expression of depth <= 2 (10 atoms, !, &&, ||) x fixed layouts, "
        "and typed random expressions of depth <= 3 for 9 model shapes x layouts (tight / single / double / TAB / continuation before or after "
        "&& and || / trailing comment / random gaps) x config layouts, each on single-rule policies and on a multi-rule policy (enforce_ex "
        "explanation), against Lean evalExpr, incl. eval() sub-expressions that begin and end with a bracket and string literals with blanks in them; environment streams: role functions after grants / revocations / a swapped role manager / reload / clear "
        "against the Lean enforcer model, and 2-4 enforcers per process registering different functions under one name (one overriding keyMatch), each "
        "re-checked after every later registration; non-trivial = the expression is true of (request, rule); distinct by (shape, matcher text, request, rule)"
    )
    return res


# ------------------------------------------------------------------------------------------------
# replay (real code only)


def replay(obj):
    if obj.get("stream") == "evalg":
        return bool(_eval_g_worker(tuple(obj["scenario"]))["viol"])
    if obj.get("stream") == "isolation":
        return bool(_iso_worker(obj["seed"])["viol"])
    if obj.get("stream") == "rolefn":
        import enf_corr as ec

        c = obj["case"]["config"]
        cfg = ec.Config(c["shape"], adapter=c["adapter"], watcher=c["watcher"], initial=c["initial"])
        q = tuple(tuple(x) if isinstance(x, list) else x for x in obj["query"])
        out = ec.run_history(cfg, [tuple(o) for o in obj["case"]["history"]], [q])
        return out[-1]["answers"][0] != obj["expected"]
    if obj.get("stream") == "restype":
        v = {"bT": True, "bF": False, "f1": 1.5, "f0": 0.0, "i1": 3, "i0": 0, "o": "x"}[obj["value_kind"]]
        return impl_result_typing(v) != obj["expected"]
    shape = SHAPES[obj["shape"]]
    try:
        e = build_enforcer(obj["model_text"], shape, obj.get("groups", {}))
    except Exception:  # noqa
        return obj["expected"] == "loads"
    if obj.get("request") is None:
        return False
    e.model.model["p"]["p" + shape.suffix].policy = [list(r) for r in obj["policy"]]
    req = [from_json(x) for x in obj["request"]]
    got = impl_enforce(e, shape, req, want_ex=bool(obj.get("multi")))
    exp = obj["expected"]
    got_l = list(got) if obj.get("multi") else list(got[:2])
    return got_l != list(exp)
