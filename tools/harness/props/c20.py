"""C20 — every successful policy change notifies the watcher exactly once"""
import common
import enf_corr as ec
from common import enc_list, enc_rule, enc_rules, enc_str

TRANSLATORS = []
LEVEL = "proof"
ASSUMPTIONS = [
    "management calls = the ManagementEnforcer add/remove/update API (single, batch, filtered) and save_policy; the RBAC wrappers (delete_user ...) are compositions of those and notify once per composed call",
    "the order 'notification after the in-memory and adapter changes': Props/C20o (adapter calls precede notifications in the model's single event sequence, tied to the real call order) and, on the real code, the watcher callback inspects memory and the adapter's store at the moment it is called",
]
TRUSTED_EXTRA = []

CHANGE = ("add", "addmany", "remove", "removemany", "removefiltered", "update", "updatemany", "removeread", "updateread", "updatefiltered")


EX_CALLBACKS = {"add_policy", "remove_policy", "remove_filtered_policy", "save_policy", "add_policies", "remove_policies"}
UPD_CALLBACKS = {"update_policy", "update_policies"}
CALLBACK_OF = {"add": "add_policy", "addmany": "add_policies", "remove": "remove_policy", "removemany": "remove_policies", "removefiltered": "remove_filtered_policy",
               "update": "update_policy", "updatemany": "update_policies", "save": "save_policy"}


def offered(kind):
    if kind == "ex":
        return EX_CALLBACKS
    if kind == "upd":
        return UPD_CALLBACKS
    if kind and kind.startswith("part:"):
        return set(x for x in kind[5:].split(",") if x)
    return set()


def expected(op, kind):
    """the one notification the property prescribes for a successful call: the callback that corresponds to the
    operation if the watcher offers it, else the generic update"""
    n = op[0]
    if n == "updatefiltered" or CALLBACK_OF[n] not in offered(kind):
        return "update"  # (no specific callback exists for the filtered update)
    if n == "update":
        return f"update_for_update_policy/{enc_rule(op[1])}/{enc_rule(op[2])}"
    if n == "updatemany":
        return f"update_for_update_policies/{enc_rules(op[1])}/{enc_rules(op[2])}"
    if n == "save":
        return "update_for_save_policy"
    sec = op[1]
    if n == "add":
        return f"update_for_add_policy/{sec}/{enc_rule(op[2])}"
    if n == "addmany":
        return f"update_for_add_policies/{sec}/{enc_rules(op[2])}"
    if n == "remove":
        return f"update_for_remove_policy/{sec}/{enc_rule(op[2])}"
    if n == "removemany":
        return f"update_for_remove_policies/{sec}/{enc_rules(op[2])}"
    if n == "removefiltered":
        return f"update_for_remove_filtered_policy/{sec}/{op[2]}/{enc_list([enc_str(v) for v in op[3]])}"
    raise ValueError(op)


def judge(res, cfg, hist, i, op, rec, model, case, queries):
    sig_op = op
    if op[0] == "removeread":  # the argument is what the read returned: the stored rules before the call
        op = ("removemany", op[1], rec["pre"][op[1]])
    elif op[0] == "updateread":
        op = ("updatemany", rec["pre"]["p"], [list(r[:-1]) + [r[-1] + op[1]] for r in rec["pre"]["p"]])
    notify_on = True
    save_on = True
    for o in hist[:i]:
        if o[0] == "autonotify":
            notify_on = o[1]
        if o[0] == "autosave":
            save_on = o[1]
    if op[0] not in CHANGE and op[0] != "save":
        return True
    success = rec["ret"] == "T" or (rec["ret"].startswith("L") and rec["ret"] != "L~") or (op[0] == "save" and rec["ret"] == "-")
    raised = rec["ret"].startswith("!")
    if raised:
        # a call that fails by raising reports failure: no notification either
        if rec["wcalls"]:
            res.violation(
                {
                    "signature": f"C20:{sig_op[0]}:{sig_op[1] if len(sig_op) > 1 and sig_op[1] in ('p', 'g', 'g2') else ''}:{cfg.watcher}{':async' if cfg.is_async else ''}{':async-update' if getattr(cfg, 'async_update', False) else ''}:raised",
                    "what": f"{cfg.shape}, {cfg.watcher} watcher: {list(sig_op)} raised {rec['ret']} and yet notified {rec['wcalls']}",
                    "case": case,
                    "expected": [],
                    "observed": rec["wcalls"],
                    "model_text": ec.TEXT[cfg.shape],
                }
            )
            return False
        return True
    if sig_op[0] == "updatefiltered" and not save_on and notify_on:
        # the property speaks about auto-save on (and about auto-notify off); the filtered update notifies outside
        # the auto-save guard, which it neither demands nor forbids
        return True
    if op[0] == "save":
        exp = [expected(op, cfg.watcher)]
    elif success and notify_on and save_on:
        exp = [expected(op, cfg.watcher)]
    else:
        exp = []
    if model is not None and model["wcalls"] != exp and rec["ret"] == model["ret"]:
        res.model_vs_spec.append({"case": case, "model": model["wcalls"], "spec": exp})
        return False
    # "issued after the in-memory and adapter changes": at the moment of the notification memory and store already are
    # what they are when the call returns
    for snap in rec.get("wsnaps", []):
        late_mem = snap["pol"] != rec["pol"]
        late_store = snap["store"] is not None and rec.get("store") is not None and snap["store"] != rec["store"]
        if late_mem or late_store:
            res.violation(
                {
                    "signature": f"C20:{sig_op[0]}:{sig_op[1] if len(sig_op) > 1 and sig_op[1] in ('p', 'g', 'g2') else ''}:{cfg.watcher}{':async' if cfg.is_async else ''}{':async-update' if getattr(cfg, 'async_update', False) else ''}:order",
                    "what": f"{cfg.shape}, {cfg.watcher} watcher: {list(sig_op)} notified {rec['wcalls']} while {'memory' if late_mem else 'the adapter'} did not yet hold the change: at notification {snap['pol'] if late_mem else snap['store']}, on return {rec['pol'] if late_mem else rec['store']}",
                    "case": case,
                    "expected": "notified after the in-memory and adapter changes",
                    "observed": "notified before",
                    "model_text": ec.TEXT[cfg.shape],
                    "order": True,
                }
            )
            return False
    if rec["wcalls"] != exp:
        res.violation(
            {
                "signature": f"C20:{sig_op[0]}:{sig_op[1] if len(sig_op) > 1 and sig_op[1] in ('p', 'g', 'g2') else ''}:{cfg.watcher}{':async' if cfg.is_async else ''}{':async-update' if getattr(cfg, 'async_update', False) else ''}",
                "what": f"{cfg.shape}, {cfg.watcher} watcher: {list(sig_op)} returned {rec['ret']} and notified {rec['wcalls']}; expected {exp}",
                "case": case,
                "expected": exp,
                "observed": rec["wcalls"],
                "model_text": ec.TEXT[cfg.shape],
            }
        )
        return False
    return True


def gen(ctx, deep):
    rng = ctx["rng"]
    jobs = []
    shape = "rbac"
    P, G, G2, R = ec.universe(shape)
    ops = [o for o in ec.op_alphabet(shape) if o[0] in CHANGE or o[0] == "save"]
    ops += [("update", P[0], P[1]), ("updatemany", [P[0], P[1]], [P[1], P[0]]), ("updatemany", [P[0]], [P[0][:-1] + ["write"]])]
    inits = [{"p": [], "g": [], "g2": []}, {"p": P, "g": G, "g2": G2}]
    for is_async in (False, True):
        for kind in ("plain", "ex", "upd"):
            for init in inits:
                cfg = ec.Config(shape, adapter=True, watcher=kind, initial=init, is_async=is_async)
                for a in ops:
                    jobs.append((cfg, [a]))
                    jobs.append((cfg, [("autonotify", False), a]))
                    jobs.append((cfg, [("autosave", False), a]))
                    jobs.append((cfg, [("autonotify", False), ("setwatcher",), a]))
                    jobs.append((cfg, [("setwatcher",), a]))
                    # the watcher is REPLACED by another object of the same kind after a call of the same sort was already served
                    b = next((o for o in ops if o[0] == a[0] and o != a), a)
                    jobs.append((cfg, [a, ("swapwatcher", kind, is_async, False), b]))
                    if not is_async:
                        # reloading the MODEL invalidates the policy but must leave watcher and flags alone
                        jobs.append((cfg, [("loadmodel",), a]))
                        jobs.append((cfg, [("autonotify", False), ("loadmodel",), a]))
                if is_async and kind in ("ex", "upd"):
                    # the async enforcer also serves watchers whose operation-specific callbacks are plain functions
                    scfg = ec.Config(shape, adapter=True, watcher=kind, initial=init, is_async=True)
                    scfg.sync_callbacks = True
                    for a in ops:
                        jobs.append((scfg, [a]))
                if is_async:
                    # ... and fully asynchronous watchers: the generic update() is a coroutine function like the callbacks
                    ucfg = ec.Config(shape, adapter=True, watcher=kind, initial=init, is_async=True)
                    ucfg.async_update = True
                    for a in ops:
                        jobs.append((ucfg, [a]))
                        jobs.append((ucfg, [("autonotify", False), a]))
                if not is_async or deep:
                    for a in ops:
                        for b in ops:
                            jobs.append((cfg, [a, b]))
            # a model with a second role definition (g2): its calls, valid and refused, notify like those of g
            P2, G2a, G2b, _ = ec.universe("res")
            ops2 = [o for o in ec.op_alphabet("res") if (o[0] in CHANGE or o[0] == "save") and len(o) > 1 and o[1] == "g2"]
            for init2 in ({"p": [], "g": [], "g2": []}, {"p": P2, "g": G2a, "g2": G2b}):
                cfg2 = ec.Config("res", adapter=True, watcher=kind, initial=init2, is_async=is_async)
                for a in ops2:
                    jobs.append((cfg2, [a]))
                    jobs.append((cfg2, [a, rng.choice(ops2)]))
            n = 150 if not deep else 1500
            for _ in range(n):
                cfg = ec.Config(shape, adapter=True, watcher=kind, initial=rng.choice(inits), is_async=is_async)
                h = [rng.choice(ops) for _ in range(rng.randint(3, 8))]
                if rng.random() < 0.3:
                    h.insert(rng.randrange(len(h)), ("autonotify", rng.random() < 0.5))
                jobs.append((cfg, h))
    return jobs


def unfaithful_adapter_stream(ctx, res, deep):
    """adapters outside the Lean model's faithful adapter: (a) an adapter whose add_policy / remove_policy answer False for one
    designated rule, (b) an adapter without the batch methods.  Judged on the implementation only: a call that reports
    failure notifies nobody, a call that reports success notifies exactly once with the prescribed callback"""
    rng = ctx["rng"]
    shape = "rbac"
    P, G, G2, R = ec.universe(shape)
    ops = [o for o in ec.op_alphabet(shape) if o[0] in ("add", "addmany", "remove", "removemany")]
    n = 0
    for is_async in (False, True):
        for kind in ("plain", "ex"):
            for variant in ("rejects-add", "rejects-remove", "nobatch"):
                for init in ({"p": [], "g": [], "g2": []}, {"p": P, "g": G, "g2": G2}):
                    for op in ops:
                        cfg = ec.Config(shape, adapter=True, watcher=kind, initial=init, is_async=is_async)
                        e, ad, w = ec.build_enforcer(cfg)
                        if variant.startswith("rejects"):
                            bad = [list(P[0]), list(G[0])]
                            for name in (("add_policy",) if variant == "rejects-add" else ("remove_policy",)):
                                orig = getattr(ad, name)

                                def mk(orig):
                                    if is_async:
                                        async def f(sec, ptype, rule):
                                            if list(rule) in bad:
                                                return False
                                            return await orig(sec, ptype, rule)
                                    else:
                                        def f(sec, ptype, rule):
                                            if list(rule) in bad:
                                                return False
                                            return orig(sec, ptype, rule)
                                    return f

                                setattr(ad, name, mk(orig))
                        else:
                            # hide the batch interface
                            class NoBatch:
                                def __init__(self, inner):
                                    object.__setattr__(self, "_inner", inner)

                                def __getattr__(self, name):
                                    if name in ("add_policies", "remove_policies"):
                                        raise AttributeError(name)
                                    return getattr(object.__getattribute__(self, "_inner"), name)

                            e.adapter = NoBatch(ad)
                        w0 = len(w.log)
                        try:
                            ret = ec.res_str(ec.impl_call(e, op, is_async))
                        except Exception as ex:  # noqa
                            ret = ec.exc_str(ex)
                        got = list(w.log[w0:])
                        n += 1
                        res.evaluations += 1
                        res.count("stream:unfaithful-adapter:" + variant)
                        res.nontrivial.add(hash(("unf", is_async, kind, variant, repr(init), repr(op))))
                        if ret.startswith("!"):
                            continue
                        success = ret == "T"
                        exp = [expected(op, kind)] if success else []
                        if got != exp:
                            res.violation(
                                {
                                    "signature": f"C20:unfaithful-adapter:{variant}:{op[0]}:{kind}{':async' if is_async else ''}",
                                    "what": f"rbac, {kind} watcher, adapter that {'answers False for one rule (' + variant + ')' if variant.startswith('rejects') else 'lacks the batch methods'}: {list(op)} returned {ret} and notified {got}; expected {exp}",
                                    "case": {"variant": variant, "kind": kind, "async": is_async, "initial": init, "op": list(op)},
                                    "expected": exp,
                                    "observed": got,
                                    "model_text": ec.TEXT[shape],
                                    "kind_of_case": "unfaithful-adapter",
                                }
                            )


def partial_watcher_stream(ctx, res, deep):
    """watchers offering only SOME of the operation-specific callbacks (implementation side only; the Lean model knows the
    plain, the extended and the update-extended watcher): a call notifies through its own callback if that one is offered,
    else through update() - never through the callback of another operation, never once per rule"""
    rng = ctx["rng"]
    shape = "rbac"
    P, G, G2, R = ec.universe(shape)
    ops = [o for o in ec.op_alphabet(shape) if (o[0] in CHANGE and o[0] not in ("removeread", "updateread", "updatefiltered")) or o[0] == "save"]
    ops += [("update", P[0], P[0][:-1] + ["write"]), ("updatemany", [P[0]], [P[0][:-1] + ["write"]])]
    allcb = sorted(EX_CALLBACKS | UPD_CALLBACKS)
    kinds = ["part:add_policy,remove_policy", "part:add_policies,remove_policies", "part:update_policy", "part:update_policies", "part:save_policy,remove_filtered_policy"]
    for _ in range(4 if not deep else 16):
        kinds.append("part:" + ",".join(c for c in allcb if rng.random() < 0.5))
    for is_async in (False, True):
        for kind in kinds:
            for init in ({"p": [], "g": [], "g2": []}, {"p": P, "g": G, "g2": G2}):
                cfg = ec.Config(shape, adapter=True, watcher=kind, initial=init, is_async=is_async)
                for a in ops:
                    hist = [a] if not deep else [a, rng.choice(ops)]
                    out = ec.run_history(cfg, hist, [], fresh_oracle=False)
                    for i, (op, rec) in enumerate(zip(hist, out)):
                        rec["pre"] = out[i - 1]["pol"] if i else {k: [list(x) for x in cfg.initial.get(k, [])] for k in ("p", "g", "g2")}
                        case = {"config": {"shape": cfg.shape, "text": cfg.text, "matchfn": None, "adapter": True, "watcher": kind, "async": is_async, "late": False, "sync_callbacks": False, "listform": False, "initial": init}, "history": [list(o) for o in hist[: i + 1]], "step": i}
                        res.evaluations += 1
                        res.count("partial-watcher:" + op[0])
                        res.nontrivial.add(hash(("partial", kind, is_async, repr(init), repr(hist))))
                        judge(res, cfg, hist, i, op, rec, None, case, None)


def run(ctx):
    res = common.Result()
    stages = [False] if not ctx["deep"] else ([True] if ctx["proof_ok"] else [False, True])
    for deep in stages:
        ec.run_configs(res, gen(ctx, deep), judge, fresh_oracle=False)
        unfaithful_adapter_stream(ctx, res, deep)
        partial_watcher_stream(ctx, res, deep)
        if res.spec_violations:
            break
    res.rule = (
        "RBAC model x 2 initial policies x {plain, WatcherEx, WatcherUpdatable} recording watchers x {Enforcer, AsyncEnforcer} with a recording "
        "adapter: every management call of the alphabet alone, with auto-notify off, with auto-save off, every pair of calls (sync; async in the "
        "thorough tier), plus seeded random histories of length 3-8; after every call the notifications are compared with the prescribed "
        "one and with the Lean model, and what memory and the adapter's store held at the moment of each notification with what they hold on return; non-trivial/distinct = (configuration, history)"
    )
    res.exhaustive = True
    return res


def replay(obj):
    if obj.get("kind_of_case") == "unfaithful-adapter":
        r = common.Result()
        unfaithful_adapter_stream({"rng": __import__("random").Random(0)}, r, False)
        return any(v["signature"] == obj["signature"] for v in r.spec_violations)
    case = obj["case"]
    c = case["config"]
    cfg = ec.Config(c["shape"], adapter=c["adapter"], watcher=c["watcher"], initial=c["initial"], is_async=c.get("async", False), late=c.get("late", False))
    cfg.sync_callbacks = c.get("sync_callbacks", False)
    cfg.async_update = c.get("async_update", False)
    hist = [tuple(o) for o in case["history"]]
    r = common.Result()
    out = ec.run_history(cfg, hist, [], fresh_oracle=False)
    for i, (op, rec) in enumerate(zip(hist, out)):
        rec["pre"] = out[i - 1]["pol"] if i else {k: [list(x) for x in cfg.initial.get(k, [])] for k in ("p", "g", "g2")}
        judge(r, cfg, hist, i, op, rec, None, case, None)
    return bool(r.spec_violations)
