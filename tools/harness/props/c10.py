"""C10 — saving then loading a policy through the bundled adapters is lossless; loading a text yields exactly its
non-empty non-comment lines, split at top-level commas and trimmed, attached to the type named by the first field.

Streams (all against the real code, the Lean model `Model/Persist.lean` and the executable specification
`Spec/Persist.lean` through `driver persist`):
  prim   the Python string primitives of `Py/Str.lean` against CPython (isspace over all code points, strip / split /
         rstrip / join exhaustively over a small alphabet)
  lines  every line over a 9-letter alphabet up to length 6 through `load_policy_line` (catch-all model: tokenizer,
         comment / empty skipping, IndexError corners) and, up to length 5, through a real `Model` (type dispatch)
  text   generated policy texts through FileAdapter / AsyncFileAdapter / StringAdapter.load_policy
  rt     generated policies saved and reloaded through real temp files (file, async file) and a string, at adapter
         level and through Enforcer / AsyncEnforcer.save_policy + load_policy
  probe  the points the theorems exclude (empty rule, unbalanced / comma-carrying / blank-padded fields, the empty
         policy through a string): impl vs model only"""
import asyncio
import os

import common
import persist_corr as pc
from common import enc_str, dec_str, run_driver
from persist_corr import Part, enc_rule, enc_rules, enc_store, dec_store

TRANSLATORS = []
LEVEL = "proof"
ASSUMPTIONS = [
    "the file system, UTF-8 encoding of text-mode files and '\\n' line ends (POSIX) are trusted, not modelled: a policy file is its decoded text",
    "a policy-type name is a config key of section p or g (non-empty, no blank/comma/bracket, not starting with '#'); its section is its first character (Model.load_section)",
    "every rule has at least one field (every policy definition has at least one token); the empty rule [] is probed: it reloads as ['']",
    "line grammar of load_spec: the line starts with a non-blank type name (not with a comma or bracket) and no bracket closes below depth 0; outside it the code raises IndexError or drops a leading comma (probed, model-only)",
    "the async file adapter is exercised through asyncio on the real class; the event loop itself is not modelled",
]
TRUSTED_EXTRA = ["CPython str.strip/split/rstrip/join/isspace: modelled in lean/CasbinV/Py/Str.lean, validated against CPython on every run"]

ALPHA = ["p", " ", ",", "(", ")", "[", "]", "#", "é"]


# ---------------------------------------------------------------- real-code runners


class CatchAll:
    """duck-typed model for load_policy_line: every section and key exists; records (key, tokens)"""

    class _D:
        def __init__(self, owner, sec):
            self.owner, self.sec = owner, sec

        def keys(self):
            return self

        def __contains__(self, k):
            return True

        def __getitem__(self, k):
            if self.sec is None:
                return CatchAll._D(self.owner, k)
            return CatchAll._A(self.owner, k)

    class _A:
        def __init__(self, owner, key):
            self.owner, self.key = owner, key

        @property
        def policy(self):
            return self

        def append(self, tokens):
            self.owner.got = (self.key, list(tokens))

    def __init__(self):
        self.got = None
        self.model = CatchAll._D(self, None)


def fmt_exc(ex):
    if isinstance(ex, IndexError):
        return "!indexError"
    if isinstance(ex, RuntimeError) and "line cannot be empty" in str(ex):
        return "!invalidLine"
    return f"!other:{type(ex).__name__}:{str(ex)[:60]}"


def impl_parse(casbin, line):
    from casbin.persist.adapter import load_policy_line

    c = CatchAll()
    try:
        load_policy_line(line, c)
    except Exception as ex:  # noqa
        return fmt_exc(ex)
    if c.got is None:
        return "skip"
    return enc_rule([c.got[0]] + c.got[1])


def impl_line_dispatch(casbin, m, line):
    from casbin.persist.adapter import load_policy_line

    m.clear_policy()
    for sec in m.model:
        for ast in m.model[sec].values():
            ast.policy = []
    try:
        load_policy_line(line, m)
    except Exception as ex:  # noqa
        return fmt_exc(ex)
    return enc_store(pc.dump_model(m))


# ---------------------------------------------------------------- stream: primitives


def run_prim(part):
    table = {int(x) for x in run_driver("persist", ["spacetable"])[0].split(";") if x}
    real = {n for n in range(0x110000) if not (0xD800 <= n <= 0xDFFF) and chr(n).isspace()}
    part.evaluations += 0x110000 - 0x800
    part.count("prim:isspace-codepoints", 0x110000 - 0x800)
    if table != real:
        part.disagree({"what": "Py.isSpace vs str.isspace", "only_lean": sorted(table - real)[:10], "only_py": sorted(real - table)[:10]})
    alpha = ["a", " ", ",", "\n", "\t", "\xa0"]
    strs = list(pc.all_strings(alpha, 5))
    lines, exp = [], []
    for s in strs:
        e = enc_str(s)
        lines += [f"strip\t{e}", f"lstrip\t{e}", f"rstrip\t{e}", f"split\t{e}\t44", f"split\t{e}\t10", f"rstripc\t{e}\t10"]
        exp += [enc_str(s.strip()), enc_str(s.lstrip()), enc_str(s.rstrip()), enc_rule(s.split(",")), enc_rule(s.split("\n")), enc_str(s.rstrip("\n"))]
    # every single white-space character and a few others at both ends
    for n in sorted(real | {0x0B, 0x200B, 0xFEFF, 0x180E, 0x61}):
        s = chr(n) + "x" + chr(n)
        lines.append(f"strip\t{enc_str(s)}")
        exp.append(enc_str(s.strip()))
    for parts in [[], [""], ["a"], ["a", ""], ["", ""], ["a", "b", "c"], ["a,", " b"]]:
        lines.append(f"join\t{enc_str(', ')}\t{enc_rule(parts)}")
        exp.append(enc_str(", ".join(parts)))
    ans = run_driver("persist", lines)
    for ln, a, x in zip(lines, ans, exp):
        part.evaluations += 1
        if a != x:
            part.disagree({"what": "Py/Str.lean primitive vs CPython", "op": ln, "lean": a, "python": x})
    part.count("prim:string-ops", len(lines))


# ---------------------------------------------------------------- stream: exhaustive lines


def spec_violation_line(part, line, impl, spec):
    part.violation(
        {
            "signature": "load_policy_line:" + ("raises" if impl.startswith("!") else "tokens"),
            "what": f"load_policy_line({line!r}) gives {show_parsed(impl)}; the line's top-level comma split, trimmed, is {show_parsed(spec)}",
            "kind_of_case": "line",
            "line": line,
            "expected": spec,
            "observed": impl,
        }
    )


def show_parsed(s):
    if s.startswith("!") or s in ("skip", "?"):
        return s
    return repr(pc.dec_rule(s))


def lines_job(job):
    prefix_list, maxlen, maxlen_dispatch = job
    casbin = common.use_repo()
    part = Part()
    m = pc.new_model(casbin, "multi")
    store0 = enc_store([(k, a, []) for k, a, _ in pc.dump_model(m)])
    cases = []
    for pre in prefix_list:
        if pre is None:
            cases.append("")
            continue
        for s in pc.all_strings(ALPHA, maxlen - 1):
            cases.append(pre + s)
    dl = [f"parse\t{enc_str(s)}" for s in cases]
    disp = [s for s in cases if len(s) <= maxlen_dispatch]
    dl += [f"line\t{store0}\t{enc_str(s)}" for s in disp]
    ans = run_driver("persist", dl)
    for s, a in zip(cases, ans):
        model, spec = common.parse_ms(a)
        impl = impl_parse(casbin, s)
        part.evaluations += 1
        part.count("lines:" + ("raise" if impl.startswith("!") else impl if impl == "skip" else "tokens"))
        part.count("lines:spec-" + ("open" if spec == "?" else "defined"))
        if impl not in ("skip",) and not impl.startswith("!") and ("|" in impl):
            part.nontrivial.add(hash(s))
        if impl != model:
            part.disagree({"what": "load_policy_line (tokens) vs Model.parseLine", "line": s, "impl": impl, "model": model})
        if spec != "?":
            if model != spec:
                part.mvs({"line": s, "model": model, "spec": spec})
            if impl != spec:
                spec_violation_line(part, s, impl, spec)
    for s, a in zip(disp, ans[len(cases):]):
        impl = impl_line_dispatch(casbin, m, s)
        part.evaluations += 1
        part.count("lines:dispatch")
        if impl != a:
            part.disagree({"what": "load_policy_line (type dispatch on a real Model) vs Model.loadPolicyLine", "line": s, "impl": impl, "model": a})
    if cases:
        part.sample({"line": cases[len(cases) // 2], "impl": impl_parse(casbin, cases[len(cases) // 2])})
    return part


def run_lines(res, maxlen):
    jobs = [([None], maxlen, 5)] + [([a + b], maxlen - 1, 5) for a in ALPHA for b in ALPHA]
    # lengths 1: handled by a small extra job
    jobs.append((list(ALPHA), 1, 5))
    parts = pc.pmap(lines_job, jobs)
    pc.merge(res, parts)


# ---------------------------------------------------------------- generators for texts and policies

ATOMS = ["alice", "data1", "read", "a b", "#x", "é ü", "x#y", "r.sub.Age > 18", "/a/*", "p", "g", "_", "ß", "中文", "a\tb", "a\xa0b", "a\rb", "-",
         # characters that str.splitlines (but not split("\n") / binary line iteration) treats as line boundaries, inside a value
         "a\x0bb", "a\x0cb", "a\x1cb", "a\x1db", "a\x1eb", "a\x85b", "a\u2028b", "a\u2029b"]
BR = [("(", ")"), ("[", "]")]


def gen_field_ok(rng, depth=0):
    """a field inside FieldOK: balanced brackets, commas only inside brackets, stripped, no line break"""
    r = rng.random()
    if r < 0.1 and depth == 0:
        return ""
    n = rng.choice([1, 1, 1, 2, 3])
    out = []
    for _ in range(n):
        r = rng.random()
        if r < 0.6 or depth >= 2:
            out.append(rng.choice(ATOMS))
        else:
            o, c = rng.choice(BR)
            if rng.random() < 0.15:
                c = rng.choice(BR)[1]  # mismatched kinds still balance for the code
            inner = rng.choice([", ", ",", " , ", " "]).join(gen_field_ok(rng, depth + 1) for _ in range(rng.choice([0, 1, 2, 3])))
            out.append(o + inner + c)
    s = rng.choice(["", " ", ""]).join(out)
    return s.strip() if depth == 0 else s


BAD_FIELDS = ["a,b", " a", "a ", "(", ")", "a)", "(a", "[a, b", "a\nb", ",", "\t", "a\n", "((a)", "a]b[", "\xa0a"]


def gen_rule(rng, ok=True, arity=None):
    n = arity if arity is not None else rng.choice([1, 1, 2, 3, 3, 4])
    r = [gen_field_ok(rng) for _ in range(n)]
    if not ok and r:
        r[rng.randrange(len(r))] = rng.choice(BAD_FIELDS)
    return r


def gen_policy(rng, keys, ok=True, conform=None):
    """[(key, rules)] for the given keys; conform = {key: arity} forces rule lengths (enforcer-level cases)"""
    pol = []
    for k in keys:
        n = rng.choice([0, 0, 1, 1, 2, 3, 5])
        rules = []
        for _ in range(n):
            r = gen_rule(rng, ok=ok or rng.random() < 0.5, arity=(conform or {}).get(k))
            if r not in rules:
                rules.append(r)
        pol.append((k, rules))
    return pol


LINE_POOL = [
    "p, alice, data1, read", "p2, bob, write", "g, alice, admin", "g2, a, b, dom", "# a comment", "", "  ", "\t",
    "p, f(a, b), [x, y], z", "x, unknown", "p,a,b,c", " p , a , b ", "pp, q", "r, 1, 2, 3", "e, x", "m, y", "p, a\r",
    "p", "p,", "p, ", "g , x,y", "#p, a", " # indented comment", "p, a, (b, [c, d], e), f", "p, open(a, b", "p, a # not a comment",
    "\xa0p, nbsp", "p, 　wide　", "p2, é, ü", "g, g, g", "p, , ", "p,,",
]
BAD_LINES = [", p, a", "(p), a", "p, a), b", " , a", ",", "[", ")", "p, )", "]x, y"]


def gen_text(rng, bad):
    n = rng.choice([0, 1, 2, 3, 5, 8])
    ls = []
    for _ in range(n):
        r = rng.random()
        if bad and r < 0.15:
            ls.append(rng.choice(BAD_LINES))
        elif r < 0.75:
            ls.append(rng.choice(LINE_POOL))
        else:
            ls.append("".join(rng.choice(ALPHA + ["g", "2", "a"]) for _ in range(rng.randrange(0, 9))))
    sep = rng.choice(["\n", "\n", "\n", "\r\n", "\n\n"])
    t = sep.join(ls)
    if rng.random() < 0.4:
        t += "\n"
    return t


# ---------------------------------------------------------------- stream: texts (load_spec)

_LOOP = None


def arun(coro):
    global _LOOP
    if _LOOP is None:
        _LOOP = asyncio.new_event_loop()
    return _LOOP.run_until_complete(coro)


def impl_load_text(casbin, kind, mname, text, tmp):
    """adapter.load_policy(fresh model) on the given text; returns 'err,store'"""
    from casbin.persist.adapters import FileAdapter, StringAdapter
    from casbin.persist.adapters.asyncio import AsyncFileAdapter

    m = pc.new_model(casbin, mname)
    try:
        if kind == "string":
            StringAdapter(text).load_policy(m)
        else:
            path = tmp.path()
            pc.write_bytes(path, text)
            if kind == "file":
                FileAdapter(path).load_policy(m)
            else:
                arun(AsyncFileAdapter(path).load_policy(m))
            os.unlink(path)
        err = "ok"
    except Exception as ex:  # noqa
        err = fmt_exc(ex)
    return err + "," + enc_store(pc.dump_model(m))


def text_job(job):
    seed, n = job
    import random

    rng = random.Random(seed)
    casbin = common.use_repo()
    part = Part()
    cases = []
    for i in range(n):
        mname = rng.choice(["multi", "multi", "nog", "rbac"])
        bad = rng.random() < 0.2
        cases.append((mname, gen_text(rng, bad)))
    empty = {mn: enc_store([(k, a, []) for k, a, _ in pc.dump_model(pc.new_model(casbin, mn))]) for mn in pc.MODEL_TEXTS}
    dl = []
    for mname, text in cases:
        for kind in ("file", "string"):
            dl.append(f"loadtext\t{kind}\t{empty[mname]}\t{enc_str(text)}")
    ans = run_driver("persist", dl)
    with pc.TmpDir() as tmp:
        for i, (mname, text) in enumerate(cases):
            for j, kind in enumerate(("file", "string")):
                model, spec = common.parse_ms(ans[2 * i + j])
                impls = [(kind, impl_load_text(casbin, kind, mname, text, tmp))]
                if kind == "file":
                    impls.append(("async", impl_load_text(casbin, "async", mname, text, tmp)))
                for which, impl in impls:
                    part.evaluations += 1
                    part.count(f"text:{which}:" + impl.split(",")[0] + (":spec-open" if spec == "?" else ""))
                    if impl.startswith("ok") and "|" in impl:
                        part.nontrivial.add(hash((which, mname, text)))
                    if impl != model:
                        part.disagree({"what": f"{which} adapter load_policy vs Model.load{'File' if kind == 'file' else 'String'}", "model_name": mname, "text": text, "impl": impl, "model": model})
                    if spec != "?":
                        if model != spec:
                            part.mvs({"text": text, "kind": kind, "model": model, "spec": spec})
                        if impl != spec:
                            part.violation(
                                {
                                    "signature": f"load_text:{which}",
                                    "what": f"{which} adapter: loading {text!r} gives {show_store(impl)}, the text's non-empty non-comment lines give {show_store(spec)}",
                                    "kind_of_case": "text",
                                    "adapter": which,
                                    "model_name": mname,
                                    "model_text": pc.MODEL_TEXTS[mname],
                                    "text": text,
                                    "expected": spec,
                                    "observed": impl,
                                }
                            )
        part.sample({"text": cases[0][1], "model": cases[0][0]})
    return part


def show_store(s):
    if "," not in s:
        return s
    err, st = s.split(",", 1)
    try:
        return err + " " + repr([(k, rs) for k, _, rs in dec_store(st) if rs])
    except Exception:  # noqa
        return s


# ---------------------------------------------------------------- stream: round trips


def impl_roundtrip(casbin, kind, level, mname, pol, tmp):
    """save `pol` then load it back; returns (result 'err,store', saved text or None)"""
    from casbin.persist.adapters import FileAdapter, StringAdapter
    from casbin.persist.adapters.asyncio import AsyncFileAdapter

    text = None
    path = None
    m2 = None
    # what the file held before the save must not matter: half of the cases save into a file with (longer) old content
    prior = "p, stale, stale, stale\n" * 40 if sum(len(rs) for _, rs in pol) % 2 == 0 else ""
    try:
        if level == "adapter":
            m = pc.new_model(casbin, mname)
            for key, rules in pol:
                m.model[key[0]][key].policy = [list(r) for r in rules]
            m2 = pc.new_model(casbin, mname)
            if kind == "string":
                a = StringAdapter("placeholder")
                a.save_policy(m)
                text = a.line
                a.load_policy(m2)
            else:
                path = tmp.path()
                pc.write_bytes(path, prior)
                if kind == "file":
                    a = FileAdapter(path)
                    a.save_policy(m)
                    text = pc.read_text(path)
                    a.load_policy(m2)
                else:
                    a = AsyncFileAdapter(path)
                    arun(a.save_policy(m))
                    text = pc.read_text(path)
                    arun(a.load_policy(m2))
            out = pc.dump_model(m2)
        else:
            m = pc.new_model(casbin, mname)
            if kind == "string":
                a = StringAdapter("p, seed, seed, seed")
                e = casbin.Enforcer(m, a)
            elif kind == "file":
                path = tmp.path()
                pc.write_bytes(path, "")
                a = FileAdapter(path)
                e = casbin.Enforcer(m, a)
            else:
                path = tmp.path()
                pc.write_bytes(path, "")
                a = AsyncFileAdapter(path)
                e = casbin.AsyncEnforcer(m, a)
                arun(e.load_policy())
            e.model.clear_policy()
            for key, rules in pol:
                e.model.model[key[0]][key].policy = [list(r) for r in rules]
            if path:
                pc.write_bytes(path, prior)
            if kind == "async":
                arun(e.save_policy())
                text = pc.read_text(path)
                arun(e.load_policy())
            else:
                e.save_policy()
                text = a.line if kind == "string" else pc.read_text(path)
                e.load_policy()
            # observe through the public getters
            out = []
            for k, ar, rs in pc.dump_model(e.model):
                if k[0] == "p":
                    got = e.get_named_policy(k)
                elif k[0] == "g":
                    got = e.get_named_grouping_policy(k)
                else:
                    got = rs
                out.append((k, ar, [list(r) for r in got]))
        err = "ok"
    except Exception as ex:  # noqa
        err = fmt_exc(ex)
        # adapter level: what the half-loaded model object holds; enforcer level: only the error is compared
        out = pc.dump_model(m2) if m2 is not None else None
    finally:
        if path and os.path.exists(path):
            os.unlink(path)
    return err + "," + (enc_store(out) if out is not None else "-"), text


def rt_signature(which, nrules, impl):
    return f"roundtrip:{which}:" + ("empty-policy" if nrules == 0 and impl.startswith("!invalidLine") else "raises:" + impl.split(":")[1] if impl.startswith("!other") else "raises" if impl.startswith("!") else "differs")


def shrink_roundtrip(casbin, v, defs, tmp):
    """try the policy's rules one at a time: keep the first single-rule policy that still violates with the same signature"""
    kind = "string" if v["adapter"] == "string" else "file"
    for key, rules in v["policy"]:
        for r in rules:
            pol = [(k, ([r] if k == key else [])) for k, _ in v["policy"]]
            d = dict(pol)
            st = enc_store([(k, a, d.get(k, [])) for k, a in defs])
            model, spec, dom = pc.parse_msd(run_driver("persist", [f"roundtrip\t{kind}\t{st}"])[0])
            if spec == "?":
                continue
            impl, text = impl_roundtrip(casbin, v["adapter"], v["level"], v["model_name"], pol, tmp)
            if impl != spec and rt_signature(v["adapter"], 1, impl) == v["signature"]:
                return dict(v, policy=pol, expected=spec, observed=impl, saved_text=text, shrunk_from=v["policy"],
                            what=f"{v['adapter']} adapter ({v['level']} level, model {v['model_name']}): save_policy then load_policy gives {show_store(impl)} instead of the saved policy")
    return v


def rt_job(job):
    seed, n, probe = job
    import random

    rng = random.Random(seed)
    casbin = common.use_repo()
    part = Part()
    cases = []
    defs = {}
    for mn in pc.MODEL_TEXTS:
        defs[mn] = [(k, a) for k, a, _ in pc.dump_model(pc.new_model(casbin, mn))]
    for i in range(n):
        mname = rng.choice(["multi", "multi", "multi", "nog", "nog2", "rbac", "dom", "priomulti"])
        keys = [k for k, _ in defs[mname] if k[0] in "pg"]
        level = rng.choice(["adapter", "enforcer"])
        conform = {k: a for k, a in defs[mname] if k[0] == "g"} if level == "enforcer" else None
        pol = gen_policy(rng, keys, ok=not probe, conform=conform)
        if mname == "priomulti":
            # the priority column of p holds ascending numbers already (loading sorts p by it - C07's subject - and must
            # then be the identity); the other types have no priority field: their order is simply kept
            prio = 0
            for k, rules in pol:
                if k == "p":
                    for r in rules:
                        prio += rng.choice([0, 1, 5])
                        if r:
                            r[0] = str(prio)
                    rules[:] = [r for j, r in enumerate(rules) if r and r not in rules[:j]]
        elif not probe and rng.random() < 0.2:
            # the same rule twice in one type (reachable by loading a text with a repeated line): it is saved and loaded twice
            nonempty = [rules for _k, rules in pol if rules and (_k[0] != "g" or level == "adapter")]
            if nonempty:
                rules = rng.choice(nonempty)
                rules.insert(rng.randrange(len(rules) + 1), list(rng.choice(rules)))
        if probe and rng.random() < 0.25:
            # the empty rule / the empty policy
            pol = [(k, ([[]] if rng.random() < 0.5 and level == "adapter" else [])) for k in keys]
        cases.append((mname, level, pol))
    dl = []
    for mname, level, pol in cases:
        d = dict(pol)
        st = enc_store([(k, a, d.get(k, [])) for k, a in defs[mname]])
        for kind in ("file", "string"):
            dl.append(f"roundtrip\t{kind}\t{st}")
    ans = run_driver("persist", dl)
    shrunk = set()
    with pc.TmpDir() as tmp:
        for i, (mname, level, pol) in enumerate(cases):
            for j, kind in enumerate(("file", "string")):
                model, spec, dom = pc.parse_msd(ans[2 * i + j])
                merr, mstore, mtext = model.split(",")
                kinds = [kind] + (["async"] if kind == "file" else [])
                for which in kinds:
                    impl, text = impl_roundtrip(casbin, which, level, mname, pol, tmp)
                    part.evaluations += 1
                    nrules = sum(len(rs) for _, rs in pol)
                    part.count(f"rt:{which}:{level}:" + impl.split(",")[0] + (":outside" if spec == "?" else ""))
                    part.count("rt:rules:" + str(min(nrules, 9)))
                    if nrules and spec != "?":
                        part.nontrivial.add(hash((which, level, mname, repr(pol))))
                    case = {"kind_of_case": "roundtrip", "adapter": which, "level": level, "model_name": mname, "model_text": pc.MODEL_TEXTS[mname], "policy": pol}
                    # tie: saved text and reloaded store
                    mcmp = merr + "," + (mstore if not impl.endswith(",-") else "-")
                    if impl != mcmp and not (level == "enforcer" and impl.startswith("!other:RuntimeError:grouping")):
                        part.disagree(dict(case, what=f"{which} adapter save+load ({level} level) vs Model.save/load", impl=impl, model=mcmp))
                    if text is not None and enc_str(text) != mtext:
                        part.disagree(dict(case, what=f"{which} adapter: saved text vs Model.save{'File' if kind == 'file' else 'String'}", impl=text, model=dec_str(mtext)))
                    if spec != "?":
                        if dom and merr + "," + mstore != spec:
                            part.mvs({"case": case, "model": model, "spec": spec})
                        if impl != spec:
                            v = dict(
                                case,
                                signature=rt_signature(which, nrules, impl),
                                what=f"{which} adapter ({level} level, model {mname}): save_policy then load_policy gives {show_store(impl)} instead of the saved policy",
                                expected=spec,
                                observed=impl,
                                saved_text=text,
                            )
                            if v["signature"] not in shrunk and len(shrunk) < 3 and nrules > 1:
                                shrunk.add(v["signature"])
                                v = shrink_roundtrip(casbin, v, defs[mname], tmp)
                            part.violation(v)
        if cases:
            part.sample({"model": cases[0][0], "level": cases[0][1], "policy": cases[0][2]})
    return part


# ---------------------------------------------------------------- run / replay


def run(ctx):
    res = common.Result()
    stages = [("quick", 6, 1200, 1500)] if not ctx["deep"] else ([("thorough", 7, 30000, 40000)] if ctx["proof_ok"] else [("quick", 6, 1200, 1500), ("thorough", 7, 30000, 40000)])
    for name, maxlen, ntext, nrt in stages:
        _stage(ctx, res, maxlen, ntext, nrt)
        if pc.new_violations(res, "C10"):
            break
    return res


def _stage(ctx, res, maxlen, ntext, nrt):
    rng = ctx["rng"]
    p = Part()
    run_prim(p)
    pc.merge(res, [p])
    run_lines(res, maxlen)
    nw = pc.NPROC
    jobs = [(rng.getrandbits(48), ntext // nw + 1) for _ in range(nw)]
    pc.merge(res, pc.pmap(text_job, jobs))
    jobs = [(rng.getrandbits(48), nrt // nw + 1, False) for _ in range(nw)] + [(rng.getrandbits(48), nrt // (4 * nw) + 1, True) for _ in range(nw)]
    pc.merge(res, pc.pmap(rt_job, jobs))
    res.exhaustive = True
    res.rule = (
        f"every line over {ALPHA} up to length {maxlen} through load_policy_line (catch-all model) and up to length {min(maxlen - 1, 5)} through a real Model "
        f"(exhaustive); {ntext} generated policy texts x (FileAdapter, AsyncFileAdapter, StringAdapter).load_policy; {nrt} generated policies over p/p2/g/g2 "
        "(blanks inside values, '#', nested brackets with commas, empty fields, non-ASCII) saved and reloaded through real temp files / a string at adapter and "
        "enforcer level, plus a probe stream outside the hypotheses; non-trivial = a line with >= 2 tokens / a text loading >= 1 rule / a non-empty policy"
    )


def replay(obj):
    casbin = common.use_repo()
    k = obj.get("kind_of_case")
    if k == "line":
        return impl_parse(casbin, obj["line"]) != obj["expected"]
    with pc.TmpDir() as tmp:
        if k == "text":
            return impl_load_text(casbin, obj["adapter"], obj["model_name"], obj["text"], tmp) != obj["expected"]
        if k == "roundtrip":
            pol = [(key, [list(r) for r in rules]) for key, rules in obj["policy"]]
            impl, _ = impl_roundtrip(casbin, obj["adapter"], obj["level"], obj["model_name"], pol, tmp)
            return impl != obj["expected"]
    return False
