"""C17 — SyncedEnforcer calls are atomic and equivalent to the plain enforcer.

Static half: translator T2 regenerates the wrapper table (Gen/SyncedTable.lean); Props/C17.lean proves lock discipline
and forwarding for every row by `decide`, and linearizability of the lock protocol for any sequential object.
Dynamic half (this module), all on the REAL classes, instrumented from outside only (instance attributes on the wrapped
enforcer, module-global substitution of RLock/Condition in casbin.util.rwlock):

 (o)   purity observation: every wrapped method is called on sample plain enforcers; a callee the Lean file classifies
       `reads`/`pure` must leave the canonical snapshot (policy, role links, flags, object identities, function map,
       field indices) unchanged  -> ties the classification to the code;
 (i)   sequential equivalence: random histories over the whole API through SyncedEnforcer and Enforcer, results
       compared call by call, final snapshots compared;
 (ii)  lock observation for ALL public methods: (a) white box: the wrapped enforcer's methods are replaced by spies that
       record (_writer_active, _active_readers), the arguments received (identity, order) and the value returned;
       (b) black box under the controlled scheduler: while another thread is paused inside a read (write) section, a
       mutating (reading or mutating) call must not complete;
 (iii) small concurrent programs under the controlled scheduler (preemption-bounded depth-first search + random
       schedules; scheduling points: every mutex operation of the lock, entry of the wrapped call, after every
       role-manager clear/add_link/delete_link/has_link, inside the registered role / domain matching functions - user code
       the role manager calls in the middle of creating the role object of a new name or the manager of a new domain -,
       before every acquisition of a role manager's own lock): every outcome must be linearizable — some sequential order
       of the same calls on a plain Enforcer that respects real time gives the same results and the same final state
       (policy, get_roles of every name, get_users of every role WITH multiplicities).
       Reading calls memoise (RoleManager._get_role, DomainManager._get_role_manager): the first-sight stream (setups
       `pattern`, `dompat`) makes several threads ask about the same new name at the same time."""
import inspect
import itertools
import multiprocessing as mp
import os
import random

import common
import sched as S
from common import run_driver

TRANSLATORS = ["T2"]
LEVEL = "proof"
ASSUMPTIONS = [
    "the classification of the plain enforcer's methods into mutating / reading / pure (Model/Synced.lean) is trusted for `mutates` and observed at run time for `reads`/`pure` (purity observation on sample enforcers)",
    "the lock is the abstract readers-writer lock (writer alone, readers without writer) that C16 proves RWLockWrite to be; Props/C16 lock_refines_abstract proves that refinement for the counter abstraction of the lock program",
    "results that are live objects (model, role manager, adapter) are compared by identity with what the wrapped method returned, not by content",
    "the auto-reload thread is explored as one more thread executing ONE iteration of its loop (sleep taken out), with a good and with a failing adapter; the timer itself is not",
    "data races inside CPython containers (free-threading) are outside the model: scheduling points are lock operations (the readers-writer lock and the role managers' own creation locks), call entries, role-manager mutations / has_link, and the user's matching functions",
    "reading calls memoise inside the role manager (role object of a new name, manager of a new domain): the Lean proviso `read-locked calls do not change the state` is about the abstract state (answers); Props/C17 memo_* theorems show that an idempotent answer-preserving memo step under the read lock keeps linearizability; that the real memoisation is such a step is what the first-sight stream observes",
]
TRUSTED_EXTRA = ["translator T2 (tools/translate/t2_synced.py)", "the controlled scheduler (tools/harness/sched.py)"]

EXEMPT = {"is_auto_loading_running", "start_auto_load_policy", "stop_auto_load_policy"}  # reload-thread control, no enforcer state

# ------------------------------------------------------------------ sample enforcers


def _read(rel):
    return open(os.path.join(common.REPO, "examples", rel)).read()


SETUPS = {}


def setup_defs():
    if not SETUPS:
        SETUPS["rbac"] = dict(model=_read("rbac_model.conf"), policy=_read("rbac_policy.csv"), dom=False)
        SETUPS["dom"] = dict(model=_read("rbac_with_domains_model.conf"), policy=_read("rbac_with_domains_policy.csv"), dom=True)
        # a role-name matching function is registered: reading calls then CREATE role objects for names seen for the first time
        SETUPS["pattern"] = dict(model=_read("rbac_model.conf"), policy="p, engineers, data1, read\np, staff, data2, read\ng, dept/eng/*, engineers\ng, engineers, staff\n", dom=False, matchfn=True)
        # domain model with a role-name AND a domain matching function: a reading call about a domain seen for the first time
        # BUILDS the per-domain role manager (DomainManager._get_role_manager, the domain matching function is called in the
        # middle), and inside that manager creates the role objects of new names as above
        SETUPS["dompat"] = dict(
            model=_read("rbac_with_domains_model.conf"),
            policy="p, engineers, domain1, data1, read\np, engineers, domain2, data2, write\np, staff, domain1, data2, read\n"
            "g, dept/eng/*, engineers, domain1\ng, engineers, staff, domain1\ng, dept/eng/*, engineers, *\ng, bob, staff, domain2\n",
            dom=True,
            matchfn=True,
            dommatchfn=True,
        )
    return SETUPS


_SCHED = [None]


def _pattern_fn(key, pat):
    """the registered matching function (key_match) with a scheduling point inside: a reading call can be pre-empted while
    the role manager is looking a name up"""
    sc = _SCHED[0]
    if sc is not None and sc.me() is not None:
        sc.yield_(("in", "matchfn"))
    from casbin import util

    return util.key_match(key, pat)


def _dom_fn(key, pat):
    """the registered DOMAIN matching function (key_match) with a scheduling point inside: a reading call can be pre-empted
    while DomainManager._get_role_manager collects the links of a domain it has not served yet"""
    sc = _SCHED[0]
    if sc is not None and sc.me() is not None:
        sc.yield_(("in", "dommatchfn"))
    from casbin import util

    return util.key_match(key, pat)


def make_adapter(casbin, text):
    from casbin import persist

    class MemAdapter(persist.Adapter):
        """in-memory adapter (the repository's files are never written)"""

        def __init__(self, text):
            self.lines = [ln.strip() for ln in text.splitlines() if ln.strip()]
            self.saved = None

        def load_policy(self, model):
            for ln in self.lines:
                persist.load_policy_line(ln, model)

        def save_policy(self, model):
            out = []
            for sec in ("p", "g"):
                for pt, ast in model.model.get(sec, {}).items():
                    for r in ast.policy:
                        out.append(pt + ", " + ", ".join(r))
            self.saved = out
            return True

        def add_policy(self, sec, ptype, rule):
            pass

        def remove_policy(self, sec, ptype, rule):
            pass

        def add_policies(self, sec, ptype, rules):
            pass

        def remove_policies(self, sec, ptype, rules):
            pass

        def remove_filtered_policy(self, sec, ptype, field_index, *field_values):
            pass

    return MemAdapter(text)


def build(kind, synced):
    casbin = common.use_repo()
    d = setup_defs()[kind]
    m = casbin.Enforcer.new_model(text=d["model"])
    a = make_adapter(casbin, d["policy"])
    e = casbin.SyncedEnforcer(m, a) if synced else casbin.Enforcer(m, a)
    if d.get("matchfn"):
        e.add_named_matching_func("g", _pattern_fn)
    if d.get("dommatchfn"):
        e.add_named_domain_matching_func("g", _dom_fn)
    return e


NAMES = ["alice", "bob", "carol", "data1", "data2", "data2_admin", "data1_admin", "read", "write", "admin", "domain1", "domain2", "root"]
# names of the pattern setups: the concrete names a pattern covers are NOT nodes of the role graph until a call asks about them
FRESH = ["dept/eng/alice", "dept/eng/bob", "dept/ops/carol"]
PAT_NAMES = ["engineers", "staff", "dept/eng/*", "dept/ops/*"] + FRESH
ROLE_NAMES = ["data2_admin", "data1_admin", "admin", "root"]
LIN_ONLY = ("dompat",)  # setups used by the concurrent programs only


def inner(e):
    return getattr(e, "_e", e)


def shape_snapshot(e):
    """identity-free canonical state: comparable across enforcers"""
    e = inner(e)
    m = e.model
    pol = []
    for sec in ("p", "g"):
        for pt in sorted(m.model.get(sec, {})):
            pol.append((sec, pt, tuple(tuple(r) for r in m.model[sec][pt].policy)))
    links = []
    doms = [()] + [(d,) for d in ("domain1", "domain2")]
    for pt in sorted(e.rm_map):
        rm = e.rm_map[pt]
        for n in NAMES:
            for dom in doms:
                try:
                    rs = tuple(sorted(rm.get_roles(n, *dom)))
                except Exception as ex:  # noqa
                    rs = ("!" + type(ex).__name__,)
                if rs:
                    links.append((pt, n, dom, rs))
        # the same links asked from the role's side, every name as often as the role manager lists it (a user recorded twice
        # under a role is a different state: get_users_for_role shows it)
        # (asking about a name makes it a node of the graph, which get_users of its roles then lists: all the get_roles
        # questions come first, so that taking the snapshot twice gives the same value)
        doms3 = doms + [("domain3",)] if hasattr(rm, "all_links") and isinstance(rm.all_links, dict) else [()]
        got = {}
        for n in PAT_NAMES:
            for dom in doms3:
                try:
                    got[(n, dom)] = tuple(sorted(rm.get_roles(n, *dom)))
                except Exception as ex:  # noqa
                    got[(n, dom)] = ("!" + type(ex).__name__,)
        for n in ROLE_NAMES + PAT_NAMES:
            for dom in doms3:
                try:
                    us = tuple(sorted(rm.get_users(n, *dom)))
                except Exception as ex:  # noqa
                    us = ("!" + type(ex).__name__,)
                rs = got.get((n, dom), ())
                if us or rs:
                    links.append((pt, n, dom, "users", us, rs))
    flags = (e.enabled, e.auto_save, e.auto_build_role_links, e.auto_notify_watcher)
    # enforce() re-derives the g-functions (and the evaluator its builtins) into the shared function map on every call:
    # these entries are a cache, not configuration
    derived = set(m.model.get("g", {}).keys()) | {"tuple", "list", "set", "dict"}
    fm = tuple(sorted(k for k in e.fm.get_functions().keys() if k not in derived)) if hasattr(e.fm, "get_functions") else ()
    fidx = []
    for pt in sorted(m.model.get("p", {})):
        ast = m.model["p"][pt]
        for f in ("sub", "obj", "act", "dom", "eft", "priority"):
            try:
                fidx.append((pt, f, m.get_field_index(pt, f)))
            except Exception as ex:  # noqa
                fidx.append((pt, f, "!" + type(ex).__name__))
    types = (type(e.adapter).__name__, type(e.watcher).__name__, type(e.eft).__name__)
    return (tuple(pol), tuple(links), flags, fm, tuple(fidx), types)


def full_snapshot(e):
    """same-enforcer snapshot: adds object identities"""
    e0 = inner(e)
    ids = (id(e0.adapter), id(e0.watcher), id(e0.eft), tuple(sorted((k, id(v)) for k, v in e0.rm_map.items())), id(e0.fm))
    return (shape_snapshot(e), ids)


# ------------------------------------------------------------------ argument synthesis


class Stub:
    def __init__(self, tag):
        self.tag = tag

    def __repr__(self):
        return f"<Stub {self.tag}>"


def _fn_a(*a):
    return True


def _fn_b(*a):
    return True


def synth_args(casbin, name, sig, kind, rng):
    """arguments for SyncedEnforcer.<name> from its signature; returns (args, kwargs). Values are distinct objects so that
    a permutation of arguments is observable."""
    dom = setup_defs()[kind]["dom"]
    grouping = "grouping" in name or name in ("get_all_named_roles", "build_incremental_role_links") or "matching_func" in name or "link_condition" in name
    u = rng.choice(["alice", "bob", "carol"])
    o = rng.choice(["data1", "data2"])
    a = rng.choice(["read", "write"])
    r = rng.choice(["data2_admin", "data1_admin", "admin"])
    d = rng.choice(["domain1", "domain2"])

    def prule():
        return [rng.choice(["alice", "bob", "carol", "data2_admin", "admin"])] + ([rng.choice(["domain1", "domain2"])] if dom else []) + [rng.choice(["data1", "data2"]), rng.choice(["read", "write"])]

    def grule():
        return [rng.choice(["alice", "bob", "carol"]), rng.choice(["data2_admin", "data1_admin", "admin"])] + ([rng.choice(["domain1", "domain2"])] if dom else [])

    args = []
    kwargs = {}
    for pname, p in list(sig.parameters.items())[1:] if list(sig.parameters)[:1] == ["self"] else sig.parameters.items():
        if p.kind == p.VAR_POSITIONAL:
            if pname == "rvals":
                args += [u] + ([d] if dom else []) + [o, a]
            elif pname == "params":
                if "condition_func_params" in name:
                    args += ["x1", "x2"]
                else:
                    args += grule() if grouping else prule()
            elif pname == "permission":
                args += ([d] if dom else []) + [o, a] if name != "delete_permission" else ([d] if dom else []) + [o, a]
            elif pname == "field_values":
                args += [rng.choice(["alice", "bob", "data2_admin"])]
            elif pname == "domain":
                args += [d] if dom else []
            else:
                args += ["v1"]
            continue
        if p.kind == p.KEYWORD_ONLY:
            kwargs[pname] = rng.choice([True, False]) if pname == "filter_policy_dom" else p.default
            continue
        if p.kind == p.VAR_KEYWORD:
            continue
        if pname == "ptype":
            v = "g" if grouping else "p"
        elif pname in ("name", "user"):
            v = u
        elif pname == "role":
            v = r
        elif pname == "domain":
            v = d
        elif pname == "resource":
            v = o
        elif pname == "rules":
            v = [grule(), grule()] if grouping else [prule(), prule()]
        elif pname == "rvals":
            v = [[u] + ([d] if dom else []) + [o, a], ["bob"] + ([d] if dom else []) + ["data2", "write"]]
        elif pname == "field_index":
            v = 0
        elif pname == "m":
            v = casbin.Enforcer.new_model(text=setup_defs()[kind]["model"])
        elif pname == "adapter":
            v = make_adapter(casbin, setup_defs()[kind]["policy"])
        elif pname == "watcher":
            v = None
        elif pname == "eft":
            from casbin.effect import get_effector

            v = get_effector("some(where (p_eft == allow))")
        elif pname == "rm":
            from casbin.rbac import default_role_manager

            v = default_role_manager.DomainManager(10) if dom else default_role_manager.RoleManager(10)
        elif pname in ("fn", "func"):
            v = rng.choice([_fn_a, _fn_b])
        elif pname == "suffix":
            v = "2"
        elif pname == "filter":
            v = Stub("filter")
        elif pname == "interval":
            v = 3600
        elif pname in ("auto_build_role_links", "auto_save", "enabled"):
            v = rng.choice([True, False])
        elif pname == "op":
            from casbin.model.policy_op import PolicyOp

            v = rng.choice([PolicyOp.Policy_add, PolicyOp.Policy_remove])
        elif pname == "field":
            v = rng.choice(["sub", "obj", "act"])
        elif pname == "index":
            v = rng.choice([0, 1, 2])
        else:
            v = "v_" + pname
        args.append(v)
    return args, kwargs


def canon(v):
    if v is None or isinstance(v, (bool, int, float, str)):
        return v
    if isinstance(v, (list, tuple)):
        return [canon(x) for x in v]
    if isinstance(v, (set, frozenset)):
        return sorted((canon(x) for x in v), key=repr)
    if isinstance(v, dict):
        return sorted(((canon(k), canon(x)) for k, x in v.items()), key=repr)
    return "<" + type(v).__name__ + ">"


def _autoload_once(e, failing):
    """ONE iteration of the auto-reload loop (SyncedEnforcer._auto_load_policy with the sleep taken out), optionally with an
    adapter that raises during this reload; on a plain Enforcer: load_policy with the exception swallowed (what the loop does)"""
    ad = e.get_adapter() if not hasattr(e, "_e") else e._e.get_adapter()
    orig_load = ad.load_policy
    if failing:
        import threading

        owner = threading.get_ident()

        def boom(model):
            orig_load(model)
            if threading.get_ident() == owner:  # the adapter fails for THIS reload only, not for a load_policy another thread makes meanwhile
                raise IOError("adapter failure during the reload")

        ad.load_policy = boom
    try:
        if hasattr(e, "_auto_load_policy"):
            import types

            import casbin.synced_enforcer as sm

            left = [True]
            orig_running, orig_time = e.is_auto_loading_running, sm.time
            e.is_auto_loading_running = lambda: left.pop() if left else False
            sm.time = types.SimpleNamespace(sleep=lambda *_a: None)
            try:
                e._auto_load_policy(0)
            finally:
                e.is_auto_loading_running, sm.time = orig_running, orig_time
        else:
            try:
                e.load_policy()
            except Exception:  # noqa
                pass
    finally:
        if failing:
            ad.load_policy = orig_load
    return None


def call(e, name, args, kwargs):
    if name in ("autoload_once", "autoload_once_failing"):
        try:
            return ("ok", _autoload_once(e, name.endswith("failing")))
        except S.Abort:
            raise
        except Exception as ex:  # noqa
            return ("exc", type(ex).__name__ + ": " + str(ex)[:100])
    try:
        return ("ok", getattr(e, name)(*args, **kwargs))
    except S.Abort:
        raise
    except Exception as ex:  # noqa
        return ("exc", type(ex).__name__ + ": " + str(ex)[:100])


SET_VALUED = {
    "get_roles_for_user", "get_users_for_role", "get_implicit_roles_for_user", "get_implicit_permissions_for_user",
    "get_named_implicit_permissions_for_user", "get_implicit_users_for_permission", "get_roles_for_user_in_domain",
    "get_users_for_role_in_domain", "get_all_roles_by_domain", "get_implicit_users_for_resource",
    "get_implicit_users_for_resource_by_domain", "get_all_roles", "get_all_named_roles",
}  # results assembled from sets / dicts keyed by object identity: order is not observable


def canon_res(r, name=None):
    import re as _re

    if r[0] == "exc":
        return (r[0], _re.sub(r"0x[0-9a-fA-F]+", "0x?", r[1]))
    v = canon(r[1])
    if name in SET_VALUED and isinstance(v, list):
        v = sorted(v, key=repr)
    return (r[0], v)


def show_call(name, args, kwargs):
    return [name, [canon(a) for a in args], {k: canon(v) for k, v in kwargs.items()}]


# ------------------------------------------------------------------ the table


def load_table():
    n = int(run_driver("synced", ["nrows"])[0])
    rows = []
    for a in run_driver("synced", [f"row\t{i}" for i in range(n)]):
        f = a.split("|")
        rows.append(dict(name=f[0], private=f[1] == "T", kind=f[2], mode=f[3], callee=f[4], returns=f[5], cls=f[6], disc=f[7] == "T", fwd=f[8] == "T"))
    return rows


def classify_names(names):
    return dict(zip(names, run_driver("synced", [f"classify\t{n}" for n in names])))


def public_methods(casbin):
    return [n for n, f in inspect.getmembers(casbin.SyncedEnforcer, inspect.isfunction) if not n.startswith("_")]


# ------------------------------------------------------------------ (o) purity observation


def purity(res, casbin, cls, rng, reps):
    for kind in [k for k in setup_defs() if k not in LIN_ONLY]:
        for name in sorted(cls):
            if cls[name] not in ("reads", "pure"):
                continue
            if not hasattr(casbin.Enforcer, name):
                continue
            sig = inspect.signature(getattr(casbin.Enforcer, name))
            for _ in range(reps):
                e = build(kind, False)
                # perturb the state a little so that caches are cold and the policy is not the file's
                for _k in range(rng.randrange(0, 3)):
                    e.add_policy(*synth_args(casbin, "add_policy", inspect.signature(casbin.Enforcer.add_policy), kind, rng)[0])
                args, kwargs = synth_args(casbin, name, sig, kind, rng)
                before = full_snapshot(e)
                r = call(e, name, args, kwargs)
                after = full_snapshot(e)
                res.evaluations += 1
                res.count("purity:" + cls[name])
                if before != after:
                    res.violation(
                        {
                            "signature": "purity:" + name,
                            "what": f"Enforcer.{name} is classified `{cls[name]}` (may run under the read lock) but changed the enforcer's state",
                            "check": "purity",
                            "setup": kind,
                            "call": show_call(name, args, kwargs),
                            "expected": "snapshot unchanged",
                            "observed": canon_res(r),
                        }
                    )


# ------------------------------------------------------------------ (i) sequential equivalence


def gen_history(casbin, names, kind, rng, n):
    h = []
    for _ in range(n):
        name = rng.choice(names)
        sig = inspect.signature(getattr(casbin.SyncedEnforcer, name))
        args, kwargs = synth_args(casbin, name, sig, kind, rng)
        h.append((name, args, kwargs))
    return h


def run_seq_pair(kind, history):
    """returns index of the first call on which SyncedEnforcer and Enforcer differ (or None), details"""
    se = build(kind, True)
    pe = build(kind, False)
    for i, (name, args, kwargs) in enumerate(history):
        if not hasattr(pe, name):
            continue
        rs = call(se, name, _copy_args(args), _copy_args(kwargs))
        rp = call(pe, name, _copy_args(args), _copy_args(kwargs))
        if canon_res(rs, name) != canon_res(rp, name):
            return i, canon_res(rp, name), canon_res(rs, name)
        if shape_snapshot(se) != shape_snapshot(pe):
            return i, "same state as the plain enforcer", "state differs after the call"
    return None, None, None


def seq_equiv(res, casbin, rng, n_hist, length):
    names = [n for n in public_methods(casbin) if n not in EXEMPT and hasattr(casbin.Enforcer, n)]
    for kind in setup_defs():
        # every method at least once, first in a fresh enforcer
        for name in names:
            sig = inspect.signature(getattr(casbin.SyncedEnforcer, name))
            args, kwargs = synth_args(casbin, name, sig, kind, rng)
            _one_history(res, kind, [(name, args, kwargs)])
        for _ in range(n_hist // 3 if kind in LIN_ONLY else n_hist):
            _one_history(res, kind, gen_history(casbin, names, kind, rng, length))


def _one_history(res, kind, history):
    i, exp, obs = run_seq_pair(kind, history)
    res.evaluations += len(history)
    res.count("seq:calls", len(history))
    if len(history) > 1:
        res.nontrivial.add(hash(repr([show_call(*c) for c in history])))
    if i is not None:
        name = history[i][0]
        # shrink: the failing call alone?
        alone = run_seq_pair(kind, [history[i]])
        hist = [history[i]] if alone[0] is not None else history[: i + 1]
        sigk = "return:" if (isinstance(obs, tuple) and obs[0] == "ok" and obs[1] is None) else "seq:"
        res.violation(
            {
                "signature": sigk + name,
                "what": f"SyncedEnforcer.{name} returned {obs!r}, Enforcer.{name} returned {exp!r} for the same history",
                "check": "seq",
                "setup": kind,
                "history": [show_call(*c) for c in hist],
                "history_raw": _raw(hist),
                "expected": exp,
                "observed": obs,
            }
        )


def _raw(hist):
    """replayable form: only plain values (calls with object arguments are replayed by re-synthesis)"""
    out = []
    for name, args, kwargs in hist:
        ok = all(canon(a) == a or isinstance(a, (list, tuple)) for a in args)
        out.append([name, [canon(a) for a in args], {k: canon(v) for k, v in kwargs.items()}, ok])
    return out


# ------------------------------------------------------------------ (ii a) white-box spies


def whitebox(res, casbin, rows, cls, rng):
    byname = {r["name"]: r for r in rows}
    for kind in [k for k in setup_defs() if k not in LIN_ONLY]:
        for name in public_methods(casbin):
            if name in EXEMPT:
                continue
            row = byname.get(name)
            se = build(kind, True)
            e = se._e
            lock = se._rwlock
            rec = []
            depth = [0]

            def mk(mname, orig):
                def spy(*a, **k):
                    depth[0] += 1
                    try:
                        entry = dict(name=mname, depth=depth[0], wa=lock._writer_active, ar=lock._active_readers, args=a, kwargs=k)
                        rec.append(entry)
                        try:
                            entry["ret"] = orig(*a, **k)
                            return entry["ret"]
                        except Exception as ex:  # noqa
                            entry["exc"] = ex
                            raise
                    finally:
                        depth[0] -= 1

                return spy

            for mname, _f in inspect.getmembers(type(e), inspect.isfunction):
                if mname.startswith("__"):
                    continue
                setattr(e, mname, mk(mname, getattr(e, mname)))
            sig = inspect.signature(getattr(casbin.SyncedEnforcer, name))
            args, kwargs = synth_args(casbin, name, sig, kind, rng)
            r = call(se, name, args, kwargs)
            res.evaluations += 1
            res.count("whitebox:" + (row["kind"] if row else "?"))
            top = [x for x in rec if x["depth"] == 1]
            c = cls.get(name, "mutates")
            base = dict(check="whitebox", setup=kind, call=show_call(name, args, kwargs), method=name)
            # lock state seen by the wrapped enforcer
            for x in top:
                if c == "mutates" and not x["wa"]:
                    res.violation(dict(base, signature="discipline:" + name, what=f"SyncedEnforcer.{name} (mutating) reached Enforcer.{x['name']} without the write lock held (_writer_active={x['wa']}, _active_readers={x['ar']})", expected="_writer_active", observed=[x["wa"], x["ar"]]))
                    break
                if c == "reads" and not (x["wa"] or x["ar"] >= 1):
                    res.violation(dict(base, signature="discipline:" + name, what=f"SyncedEnforcer.{name} (reading) reached Enforcer.{x['name']} with no lock held", expected="_active_readers>=1", observed=[x["wa"], x["ar"]]))
                    break
            if lock._writer_active or lock._active_readers != 0 or lock._waiting_writers != 0:
                res.violation(dict(base, signature="leak:" + name, what=f"SyncedEnforcer.{name} left the lock held", expected="released", observed=[lock._writer_active, lock._active_readers]))
            # forwarding (only meaningful when the plain enforcer has the method)
            if hasattr(casbin.Enforcer, name) and (row is None or row["kind"] == "wrap"):
                same = [x for x in top if x["name"] == name]
                if len(top) != 1 or len(same) != 1:
                    res.violation(dict(base, signature="forward:" + name, what=f"SyncedEnforcer.{name} did not call exactly Enforcer.{name} once (called {[x['name'] for x in top]})", expected=[name], observed=[x["name"] for x in top]))
                    continue
                x = same[0]
                bound = None
                try:
                    bound = inspect.signature(getattr(casbin.Enforcer, name)).bind(e, *x["args"], **x["kwargs"])
                    want = inspect.signature(getattr(casbin.Enforcer, name)).bind(e, *args, **kwargs)
                    okargs = all(a is b for a, b in zip(bound.args, want.args)) and len(bound.args) == len(want.args) and set(bound.kwargs) == set(want.kwargs) and all(bound.kwargs[k] is want.kwargs[k] for k in want.kwargs)
                except TypeError:
                    okargs = len(x["args"]) == len(args) and all(a is b for a, b in zip(x["args"], args)) and x["kwargs"].keys() == kwargs.keys()
                if not okargs:
                    res.violation(dict(base, signature="forward:" + name, what=f"SyncedEnforcer.{name} did not forward its arguments unchanged and in order", expected=[canon(a) for a in args], observed=[canon(a) for a in x["args"]]))
                if "ret" in x and (r[0] != "ok" or r[1] is not x["ret"]):
                    res.violation(dict(base, signature="return:" + name, what=f"SyncedEnforcer.{name} returned {canon(r[1])!r} although Enforcer.{name} returned {canon(x['ret'])!r}", expected=canon(x["ret"]), observed=canon_res(r)))


# ------------------------------------------------------------------ scheduler-based runs


class ConcRun:
    """SyncedEnforcer under the controlled scheduler; threads execute lists of calls"""

    def __init__(self, kind, program, sub_yields=True, fine=True):
        casbin = common.use_repo()
        import casbin.util.rwlock as rwmod  # noqa

        self.sc = S.Sched()
        _SCHED[0] = self.sc
        # locks of the role managers themselves (created with the managers, also with those a reading call builds later) are
        # made cooperative for the whole run: a scheduling point before every acquisition, a blocked thread is not runnable
        import casbin.rbac.default_role_manager.role_manager as rmmod  # noqa

        self._undo_rm = S.install_locks(rmmod)
        undo = S.install(rwmod, self.sc)
        try:
            self.se = build(kind, True)
        finally:
            undo()
        S.set_current(self.sc)
        self.program = program
        self.results = {}
        self.events = []  # ('inv'|'res', tid, k)
        sc = self.sc
        e = self.se._e
        depth = {}

        def mk(mname, orig):
            def spy(*a, **k):
                tid = sc.me()
                d = depth.get(tid, 0)
                depth[tid] = d + 1
                try:
                    if d == 0 and tid is not None:
                        sc.yield_(("in", mname))
                    return orig(*a, **k)
                finally:
                    depth[tid] = d

            return spy

        for mname, _f in inspect.getmembers(type(e), inspect.isfunction):
            if not mname.startswith("_") or mname in ("_add_policy",):
                if not mname.startswith("__"):
                    setattr(e, mname, mk(mname, getattr(e, mname)))
        if sub_yields:
            for rm in list(e.rm_map.values()):
                # has_link is asked by g() in the middle of every matcher-row evaluation: a scheduling point INSIDE a reading call
                # (replays recorded before this point existed run without it: `fine` = False)
                for mname in ("clear", "add_link", "delete_link") + (("has_link",) if fine else ()):
                    orig = getattr(rm, mname)

                    def mk2(mname, orig):
                        def spy2(*a, **k):
                            r = orig(*a, **k)
                            if sc.me() is not None:
                                sc.yield_(("in", "rm." + mname))
                            return r

                        return spy2

                    setattr(rm, mname, mk2(mname, orig))
        for tid, calls in enumerate(program):
            sc.spawn(tid, self._worker, tid, calls)

    def _worker(self, tid, calls):
        for k, (name, args, kwargs) in enumerate(calls):
            if k > 0:
                self.sc.yield_(("idle",))
            self.events.append(("inv", tid, k))
            r = call(self.se, name, args, kwargs)
            self.results[(tid, k)] = canon_res(r, name)
            self.events.append(("res", tid, k))

    def runnable(self):
        return self.sc.runnable_set()

    def step(self, tid):
        self.sc.step(tid)
        st = self.sc.ctl[tid].state
        if st[0] == "crashed":
            raise common.Infra("worker crashed: " + st[1])

    def state_kind(self, tid):
        return self.sc.ctl[tid].state[0]

    def close(self):
        _SCHED[0] = None
        self.sc.abort()
        self._undo_rm()
        S.set_current(None)


def blackbox(res, casbin, cls, rng):
    """while a thread is paused inside a read (write) section, a mutating (any locked) call must not complete"""
    holders = {"reader": ["enforce", "has_policy", "get_policy"], "writer": ["add_policy", "remove_policy", "add_grouping_policy"]}
    good_holder = {}
    for kind in [k for k in setup_defs() if k not in LIN_ONLY]:
        for name in public_methods(casbin):
            if name in EXEMPT:
                continue
            c = cls.get(name, "mutates")
            if c == "pure":
                continue
            sig = inspect.signature(getattr(casbin.SyncedEnforcer, name))
            for hold in ("reader", "writer"):
                if hold == "reader" and c != "mutates":
                    continue
                args, kwargs = synth_args(casbin, name, sig, kind, rng)
                run = None
                for hname in ([good_holder[(kind, hold)]] if (kind, hold) in good_holder else holders[hold]):
                    hargs, hkw = synth_args(casbin, hname, inspect.signature(getattr(casbin.SyncedEnforcer, hname)), kind, rng)
                    run = ConcRun(kind, [[(hname, hargs, hkw)], [(name, args, kwargs)]], sub_yields=False)
                    # thread 0 up to the entry of the wrapped call (lock held)
                    guard = 0
                    while not (run.state_kind(0) == "in") and guard < 20 and 0 in run.runnable():
                        run.step(0)
                        guard += 1
                    lk = run.se._rwlock
                    # the holder must really hold the section it stands for (its own defects are the white-box check's business)
                    if run.state_kind(0) == "in" and (lk._writer_active if hold == "writer" else (lk._active_readers >= 1 and not lk._writer_active)):
                        good_holder[(kind, hold)] = hname
                        break
                    run.close()
                    run = None
                if run is None:
                    res.count("blackbox:no-usable-holder")
                    continue
                try:
                    guard = 0
                    while 1 in run.runnable() and guard < 200:
                        run.step(1)
                        guard += 1
                    completed = run.state_kind(1) == "done"
                    res.evaluations += 1
                    res.count(f"blackbox:{hold}-inside:" + ("completed" if completed else "blocked"))
                    if completed:
                        res.violation(
                            {
                                "signature": "discipline:" + name,
                                "what": f"SyncedEnforcer.{name} ({c}) ran to completion while another thread was inside a {'read' if hold == 'reader' else 'write'} section ({hname})",
                                "check": "blackbox",
                                "setup": kind,
                                "holder": hold,
                                "method": name,
                                "call": show_call(name, args, kwargs),
                                "expected": "blocked until the section is left",
                                "observed": "completed",
                            }
                        )
                    else:
                        # everything must still terminate
                        guard = 0
                        while run.runnable() and guard < 400:
                            run.step(run.runnable()[0])
                            guard += 1
                        if not run.sc.all_done():
                            res.violation({"signature": "dead:" + name, "what": f"SyncedEnforcer.{name} blocked forever behind {hname}", "check": "blackbox", "setup": kind, "holder": hold, "method": name, "call": show_call(name, args, kwargs), "expected": "terminates", "observed": "blocked"})
                finally:
                    run.close()


# ------------------------------------------------------------------ (iii) linearizability


CORE_WRITES = [
    ("add_policy", ["carol", "data1", "read"]),
    ("add_policy", ["alice", "data2", "write"]),
    ("remove_policy", ["alice", "data1", "read"]),
    ("remove_policy", ["data2_admin", "data2", "read"]),
    ("add_role_for_user", ["bob", "data2_admin"]),
    ("add_role_for_user", ["carol", "data2_admin"]),
    ("delete_role_for_user", ["alice", "data2_admin"]),
    ("add_grouping_policy", ["carol", "data2_admin"]),
    ("remove_grouping_policy", ["alice", "data2_admin"]),
    ("delete_user", ["alice"]),
    ("delete_role", ["data2_admin"]),
    ("add_policies", [[["carol", "data2", "read"], ["carol", "data2", "write"]]]),
    ("remove_filtered_policy", [0, "data2_admin"]),
    ("delete_permissions_for_user", ["bob"]),
    ("clear_policy", []),
    ("load_policy", []),
    ("build_role_links", []),
    ("build_role_links", []),
    ("enable_enforce", [False]),
    ("enable_auto_build_role_links", [False]),
    ("add_permission_for_user", ["carol", "data2", "read"]),
]
CORE_READS = [
    ("enforce", ["alice", "data2", "read"]),
    ("enforce", ["alice", "data1", "read"]),
    ("enforce", ["carol", "data2", "write"]),
    ("enforce", ["bob", "data2", "write"]),
    ("enforce_ex", ["alice", "data2", "write"]),
    ("batch_enforce", [[["alice", "data2", "read"], ["carol", "data1", "read"]]]),
    ("get_roles_for_user", ["alice"]),
    ("get_users_for_role", ["data2_admin"]),
    ("has_role_for_user", ["alice", "data2_admin"]),
    ("get_implicit_roles_for_user", ["alice"]),
    ("get_implicit_permissions_for_user", ["alice"]),
    ("get_policy", []),
    ("get_grouping_policy", []),
    ("has_policy", ["carol", "data1", "read"]),
    ("get_all_subjects", []),
    ("get_permissions_for_user", ["data2_admin"]),
    ("get_implicit_users_for_permission", ["data2", "read"]),
    ("get_filtered_policy", [0, "alice"]),
]


DOM_WRITES = [
    ("add_policy", ["alice", "domain1", "data2", "read"]),
    ("remove_policy", ["admin", "domain1", "data1", "read"]),
    ("add_role_for_user_in_domain", ["bob", "admin", "domain1"]),
    ("add_role_for_user_in_domain", ["carol", "admin", "domain2"]),
    ("delete_roles_for_user_in_domain", ["alice", "admin", "domain1"]),
    ("add_grouping_policy", ["carol", "admin", "domain1"]),
    ("remove_grouping_policy", ["bob", "admin", "domain2"]),
    ("remove_filtered_grouping_policy", [2, "domain1"]),
    ("build_role_links", []),
    ("clear_policy", []),
    ("load_policy", []),
    ("add_grouping_policies", [[["carol", "admin", "domain1"], ["carol", "admin", "domain2"]]]),
]
DOM_READS = [
    ("enforce", ["alice", "domain1", "data1", "read"]),
    ("enforce", ["bob", "domain2", "data2", "write"]),
    ("enforce", ["carol", "domain1", "data1", "write"]),
    ("enforce", ["bob", "domain1", "data1", "read"]),
    ("get_roles_for_user_in_domain", ["alice", "domain1"]),
    ("get_users_for_role_in_domain", ["admin", "domain1"]),
    ("get_permissions_for_user_in_domain", ["admin", "domain1"]),
    ("get_implicit_roles_for_user", ["alice", "domain1"]),
    ("get_implicit_permissions_for_user", ["alice", "domain1"]),
    ("get_grouping_policy", []),
    ("get_all_roles_by_domain", ["domain1"]),
    ("get_filtered_grouping_policy", [2, "domain2"]),
]


# pattern setups: X stands for a name no call has asked about yet (chosen per program, so that several threads ask about the
# SAME new name), D for a domain
PAT_WRITES = [
    ("add_role_for_user", ["dept/ops/*", "staff"]),
    ("delete_role_for_user", ["dept/eng/*", "engineers"]),
    ("add_role_for_user", ["X", "staff"]),
    ("add_policy", ["X", "data2", "write"]),
    ("remove_policy", ["engineers", "data1", "read"]),
    ("build_role_links", []),
    ("load_policy", []),
]
PAT_READS = [
    ("enforce", ["X", "data1", "read"]),
    ("enforce", ["X", "data2", "read"]),
    ("get_roles_for_user", ["X"]),
    ("has_role_for_user", ["X", "engineers"]),
    ("get_implicit_roles_for_user", ["X"]),
    ("get_implicit_permissions_for_user", ["X"]),
    ("get_users_for_role", ["engineers"]),
    ("get_users_for_role", ["staff"]),
    ("get_implicit_users_for_permission", ["data1", "read"]),
    ("batch_enforce", [[["X", "data1", "read"], ["X", "data2", "write"]]]),
]
DOMPAT_WRITES = [
    ("add_role_for_user_in_domain", ["dept/ops/*", "staff", "D"]),
    ("delete_roles_for_user_in_domain", ["dept/eng/*", "engineers", "domain1"]),
    ("add_grouping_policy", ["X", "staff", "D"]),
    ("add_policy", ["X", "D", "data2", "write"]),
    ("build_role_links", []),
    ("load_policy", []),
]
DOMPAT_READS = [
    ("enforce", ["X", "D", "data1", "read"]),
    ("enforce", ["X", "D", "data2", "write"]),
    ("enforce", ["X", "domain3", "data2", "write"]),
    ("get_roles_for_user_in_domain", ["X", "D"]),
    ("get_users_for_role_in_domain", ["engineers", "D"]),
    ("get_users_for_role_in_domain", ["staff", "domain1"]),
    ("get_implicit_roles_for_user", ["X", "D"]),
    ("get_implicit_permissions_for_user", ["X", "D"]),
    ("get_roles_for_user_in_domain", ["X", "domain3"]),
    ("get_users_for_role_in_domain", ["engineers", "domain3"]),
]
ALPHABETS = {"rbac": (CORE_WRITES, CORE_READS), "dom": (DOM_WRITES, DOM_READS), "pattern": (PAT_WRITES, PAT_READS), "dompat": (DOMPAT_WRITES, DOMPAT_READS)}


def _inst(v, x, d):
    if isinstance(v, list):
        return [_inst(y, x, d) for y in v]
    return x if v == "X" else d if v == "D" else v


def gen_program(casbin, rng, whole_api_names, kind="rbac"):
    shape = rng.choice([(1, 1), (1, 2), (2, 1), (2, 2), (1, 1, 1), (1, 3), (2, 1, 1), (3, 1)])
    writes, reads = ALPHABETS[kind]
    if kind in ("pattern", "dompat"):
        # first-sight stream: mostly reading calls, most of them about ONE new name (and one domain), from several threads, and
        # the questions whose answer shows what the first sight left behind (get_users_for_role*, later decisions)
        x0, d0 = rng.choice(FRESH), rng.choice(["domain1", "domain2", "domain3"])
        prog = []
        for n in shape:
            calls = []
            for _ in range(n):
                name, args = rng.choice(reads if rng.random() < 0.8 else writes)
                x = x0 if rng.random() < 0.85 else rng.choice(FRESH)
                d = d0 if rng.random() < 0.85 else rng.choice(["domain1", "domain2"])
                calls.append((name, _inst(list(args), x, d), {}))
            prog.append(calls)
        return prog
    if rng.random() < 0.2:
        # the auto-reload thread as one more thread: one iteration of its loop, with a good or a failing adapter
        prog = [[(rng.choice(["autoload_once", "autoload_once_failing"]), [], {})]]
        for n in rng.choice([(1,), (2,), (1, 1)]):
            calls = []
            for _ in range(n):
                name, args = rng.choice(reads if rng.random() < 0.7 else writes)
                calls.append((name, list(args), {}))
            prog.append(calls)
        return prog
    prog = []
    for n in shape:
        calls = []
        for _ in range(n):
            x = rng.random()
            if x < 0.45:
                name, args = rng.choice(writes)
                calls.append((name, list(args), {}))
            elif x < 0.9:
                name, args = rng.choice(reads)
                calls.append((name, list(args), {}))
            else:
                name = rng.choice(whole_api_names)
                args, kwargs = synth_args(casbin, name, inspect.signature(getattr(casbin.SyncedEnforcer, name)), kind, rng)
                if all(canon(a) == a for a in args):
                    calls.append((name, args, kwargs))
                else:
                    name, args = rng.choice(reads)
                    calls.append((name, list(args), {}))
        prog.append(calls)
    return prog


def seq_outcomes(kind, program):
    """all sequential orders (respecting each thread's program order) on a plain Enforcer: [(order, results, final)]"""
    ids = [(t, k) for t, calls in enumerate(program) for k in range(len(calls))]
    outs = []
    seen_orders = set()

    def rec(order, pos):
        if len(order) == len(ids):
            outs.append(tuple(order))
            return
        for t in range(len(program)):
            if pos[t] < len(program[t]):
                pos[t] += 1
                order.append((t, pos[t] - 1))
                rec(order, pos)
                order.pop()
                pos[t] -= 1

    rec([], [0] * len(program))
    res = []
    for order in outs:
        pe = build(kind, False)
        results = {}
        for t, k in order:
            name, args, kwargs = program[t][k]
            results[(t, k)] = canon_res(call(pe, name, _copy_args(args), dict(kwargs)), name)
        res.append((order, results, shape_snapshot(pe)))
    return res


def _copy_args(args):
    """fresh copies of mutable arguments (rule lists, models, adapters, role managers) so that the two enforcers / two
    runs never share state through an argument; functions and plain values are shared"""
    import copy
    import types

    def cp(a):
        if a is None or isinstance(a, (bool, int, float, str, types.FunctionType)) or isinstance(a, type):
            return a
        import enum

        if isinstance(a, enum.Enum):
            return a
        return copy.deepcopy(a)

    if isinstance(args, dict):
        return {k: cp(v) for k, v in args.items()}
    return [cp(a) for a in args]


def graph_diag(e):
    """diagnosis only (names the failing class in the signature, never decides a verdict): role objects that the role graph
    still refers to although they are not the published node of their name - what a lazy creation that ran twice leaves"""
    e = inner(e)
    out = []
    for pt in sorted(e.rm_map):
        rm = e.rm_map[pt]
        subs = [("", rm)] if hasattr(rm, "all_roles") and isinstance(getattr(rm, "all_roles"), dict) else []
        subs += sorted(getattr(rm, "rm_map", {}).items()) if isinstance(getattr(rm, "rm_map", None), dict) else []
        for dname, m in subs:
            roles = getattr(m, "all_roles", None)
            if not isinstance(roles, dict):
                continue
            for r in list(roles.values()):
                for x in list(r.users) + list(r.roles):
                    if roles.get(x.name) is not x:
                        out.append((pt, dname, x.name))
    return sorted(set(out))


def realtime_pairs(events):
    """(a, b): call a responded before call b was invoked"""
    pairs = set()
    done = []
    for ev, t, k in events:
        if ev == "res":
            done.append((t, k))
        else:
            for a in done:
                pairs.add((a, (t, k)))
    return pairs


def linearizable(outcomes, results, final, pairs):
    for order, rs, fin in outcomes:
        if rs != results or fin != final:
            continue
        pos = {c: i for i, c in enumerate(order)}
        if all(pos[a] < pos[b] for a, b in pairs):
            return True
    return False


def run_conc(kind, program, schedule, policy_rng=None, bound=None, stack=None, fine=True):
    """execute `schedule`, then continue (current thread while runnable, else lowest runnable; random with policy_rng).
    With `stack`: push the preemption-bounded alternatives (CHESS style)."""
    prog = [[(n, _copy_args(a), dict(k)) for n, a, k in calls] for calls in program]
    run = ConcRun(kind, prog, fine=fine)
    sched = []
    try:
        cur = None
        used = 0
        pos = 0
        while True:
            r = run.runnable()
            if not r:
                break
            if pos < len(schedule):
                tid = schedule[pos]
                if tid not in r:
                    raise common.Infra(f"schedule not replayable at step {pos}: thread {tid} not runnable")
            elif policy_rng is not None:
                tid = policy_rng.choice(r)
            else:
                tid = cur if cur in r else r[0]
                if stack is not None:
                    for alt in r:
                        if alt != tid:
                            cost = 1 if cur in r else 0
                            if used + cost <= bound:
                                stack.append((sched + [alt], used + cost))
            if pos >= len(schedule) and cur in r and tid != cur:
                used += 1
            run.step(tid)
            sched.append(tid)
            cur = tid
            pos += 1
            if len(sched) > 2000:
                raise common.Infra("runaway schedule")
        dead = not run.sc.all_done()
        diag = [] if dead else graph_diag(run.se)  # before the final snapshot, whose own questions create nodes
        return dict(schedule=sched, results=dict(run.results), final=None if dead else shape_snapshot(run.se), pairs=realtime_pairs(run.events), dead=dead, diag=diag)
    finally:
        run.close()


def _prog_show(program):
    return [[show_call(*c) for c in calls] for calls in program]


def lin_task(args):
    kind, program, bound, n_random, seed, max_execs = args
    common.use_repo()
    try:
        outcomes = seq_outcomes(kind, program)
        total_calls = sum(len(c) for c in program)
        if total_calls <= 2:
            bound = 99  # two calls: ALL schedules (no preemption bound)
        out = {"execs": 0, "violations": [], "distinct_outcomes": set(), "blocked_states": 0, "all_schedules": False}
        stack = [([], 0)]
        seen_prefix = set()
        rng = random.Random(seed)
        n = 0
        while (stack or n_random > 0) and n < max_execs:
            if stack:
                prefix, used = stack.pop()
                if tuple(prefix) in seen_prefix:
                    continue
                seen_prefix.add(tuple(prefix))
                st2 = []
                r = run_conc(kind, program, prefix, None, bound, st2)
                # alternatives discovered after the prefix inherit the preemptions already used by the prefix
                for p, u in st2:
                    if len(p) > len(prefix):
                        stack.append((p, used + u))
            else:
                n_random -= 1
                r = run_conc(kind, program, [], rng)
            n += 1
            out["execs"] += 1
            key = (tuple(sorted(r["results"].items(), key=repr)), r["final"])
            out["distinct_outcomes"].add(hash(repr(key)))
            if r["dead"]:
                out["violations"].append(dict(kind="dead", schedule=r["schedule"], observed="blocked forever"))
                break
            if not linearizable(outcomes, r["results"], r["final"], r["pairs"]):
                v = dict(kind="lin", schedule=r["schedule"], observed=[[list(k), v] for k, v in sorted(r["results"].items())], orphans=[list(x) for x in r["diag"]])
                if not any(rs == r["results"] for _o, rs, _f in outcomes):
                    v["differs"] = "results"
                else:
                    v["differs"] = "final state"
                    fins = [f for _o, rs, f in outcomes if rs == r["results"]]
                    v["final_links"] = [list(map(repr, sorted(set(r["final"][1]) - set(fins[0][1]), key=repr))), list(map(repr, sorted(set(fins[0][1]) - set(r["final"][1]), key=repr)))]
                out["violations"].append(v)
                break
        out["distinct_outcomes"] = len(out["distinct_outcomes"])
        out["orders"] = len(outcomes)
        out["all_schedules"] = bound == 99 and not stack and not out["violations"]
        return out
    except S.SchedError as e:
        return {"error": str(e)}


def _plain(program):
    return all(canon(a) == a for calls in program for _, args, kw in calls for a in list(args) + list(kw.values()))


def lin_check(res, casbin, rng, n_programs, bound, n_random, max_execs, extra_programs=(), bad_rows=frozenset(), cls_of=None):
    cls_of = cls_of or {}
    names = [n for n in public_methods(casbin) if n not in EXEMPT and hasattr(casbin.Enforcer, n)]
    programs = [p if isinstance(p, tuple) else ("rbac", p) for p in extra_programs]
    while len(programs) < n_programs:
        x = rng.random()
        kind = "dom" if x < 0.25 else "rbac" if x < 0.75 else "pattern" if x < 0.9 else "dompat"
        p = gen_program(casbin, rng, names, kind)
        if _plain(p):
            programs.append((kind, p))
    # the first-sight setups have a scheduling point in every call of the matching function: longer executions, smaller budget
    tasks = [(kind, p, bound, n_random, rng.randrange(1 << 30), max_execs * 5 // 8 if kind in ("pattern", "dompat") else max_execs) for kind, p in programs]
    with mp.Pool(14) as pool:
        outs = pool.map(lin_task, tasks, chunksize=2)
    for (kind, p), o in zip(programs, outs):
        if "error" in o:
            raise common.Infra("controlled scheduler (C17): " + o["error"] + " program " + repr(_prog_show(p)))
        res.evaluations += o["execs"]
        res.traces_validated += o["execs"]
        res.count("lin:programs")
        res.count("lin:model=" + kind)
        res.count("lin:executions", o["execs"])
        res.count("lin:threads=" + str(len(p)))
        res.count("lin:sequential_orders", o["orders"])
        if o.get("all_schedules"):
            res.count("lin:programs_with_ALL_schedules_explored")
        if o["distinct_outcomes"] > 1:
            res.nontrivial.add(hash(repr(_prog_show(p))))
            res.count("lin:programs_with_several_outcomes")
        for v in o["violations"]:
            names_in = sorted({c[0] for calls in p for c in calls})
            # stable signature: the methods of the program whose table row fails the static checks, when there are any
            names_in = [n for n in names_in if n in bad_rows] or names_in
            sig = ("lin:" if v["kind"] == "lin" else "dead:") + "+".join(names_in)
            extra = ""
            if v["kind"] == "lin" and v.get("orphans"):
                # diagnosis: the role graph refers to a role object that is not the published node of its name - the class "a
                # lazily created role was created twice", whatever the methods of the program were
                sig = "lin:role-created-twice"
                extra = "; afterwards the role graph lists " + ", ".join(sorted({repr(o[2]) for o in v["orphans"]})) + " twice among the users of its roles (get_users_for_role shows it): overlapping calls each created the role object of that name"
            res.violation(
                {
                    "signature": sig,
                    "what": (
                        "a concurrent execution of SyncedEnforcer calls is not equivalent to any one-at-a-time order of the same calls on a plain Enforcer that respects real time"
                        if v["kind"] == "lin"
                        else "a concurrent execution of SyncedEnforcer calls blocked forever"
                    )
                    + f": threads {_prog_show(p)}, schedule {v['schedule']}"
                    + extra,
                    "check": "lin",
                    "setup": kind,
                    "program": _prog_show(p),
                    "schedule": v["schedule"],
                    "fine": True,
                    "expected": "results and final state of some sequential order",
                    "observed": v["observed"],
                    "differs": v.get("differs"),
                    "orphan_roles": v.get("orphans"),
                    "final_links_only_concurrent_vs_only_sequential": v.get("final_links"),
                }
            )
        if len(res.samples) < 5 and o["execs"] > 1:
            res.sample({"program": _prog_show(p), "executions": o["execs"], "distinct_outcomes": o["distinct_outcomes"], "sequential_orders": o["orders"]})


F12_PROGRAMS = [
    [[("build_role_links", [], {})], [("enforce", ["alice", "data2", "read"], {})]],
    [[("build_role_links", [], {})], [("get_implicit_roles_for_user", ["alice"], {}), ("enforce", ["alice", "data2", "write"], {})]],
    [[("add_role_for_user", ["bob", "data2_admin"], {}), ("build_role_links", [], {})], [("enforce", ["bob", "data2", "read"], {})]],
]


_ENG = "dept/eng/alice"
# a batch of requests whose answers a concurrent writer flips TOGETHER: every one-at-a-time order answers all-before or
# all-after, never a mixture (batch_enforce is ONE reading call)
BATCH_PROGRAMS = [
    [[("batch_enforce", [[["alice", "data2", "read"], ["alice", "data2", "write"]]], {})], [("delete_role_for_user", ["alice", "data2_admin"], {})]],
    [[("batch_enforce", [[["carol", "data2", "read"], ["carol", "data2", "write"]]], {})], [("add_role_for_user", ["carol", "data2_admin"], {})]],
    [[("batch_enforce", [[["alice", "data2", "read"], ["alice", "data2", "write"], ["alice", "data2", "read"]]], {})], [("delete_user", ["alice"], {})]],
    [[("batch_enforce", [[["alice", "data2", "read"], ["alice", "data2", "write"]]], {})], [("delete_role", ["data2_admin"], {})], [("enforce", ["alice", "data2", "read"], {})]],
]
PATTERN_PROGRAMS = [
    ("pattern", [[("enforce", [_ENG, "data1", "read"], {})], [("enforce", [_ENG, "data1", "read"], {})]]),
    ("pattern", [[("enforce", [_ENG, "data2", "read"], {})], [("get_implicit_roles_for_user", [_ENG], {})]]),
    ("pattern", [[("has_role_for_user", [_ENG, "engineers"], {})], [("enforce", [_ENG, "data1", "read"], {}), ("enforce", ["dept/eng/bob", "data1", "read"], {})]]),
    ("pattern", [[("add_role_for_user", ["dept/ops/*", "staff"], {})], [("enforce", [_ENG, "data2", "read"], {})], [("enforce", ["dept/ops/carol", "data2", "read"], {})]]),
    ("pattern", [[("delete_role_for_user", ["dept/eng/*", "engineers"], {})], [("enforce", [_ENG, "data1", "read"], {})], [("get_roles_for_user", [_ENG], {})]]),
    # two first sights of the same name, then the question whose ANSWER shows what they left behind
    ("pattern", [[("get_roles_for_user", [_ENG], {})], [("get_roles_for_user", [_ENG], {}), ("get_users_for_role", ["engineers"], {})]]),
    ("pattern", [[("has_role_for_user", [_ENG, "staff"], {})], [("get_implicit_roles_for_user", [_ENG], {}), ("get_users_for_role", ["engineers"], {})]]),
    # first sight of a name inside a per-domain manager, and of a DOMAIN (its manager is built by a reading call)
    ("dompat", [[("enforce", [_ENG, "domain1", "data2", "write"], {})], [("get_roles_for_user_in_domain", [_ENG, "domain1"], {})]]),
    ("dompat", [[("get_roles_for_user_in_domain", [_ENG, "domain3"], {})], [("get_roles_for_user_in_domain", [_ENG, "domain3"], {})]]),
]


# ------------------------------------------------------------------ entry points


def run(ctx):
    res = common.Result()
    casbin = common.use_repo()
    rng = ctx["rng"]
    rows = load_table() if not ctx["info"]["translators"].get("T2") else []
    pubs = public_methods(casbin)
    cls = classify_names(pubs + [n for n, _ in inspect.getmembers(casbin.Enforcer, inspect.isfunction) if not n.startswith("_")])
    # a broken proof/tie first gets the quick budget; the deep one only if that finds no failing input
    stages = ["quick"] if not ctx["deep"] else (["thorough"] if ctx["proof_ok"] else ["quick", "thorough"])
    bad_rows = {r["name"] for r in rows if not (r["disc"] and r["fwd"])}
    for stage in stages:
        if res.spec_violations:
            break
        q = stage == "quick"
        # static table vs the class actually imported (the translator must have seen every public method)
        if rows:
            tnames = {r["name"] for r in rows if not r["private"]}
            if tnames != set(pubs):
                res.disagree({"what": "the regenerated table and SyncedEnforcer's public methods differ", "impl": sorted(set(pubs) - tnames), "model": sorted(tnames - set(pubs))})
            for r in rows:
                res.count("table:" + r["kind"] + ":" + r["mode"])
        purity(res, casbin, cls, rng, 3 if q else 10)
        seq_equiv(res, casbin, rng, 150 if q else 1500, 12)
        whitebox(res, casbin, rows, cls, rng)
        blackbox(res, casbin, cls, rng)
        lin_check(res, casbin, rng, 160 if q else 700, 2 if q else 3, 12 if q else 40, 400 if q else 2000, extra_programs=F12_PROGRAMS + BATCH_PROGRAMS + PATTERN_PROGRAMS, bad_rows=bad_rows, cls_of=cls)
    res.rule = (
        "purity observation of every reading callee on 3 sample enforcers; sequential histories (every public method alone + random histories of 12 calls "
        "over the whole API, four setups: plain RBAC, domains, RBAC with a role matching function, domains with role and domain matching "
        "functions) through SyncedEnforcer and Enforcer; white-box lock/argument/return spies and black-box blocking "
        "observation for every public method; concurrent programs of 2-3 threads x 1-3 calls under the controlled scheduler "
        "(preemption-bounded DFS + random schedules; scheduling points also inside the matching functions and before every acquisition of "
        "a role manager's own lock; a first-sight stream: several threads asking about the SAME name that is not yet a node of the role "
        "graph / a domain that has no manager yet), each outcome - results and final state incl. get_users of every role with "
        "multiplicities - checked against all sequential orders on a plain Enforcer; "
        "non-trivial = histories of more than one call / programs with more than one distinct outcome"
    )
    res.exhaustive = False
    return res


def replay(obj):
    casbin = common.use_repo()
    chk = obj.get("check")
    rng = random.Random(0)
    if chk == "lin":
        program = [[(c[0], c[1], c[2]) for c in calls] for calls in obj["program"]]
        try:
            r = run_conc(obj["setup"], program, obj["schedule"], fine=obj.get("fine", False))
        except common.Infra as e:
            print("  the recorded schedule is no longer possible on this tree:", e)
            return False
        if r["dead"]:
            return True
        ok = linearizable(seq_outcomes(obj["setup"], program), r["results"], r["final"], r["pairs"])
        print("  results:", sorted(r["results"].items()))
        return not ok
    name = obj.get("method") or (obj.get("call") or [None])[0]
    res = common.Result()
    cls = classify_names([name]) if name else {}
    if chk == "seq":
        hist = []
        for name_, args, kwargs, ok in obj["history_raw"]:
            if ok:
                hist.append((name_, args, kwargs))
            else:
                a, k = synth_args(casbin, name_, inspect.signature(getattr(casbin.SyncedEnforcer, name_)), obj["setup"], rng)
                hist.append((name_, a, k))
        i, exp, obs = run_seq_pair(obj["setup"], hist)
        print("  plain:", exp, " synced:", obs)
        return i is not None
    if chk == "purity":
        purity(res, casbin, {name: cls[name]}, rng, 6)
    elif chk == "whitebox":
        rows = [r for r in load_table() if r["name"] == name]
        orig = public_methods

        whitebox_one(res, casbin, rows, cls, rng, name)
    elif chk == "blackbox":
        blackbox_one(res, casbin, cls, rng, name)
    sig = obj.get("signature")
    for v in res.spec_violations:
        print("  ", v["what"])
    return any(v["signature"] == sig for v in res.spec_violations)


def whitebox_one(res, casbin, rows, cls, rng, name):
    global public_methods
    saved = public_methods
    public_methods = lambda c: [name]  # noqa
    try:
        whitebox(res, casbin, rows, cls, rng)
    finally:
        public_methods = saved


def blackbox_one(res, casbin, cls, rng, name):
    global public_methods
    saved = public_methods
    public_methods = lambda c: [name]  # noqa
    try:
        blackbox(res, casbin, cls, rng)
    finally:
        public_methods = saved
