"""C13 — built-in matching functions implement their documented pattern languages.

Three-way comparison on every case: implementation (real code, called through `FunctionMap` where a matcher-visible
name exists) vs Lean model (`model=`) vs Lean executable specification (`spec=`, only for documented-form
patterns / single-line keys), plus an independent Python oracle for the specification itself (glob via a regex
translation of well-formed patterns, keyMatch2/3/5 via a token matcher).

Streams: corpus -> exhaustive small scope (all key/pattern pairs up to a length bound over alphabets containing the
metacharacters) -> generated segment paths -> seeded random incl. malformed / regex-special / non-ASCII / line feeds.
Work is sharded over processes; every shard pipes its lines to its own `driver builtin`."""
import glob as _glob
import itertools
import json
import multiprocessing
import os
import random
import re
import warnings

warnings.simplefilter("ignore", FutureWarning)

import common
from common import enc_bool, enc_str, parse_ms, run_driver

TRANSLATORS = ["T4"]
LEVEL = "proof"
ASSUMPTIONS = [
    "keys and patterns are sequences of Unicode scalar values; a line feed in a key is a character like any other (the key matchers compile their regex with (?s) and anchor it with \\Z)",
    "documented form (decidable, Spec/Builtin.lean tok2/tok3/tok5/segs2/segsB): literals are not regex metacharacters, '*' directly follows '/', (keyMatch2: or is the whole pattern), ':name' runs to the next '/', '{name}' closes in its segment; for keyMatch4/5 a name contains no brace; for the binding functions variables and '*' are whole segments and '*' is last",
    "CPython's re is modelled on the fragment the rewrites emit (literal, '.', '[^/]', '[^\\/]' with none/*/+/+? and one-atom capture groups); ipaddress (CPython 3.12) is transcribed function by function for both families: dotted quads, the IPv6 text forms ('::', dotted-quad suffix, %zone), '/prefixlen' and IPv4 dotted netmasks/hostmasks; nothing of ip_match is left outside the model (theorem ipMatch_total); both validated by the same differential run, not verified",
    "glob_match is modelled as repaired by fix_F09 (faithful star case); the key matchers as repaired by fix_F21NL (\\Z anchor) and fix_F21NLb ((?s): '.' matches line feeds)",
]
TRUSTED_EXTRA = ["translator T4 (tools/translate/t4_functions.py)", "CPython re / ipaddress on the modelled fragment"]

NPROC = min(16, os.cpu_count() or 4)

# ------------------------------------------------------------------ implementation runner

_IMPL = {}


def impl():
    if not _IMPL:
        casbin = common.use_repo()
        from casbin import util
        from casbin.model.function import FunctionMap
        import casbin.util.builtin_operators as bo

        _IMPL["util"] = util
        _IMPL["bo"] = bo
        _IMPL["fm"] = FunctionMap.load_function_map().get_functions()
    return _IMPL


FM_NAME = {"keymatch": "keyMatch", "keymatch2": "keyMatch2", "keymatch3": "keyMatch3", "keymatch4": "keyMatch4", "keymatch5": "keyMatch5", "glob": "globMatch", "ip": "ipMatch"}


def fmt_exc(ex):
    if isinstance(ex, re.error):
        return "!reError"
    if isinstance(ex, ValueError):
        return "!valueError"
    if isinstance(ex, IndexError):
        return "!indexError"
    if type(ex) is Exception and "KeyMatch4" in str(ex):
        return "!k4Tokens"
    return f"!other:{type(ex).__name__}"


def enc_caps(caps):
    return "~" if not caps else ",".join(enc_str(c) for c in caps)


ENF_TEXT = """[request_definition]
r = obj
[policy_definition]
p = obj
[policy_effect]
e = some(where (p.eft == allow))
[matchers]
m = %s(r.obj, p.obj)
"""
_ENF = {}


def enforcer_for(name):
    """a real Enforcer whose matcher is `<name>(r.obj, p.obj)` (the function as registered by load_function_map)"""
    if name not in _ENF:
        casbin = common.use_repo()
        _ENF[name] = casbin.Enforcer(casbin.Enforcer.new_model(text=ENF_TEXT % name))
    return _ENF[name]


def impl_call(op, args):
    im = impl()
    bo = im["bo"]
    if op.startswith("enf:"):
        # through Enforcer.enforce: request = key, the only policy rule = pattern
        try:
            e = enforcer_for(FM_NAME[op[4:]])
            e.model.model["p"]["p"].policy = [[args[1]]]
            r = e.enforce(args[0])
            return enc_bool(r) if isinstance(r, bool) else f"!nonbool:{r!r}"
        except Exception as ex:  # noqa
            return fmt_exc(ex)
    try:
        if op in FM_NAME:
            r = im["fm"][FM_NAME[op]](*args)
            return enc_bool(r) if isinstance(r, bool) else f"!nonbool:{r!r}"
        if op == "keyget":
            r = bo.key_get(*args)
        elif op == "keyget2":
            r = bo.key_get2(*args)
        elif op == "keyget3":
            r = bo.key_get3(*args)
        elif op == "range":
            r = bo.range_match(args[0], 0, args[1])
            return str(r) if isinstance(r, int) and not isinstance(r, bool) else f"!nonint:{r!r}"
        elif op == "remodel":
            m = re.match(args[0], args[1])
            if m is None:
                return "N"
            if any(g is None for g in m.groups()):
                return "!nonegroup"
            return "M:" + enc_caps(list(m.groups()))
        elif op.startswith("rewrite") or op.startswith("names"):
            p = args[0].replace("/*", "/.*")
            if op == "rewrite2":
                r = bo.KEY_MATCH2_PATTERN.sub(r"\g<1>[^\/]+\g<2>", p, 0)
                r = "(.*)" if r == "*" else r
            elif op == "rewriteg2":
                r = bo.KEY_MATCH2_PATTERN.sub(r"\g<1>([^\/]+)\g<2>", p, 0)
                r = "(.*)" if r == "*" else r
            elif op == "rewrite3":
                r = bo.KEY_MATCH3_PATTERN.sub(r"\g<1>[^\/]+\g<2>", p, 0)
            elif op == "rewriteg3":
                r = bo.KEY_MATCH3_PATTERN.sub(r"\g<1>([^/]+?)\g<2>", p, 0)
                r = "(.*)" if r == "*" else r
            elif op == "rewrite4":
                r = bo.KEY_MATCH4_PATTERN.sub("([^/]+)", p)
            elif op == "rewrite5":
                r = bo.KEY_MATCH5_PATTERN.sub(r"[^/]+", p, 0)
            elif op == "names2":
                return enc_caps([x[1:] for x in re.findall(":[^/]+", p)])
            elif op == "names3":
                return enc_caps([x[1:-1] for x in re.findall(r"{[^/]+?}", p)])
            elif op == "names4":
                return enc_caps(bo.KEY_MATCH4_PATTERN.findall(p))
            else:
                return "!badop"
        else:
            return "!badop"
        return enc_str(r) if isinstance(r, str) else f"!nonstr:{r!r}"
    except Exception as ex:  # noqa
        return fmt_exc(ex)


def lean_line(op, args):
    return "\t".join([op[4:] if op.startswith("enf:") else op] + [enc_str(a) for a in args])


# ------------------------------------------------------------------ independent Python oracle for the specification

META = set(".^$*+?{}[]\\|()")


def _match_tokens(toks, s):
    """toks: list of ('l', c) | ('*',) | ('v',); star = any text, var = non-empty run without '/'"""
    n = len(s)
    cur = {0}
    for t in toks:
        nxt = set()
        if t[0] == "l":
            for i in cur:
                if i < n and s[i] == t[1]:
                    nxt.add(i + 1)
        elif t[0] == "*":
            if cur:
                nxt = set(range(min(cur), n + 1))
        else:
            for i in cur:
                j = i
                while j < n and s[j] != "/":
                    j += 1
                    nxt.add(j)
        cur = nxt
        if not cur:
            return False
    return n in cur


def _toks_common(p, i, out):
    """'/*' and plain literals; returns new index or None"""
    if p.startswith("/*", i):
        out += [("l", "/"), ("*",)]
        return i + 2
    if p[i] in META:
        return None
    out.append(("l", p[i]))
    return i + 1


def oracle_tokens(kind, p):
    out = []
    i = 0
    if kind == 2 and p == "*":
        return [("*",)]
    while i < len(p):
        c = p[i]
        if kind == 2 and c == ":":
            j = i + 1
            while j < len(p) and p[j] != "/":
                j += 1
            if j == i + 1:
                out.append(("l", ":"))
                i += 1
            else:
                out.append(("v",))
                i = j
            continue
        if kind in (3, 5) and c == "{":
            j = i + 1
            while j < len(p) and p[j] != "/":
                j += 1
            seg = p[i + 1 : j]
            if kind == 3:
                e = seg.find("}", 1)
                if e < 1:
                    return None
            else:
                e = seg.rfind("}")
                if e < 1 or "{" in seg[:e] or "}" in seg[:e]:
                    return None
            out.append(("v",))
            i = i + 1 + e + 1
            continue
        i = _toks_common(p, i, out)
        if i is None:
            return None
    return out


def oracle_k(op, k, p):
    kind = {"keymatch2": 2, "keymatch3": 3, "keymatch5": 5}[op]
    toks = oracle_tokens(kind, p)
    if toks is None:
        return None
    if kind == 5 and "?" in k:
        k = k[: k.index("?")]
    return _match_tokens(toks, k)


_GLOB_RX = {}


def oracle_glob_rx(p):
    """regex for a well-formed glob pattern, None when the pattern is outside the plainly documented syntax"""
    if p in _GLOB_RX:
        return _GLOB_RX[p]
    out = []
    i = 0
    ok = True
    while i < len(p):
        c = p[i]
        i += 1
        if c == "*":
            out.append("[^/]*")
        elif c == "?":
            out.append("[^/]")
        elif c == "\\":
            if i == len(p):
                ok = False
                break
            out.append(re.escape(p[i]))
            i += 1
        elif c == "[":
            neg = i < len(p) and p[i] in "!^"
            if neg:
                i += 1
            items = []
            closed = False
            while i < len(p):
                d = p[i]
                i += 1
                if d == "]":
                    closed = True
                    break
                if d == "\\" or d == "-":
                    ok = False
                    break
                if i + 1 < len(p) and p[i] == "-" and p[i + 1] not in "]\\":
                    items.append((d, p[i + 1]))
                    i += 2
                else:
                    items.append((d, d))
            if not ok or not closed or not items:
                ok = False
                break
            body = "".join(re.escape(a) if a == b else re.escape(a) + "-" + re.escape(b) for a, b in items if a <= b)
            if neg:
                out.append("[^/" + body + "]")
            elif body:
                out.append("(?!/)[" + body + "]")
            else:
                out.append("(?!)")
        else:
            out.append(re.escape(c))
    rx = re.compile("".join(out), re.S) if ok else None
    if len(_GLOB_RX) < 200000:
        _GLOB_RX[p] = rx
    return rx


def seg_oracle(op, args):
    """keyMatch4 / keyGet2 / keyGet3 segment by segment: variables and '*' are whole segments, '*' only last"""
    k, p = args[0], args[1]
    colon = op == "keyget2"
    if colon and p == "*":
        return enc_str("")
    toks = []
    psegs = p.split("/")
    for i, sg in enumerate(psegs):
        if sg == "*":
            if i == len(psegs) - 1 and i > 0:
                toks.append(("rest",))
            else:
                return None
        elif colon and sg.startswith(":") and len(sg) > 1:
            toks.append(("var", sg[1:]))
        elif not colon and len(sg) >= 3 and sg[0] == "{" and sg[-1] == "}" and "{" not in sg[1:-1] and "}" not in sg[1:-1]:
            toks.append(("var", sg[1:-1]))
        elif any(c in META for c in sg) or (colon and ":" in sg and sg != ":"):
            return None
        else:
            toks.append(("lit", sg))
    ks = k.split("/")
    binds = []
    ok = True
    i = 0
    for t in toks:
        if t[0] == "rest":
            ok = i < len(ks)
            i = len(ks)
            break
        if i >= len(ks):
            ok = False
            break
        if t[0] == "lit":
            if ks[i] != t[1]:
                ok = False
                break
        else:
            if ks[i] == "":
                ok = False
                break
            binds.append((t[1], ks[i]))
        i += 1
    if ok and i != len(ks):
        ok = False
    if op == "keymatch4":
        if not ok:
            return enc_bool(False)
        d = {}
        for n, v in binds:
            if d.setdefault(n, v) != v:
                return enc_bool(False)
        return enc_bool(True)
    if not ok:
        return enc_str("")
    for n, v in binds:
        if n == args[2]:
            return enc_str(v)
    return enc_str("")


def oracle(op, args):
    """None = the oracle does not speak"""
    if op in ("keymatch4", "keyget2", "keyget3"):
        return seg_oracle(op, args)
    if op == "glob":
        rx = oracle_glob_rx(args[1])
        return None if rx is None else enc_bool(rx.fullmatch(args[0]) is not None)
    if op in ("keymatch2", "keymatch3", "keymatch5"):
        r = oracle_k(op, args[0], args[1])
        return None if r is None else enc_bool(r)
    if op == "keymatch":
        k, p = args
        i = p.find("*")
        return enc_bool(k == p if i < 0 else k.startswith(p[:i]))
    if op == "keyget":
        k, p = args
        i = p.find("*")
        return enc_str(k[i:] if i >= 0 and k.startswith(p[:i]) else "")
    return None


# ------------------------------------------------------------------ case generation (inside the workers)


def strings_upto(alpha, n):
    out = [""]
    for L in range(1, n + 1):
        out += ["".join(t) for t in itertools.product(alpha, repeat=L)]
    return out


def seg_paths(segs, maxseg, lead):
    out = []
    for n in range(1, maxseg + 1):
        for t in itertools.product(segs, repeat=n):
            out.append(lead + "/".join(t))
    return out


RND_ALPHA = list("ab/x*:{}?.") + list("+()[]\\-!^$|,1") + ["\n", "é", " ", "_", "A"]


def rnd_string(rng, maxlen, alpha, w=None):
    n = rng.randint(0, maxlen)
    return "".join(rng.choices(alpha, weights=w, k=n))


def rnd_path(rng, kind):
    """a longer documented-form-ish pattern and a key derived from it (mostly matching, sometimes perturbed)"""
    nseg = rng.randint(1, 8)
    pat = []
    key = []
    names = ["id", "x", "res", "id"]
    for i in range(nseg):
        r = rng.random()
        lit = rng.choice(["a", "ab", "foo", "b1", "x_y", "a-b"])
        if r < 0.45:
            pat.append(lit)
            key.append(lit if rng.random() < 0.9 else rng.choice(["a", "zz", ""]))
        elif r < 0.8:
            nm = rng.choice(names)
            if kind == "colon":
                pat.append(":" + nm)
            elif kind == "glob":
                pat.append(rng.choice(["*", "?", "a*", "*.txt", "[a-c]x", "[!a]", "a?c", "**"]))
            else:
                pat.append("{" + nm + "}" if rng.random() < 0.85 else "p_{" + nm + "}_s")
            key.append(rng.choice(["1", "22", "alice", "a.b", "", "1", "p_1_s", "x.txt", "bx"]))
        else:
            pat.append("*")
            key.append(rng.choice(["r", "r/s", "", "a"]))
    lead = rng.choice(["/", "/", ""])
    k = lead + "/".join(key)
    if rng.random() < 0.15:
        k += rng.choice(["?a=1", "/", "x", "\n"])
    return k, lead + "/".join(pat)


def ip_universe():
    bits = [0, 1, 7, 8, 16, 31]
    base = (10 << 24) | (1 << 20) | (3 << 9) | 4
    out = []
    for m in range(1 << len(bits)):
        x = base
        for j, b in enumerate(bits):
            if m >> j & 1:
                x ^= 1 << b
        out.append(".".join(str((x >> s) & 255) for s in (24, 16, 8, 0)))
    return out


IP_BAD = ["", "1.2.3", "1.2.3.4.5", "01.2.3.4", "1.2.3.256", "1.2.3.4 ", " 1.2.3.4", "1.2.3.a", "1..3.4", "0.0.0.0", "255.255.255.255", "1.2.3.4/", "1.2.3.4/33", "1.2.3.4/032", "1.2.3.4/8/8", "/8", "1.2.3.4/-1", "1.2.3.4/+8", "1.2.3.4/255.255.255.0", "1.2.3.4/0.0.0.255", "1.2.3.4/x", "::1", "::1/64", "1.2.3.4/٣", "1.2.3.0004", "1.2.3.4\n", "10.17.6.4/0", "10.17.6.4/32", "10.17.6.5", "1.2.3.4/255.255.0.0", "1.2.3.4/255.0.255.0", "1.2.3.4/0.0.0.0", "1.2.3.4/255.255.255.255", "1.2.3.4/128.0.0.0", "1.2.3.4/0.255.255.255", "1.2.3.4/255.255.255.254", "1.2.3.4/0.0.0.1", "1.2.3.4/1.0.0.0", "1.2.3.4/255.255.255", "1.2.3.4/::"]

IP6_BASE = 0x20010DB885A308D313198A2E03707348
IP6_FLIPS = [0, 6, 7, 15, 16, 31, 32, 47, 48, 62, 63, 64, 65, 95, 96, 111, 112, 126, 127]  # bit index from the top
IP6_PREFIXES = [0, 1, 7, 8, 16, 32, 48, 63, 64, 65, 96, 112, 127, 128]


def _groups(x):
    return [(x >> (112 - 16 * i)) & 0xFFFF for i in range(8)]


def _compressed(x):
    """RFC 5952 text (longest run of >= 2 zero groups becomes '::', lower-case, no leading zeros); written here
    without `ipaddress` so that the generator does not depend on the module under test"""
    g = _groups(x)
    best, blen, i = -1, 0, 0
    while i < 8:
        if g[i] == 0:
            j = i
            while j < 8 and g[j] == 0:
                j += 1
            if j - i > blen:
                best, blen = i, j - i
            i = j
        else:
            i += 1
    if blen < 2:
        return ":".join("%x" % v for v in g)
    return ":".join("%x" % v for v in g[:best]) + "::" + ":".join("%x" % v for v in g[best + blen :])


def _spell(x, k):
    """the k-th spelling of the 128-bit number x"""
    g = _groups(x)
    k %= 5
    if k == 0:
        return _compressed(x)
    if k == 1:
        return ":".join("%04x" % v for v in g)  # exploded
    if k == 2:
        return ":".join("%X" % v for v in g)  # upper case, no compression
    if k == 3:
        return ":".join("%04X" % v for v in g[:6]) + ":" + ".".join(str(b) for b in (g[6] >> 8, g[6] & 255, g[7] >> 8, g[7] & 255))  # dotted-quad suffix
    return _compressed(x).upper() + "%eth0"


IP6_SPECIAL = [
    "::", "0::", "::0", "0:0:0:0:0:0:0:0", "::1", "0:0:0:0:0:0:0:1", "1::", "1:0:0:0:0:0:0:0",
    "fe80::1", "fe80::1%eth0", "fe80::1%1", "FE80:0:0:0:0:0:0:1", "fe80:0000:0000:0000:0000:0000:0000:0001", "fe80::0:1",
    "2001:db8::", "2001:DB8::", "2001:0db8::", "2001:db8:0:0::0:0",
    "::ffff:10.17.6.4", "::FFFF:a11:604", "0:0:0:0:0:ffff:10.17.6.4", "::10.17.6.4", "64:ff9b::192.0.2.33",
    "1:2:3:4:5:6:7::", "::2:3:4:5:6:7:8", "1:2:3:4::6:7:8",
    "ffff:ffff:ffff:ffff:ffff:ffff:ffff:ffff", "FFFF:FFFF:FFFF:FFFF:FFFF:FFFF:255.255.255.255",
]


def ip6_universe():
    """IPv6 address texts: the base number and its single-bit neighbours around every tested prefix boundary, in
    rotating spellings (compressed / exploded / upper case / dotted-quad suffix / zone), plus special addresses, each
    in several spellings (so that a request and a plain-address pattern that are DIFFERENT texts of the SAME address
    are in the exhaustive part)"""
    out = [_spell(IP6_BASE, 0), _spell(IP6_BASE, 1), _spell(IP6_BASE, 3)]
    for i, b in enumerate(IP6_FLIPS):
        out.append(_spell(IP6_BASE ^ (1 << (127 - b)), i + 2))
    return out + IP6_SPECIAL


IP6_BAD = [
    "", ":", ":::", "::::", "1:::2", "1::2::3", "::1::", "1:2:3:4:5:6:7", "1:2:3:4:5:6:7:8:9", "1:2:3:4:5:6:7:8:9:a", "1::3:4:5:6:7:8:9", "::2:3:4:5:6:7:8:9",
    "1:2:3:4:5:6:7:8::", "::1:2:3:4:5:6:7:8", ":1:2:3:4:5:6:7", "1:2:3:4:5:6:7:", ":1::2", "1::2:", ":1:2:3:4:5:6:7:8", "1:2:3:4:5:6:7:8:",
    "12345::", "::12345", "00000::", "g::", "::g", "::-1", "::+1", "::0x1", ":: 1", " ::1", "::1 ", "::1\n", "１::", "::٣", "1：：",
    "::%", "::1%", "::1%%", "::1%a%b", "%eth0", "::1%a/b", "fe80::1%eth0/64", "::1/64",
    "::1.2.3", "::1.2.3.4.5", "::01.2.3.4", "::1.2.3.256", "1.2.3.4::", "::1.2.3.4:5", "1:2:3:4:5:6:7:1.2.3.4", "::.", "1.2.3.4%a",
    # odd but VALID:
    "1:2:3:4:5:6:7::", "1:2:3:4:5:6:1.2.3.4", "::1%a:b", "::1%a.b", "::1%é",
]
IP6_BAD_PFX = ["/", "/129", "/-1", "/ 64", "/64 ", "/+64", "/064", "/0000128", "/64/64", "//64", "/ffff::", "/ffff:ffff::", "/255.255.255.0", "/x", "/٣", "/1e1", "/6４", "/128", "/0", "/99999999999999999999"]



_RND6 = {}


def rnd_ip6_text(rng, good):
    """a random IPv6 text assembled from groups: full / compressed / dotted-quad suffix, optionally damaged"""
    pool = ["0", "1", "a", "A", "ff", "FF", "00a", "0db8", "DB8", "db8", "ffff", "FFFF", "0000", "8000", "7fff", "1f"]
    if not good:
        pool = pool + ["00000", "g", "12345", "", "٣", " 1", "-1", "0x1"]
    r = rng.random()
    if r < 0.25:
        n = 8 if good or rng.random() < 0.7 else rng.choice([2, 3, 7, 9, 10])
        s = ":".join(rng.choice(pool) for _ in range(n))
    elif r < 0.85:
        nh = rng.randint(0, 7)
        nl = rng.randint(0, 7 - nh) if good or rng.random() < 0.8 else rng.randint(0, 8)
        s = ":".join(rng.choice(pool) for _ in range(nh)) + "::" + ":".join(rng.choice(pool) for _ in range(nl))
    else:
        nh = rng.randint(0, 5)
        nl = rng.randint(0, 5 - nh)
        v4 = rng.choice(["1.2.3.4", "0.0.0.0", "255.255.255.255", "10.17.6.4"] + ([] if good else ["01.2.3.4", "1.2.3", "1.2.3.256", "1..2.3", "."]))
        s = ":".join(rng.choice(pool) for _ in range(nh)) + "::" + ":".join([rng.choice(pool) for _ in range(nl)] + [v4])
    if not good and rng.random() < 0.4:
        i = rng.randint(0, len(s))
        s = s[:i] + rng.choice([":", ".", "%", "/", " ", "g", "G", "0", "f", "\n", ""]) + s[i + (1 if rng.random() < 0.3 else 0) :]
    return s + rng.choice(["", "", "", "%eth0", "%1"] + ([] if good else ["%", "%%", "%a%b", "%a/b"]))


def rnd_ip6_pair(rng):
    if "uni" not in _RND6:
        _RND6["uni"] = ip6_universe()
        _RND6["v4"] = ip_universe()[:8]
    uni, v4 = _RND6["uni"], _RND6["v4"]
    r = rng.random()
    if r < 0.4:
        # a valid pattern and an address sharing a random number of leading bits with it
        b = rnd_ip6_text(rng, True)
        a = rng.choice(uni) if rng.random() < 0.3 else b.split("%")[0]
        if rng.random() < 0.7:
            gs = a.split(":")
            i = rng.randrange(len(gs))
            if gs[i] and all(c in "0123456789abcdefABCDEF" for c in gs[i]):
                gs[i] = rng.choice(["%x", "%X", "%04x"]) % (int(gs[i], 16) ^ (1 << rng.randint(0, 15)))
                a = ":".join(gs)
        b += rng.choice([""] + ["/%d" % n for n in IP6_PREFIXES] + ["/%d" % rng.randint(0, 130)])
    elif r < 0.7:
        a = rnd_ip6_text(rng, rng.random() < 0.5)
        b = rnd_ip6_text(rng, rng.random() < 0.5) + rng.choice(["", "", "/%d" % rng.randint(0, 130)] + IP6_BAD_PFX)
    elif r < 0.85:
        a = rng.choice(v4 + IP_BAD)
        b = rng.choice(uni + IP6_BAD) + rng.choice(["", "/0", "/32", "/64"] + IP6_BAD_PFX)
    else:
        a = rng.choice(uni + IP6_BAD)
        b = rng.choice(v4 + IP_BAD) + rng.choice(["", "/0", "/8", "/32", "/64", "/255.0.0.0"])
    return a, b


def gen_cases(task, rng):
    """yields (op, args, stream)"""
    kind = task["kind"]
    if kind == "pairs":
        # every (key, pattern) pair: patterns = the task's slice
        keys = strings_upto(task["kalpha"], task["klen"])
        for p in task["patterns"]:
            for op in task["ops"]:
                if op in ("keyget2", "keyget3"):
                    for k in keys:
                        for v in task["vars"]:
                            yield op, (k, p, v), task["stream"]
                else:
                    for k in keys:
                        yield op, (k, p), task["stream"]
    elif kind == "list":
        for op, args in task["cases"]:
            yield op, tuple(args), task["stream"]
    elif kind == "patterns":
        for p in task["patterns"]:
            for op in task["ops"]:
                yield op, (p,), task["stream"]
    elif kind == "range":
        for p in task["patterns"]:
            for t in task["tests"]:
                yield "range", (p, t), task["stream"]
    elif kind == "ip":
        uni = ip_universe()
        for a in task["addrs"]:
            for b in uni:
                for ln in range(0, 33):
                    yield "ip", (a, f"{b}/{ln}"), task["stream"]
                yield "ip", (a, b), task["stream"]
    elif kind == "ip6":
        uni = ip6_universe()
        for a in task["addrs"]:
            for b in uni:
                for ln in IP6_PREFIXES:
                    yield "ip", (a, f"{b}/{ln}"), task["stream"]
                yield "ip", (a, b), task["stream"]
    elif kind == "random":
        n = task["n"]
        ops2 = ["keymatch", "keyget", "keymatch2", "keymatch3", "keymatch4", "keymatch5", "glob"]
        w = [6, 6, 8, 4, 4, 3, 3, 3, 2, 2] + [1] * 13 + [1, 1, 1, 1, 1]
        for i in range(n):
            r = rng.random()
            if r < 0.35:
                op = rng.choice(ops2 + ["keyget2", "keyget3"])
                k = rnd_string(rng, 8, RND_ALPHA, w)
                p = rnd_string(rng, 8, RND_ALPHA, w)
                if op in ("keyget2", "keyget3"):
                    yield op, (k, p, rng.choice(["a", "x", "ab", "", "id"])), "rnd-any"
                else:
                    yield op, (k, p), "rnd-any"
            elif r < 0.8:
                fam = rng.choice(["colon", "brace", "brace", "glob"])
                k, p = rnd_path(rng, fam)
                if fam == "colon":
                    op = rng.choice(["keymatch", "keyget", "keymatch2", "keyget2"])
                elif fam == "glob":
                    op = "glob"
                else:
                    op = rng.choice(["keymatch3", "keymatch4", "keymatch5", "keyget3"])
                if op in ("keyget2", "keyget3"):
                    yield op, (k, p, rng.choice(["id", "x", "res", "nope"])), "rnd-path"
                else:
                    yield op, (k, p), "rnd-path"
            elif r < 0.9:
                p = rnd_string(rng, 7, list("abc[]!^-\\*?/"))
                k = rnd_string(rng, 4, list("abc-]!/\\^"))
                yield "glob", (k, p), "rnd-class"
            else:
                if rng.random() < 0.5:
                    a = rng.choice(IP_BAD + ip_universe()[:8])
                    b = rng.choice(IP_BAD + ip_universe()[:8])
                    if rng.random() < 0.5:
                        b = b.split("/")[0] + "/" + str(rng.randint(0, 34))
                    yield "ip", (a, b), "rnd-ip"
                else:
                    yield "ip", rnd_ip6_pair(rng), "rnd-ip6"


def result_class(s):
    if s.startswith("!"):
        return s.split(":")[0]
    if s in ("T", "F", "N", "-1"):
        return s
    return "M" if s.startswith("M:") else "val"


def glob_sig(p):
    return "glob_match:" + ("star" if "*" in p else "class" if "[" in p else "plain")


def work(task):
    """one shard: generate, run the implementation, pipe to the driver, compare. returns a summary dict"""
    rng = random.Random(task.get("seed", 0))
    out = {"evals": 0, "dist": {}, "nontrivial": 0, "nt_hashes": [], "viol": [], "dis": [], "mvs": [], "samples": [], "nviol": 0, "ndis": 0}
    dist = out["dist"]
    CH = 40000
    gen = gen_cases(task, rng)
    seen_rnd = set()
    while True:
        chunk = list(itertools.islice(gen, CH))
        if not chunk:
            break
        answers = run_driver("builtin", [lean_line(op, args) for op, args, _ in chunk])
        for (op, args, stream), ans in zip(chunk, answers):
            if ans == "bad-op":
                out["mvs"].append({"what": "driver answered bad-op", "op": op, "args": list(args)})
                continue
            model, spec = parse_ms(ans)
            got = impl_call(op, args)
            out["evals"] += 1
            key = f"{op}|{stream}|impl:{result_class(got)}|model:{'?' if model == '?' else 'y'}|spec:{'?' if spec == '?' else 'y'}"
            dist[key] = dist.get(key, 0) + 1
            nontriv = got not in ("F", "-", "N", "-1")
            if nontriv:
                if task["kind"] == "random":
                    h = hash((op, args))
                    if h not in seen_rnd:
                        seen_rnd.add(h)
                        out["nt_hashes"].append(h)
                else:
                    out["nontrivial"] += 1
            if out["evals"] % 50021 == 1:
                out["samples"].append({"op": op, "args": list(args), "impl": got, "model": model, "spec": spec})
            if model != "?" and got != model:
                out["ndis"] += 1
                if len(out["dis"]) < 8:
                    out["dis"].append({"what": f"{op}: implementation {got} vs Lean model {model}", "op": op, "args": list(args), "impl": got, "model": model, "spec": spec})
            bop = op[4:] if op.startswith("enf:") else op
            orc = oracle(bop, args)
            if spec != "?":
                if model != "?" and model != spec:
                    out["mvs"].append({"what": "Lean model vs Lean spec", "op": op, "args": list(args), "model": model, "spec": spec})
                if orc is not None and orc != spec:
                    out["mvs"].append({"what": "Lean spec vs Python oracle", "op": op, "args": list(args), "oracle": orc, "spec": spec})
                if got != spec:
                    out["nviol"] += 1
                    sig = glob_sig(args[1]) if op == "glob" else op
                    if bop.startswith("key") and bop not in ("keymatch", "keyget") and "\n" in args[0]:
                        sig = bop + ":line-feed-in-key"  # a line feed is a character like any other (F21-NLa/b)
                    if sum(1 for v in out["viol"] if v["signature"] == sig) < 3:
                        out["viol"].append(
                            {
                                "signature": sig,
                                "what": f"{op}{tuple(args)!r} returned {show(got)}, the documented pattern language gives {show(spec)}",
                                "op": op,
                                "args": list(args),
                                "expected": spec,
                                "observed": got,
                                "model": model,
                            }
                        )
            elif orc is not None and op in ("glob", "keymatch2", "keymatch3", "keymatch5", "keymatch4", "keyget2", "keyget3"):
                # the oracle speaks on a subset of the Lean spec's domain only
                if op != "glob":
                    out["mvs"].append({"what": "Python oracle speaks where the Lean spec does not", "op": op, "args": list(args), "oracle": orc})
    return out


def show(s):
    if s in ("T", "F"):
        return {"T": "True", "F": "False"}[s]
    if s.startswith("!") or s == "?":
        return s
    try:
        return repr(common.dec_str(s))
    except Exception:
        return s


# ------------------------------------------------------------------ task lists


def slices(lst, n):
    k = max(1, (len(lst) + n - 1) // n)
    return [lst[i : i + k] for i in range(0, len(lst), k)]


def corpus_cases():
    cases = [
        ("glob", ("bb", "*a")), ("glob", ("xatxt", "*.txt")), ("glob", ("abd", "a*c")), ("glob", ("/foo", "*/foo")),
        ("glob", ("x.txt", "*.txt")), ("glob", ("a/b", "*/b")), ("glob", ("ab", "*b")), ("glob", ("b", "*[a-c]")),
        ("keymatch3", ("a", "*")), ("keymatch4", ("aa/aa", "{x}/*{x}")), ("keymatch2", ("/a\n", "/a")),
        ("keymatch4", ("/parent/123/child/123", "/parent/{id}/child/{id}")),
        ("keymatch4", ("/parent/123/child/456", "/parent/{id}/child/{id}")),
        ("keyget3", ("project/proj_project1_admin/", "project/proj_{project}_admin/", "project")),
        ("keymatch5", ("/parent/child1?status=1", "/parent/*")),
        ("ip", ("192.168.2.123", "192.168.2.0/24")),
        ("ip", ("2001:db8::1", "2001:DB8:0:0:0:0:0:1")), ("ip", ("2001:db8:0:1::9", "2001:db8:0:1:ffff::5/64")),
        ("ip", ("fe80::1%eth0", "fe80::%eth1/10")), ("ip", ("::ffff:10.0.0.1", "10.0.0.0/8")), ("ip", ("10.0.0.1", "::/0")),
        ("ip", ("::1", "::1/129")), ("ip", (":::", "::/0")), ("ip", ("10.1.2.3", "10.1.0.0/0.0.255.255")),
    ]
    d = os.path.join(common.VERIF, "corpus", "C13")
    for f in sorted(_glob.glob(os.path.join(d, "*.json"))):
        try:
            o = json.load(open(f))
            cases.append((o["op"], tuple(o["args"])))
        except Exception:
            pass
    return cases


def tasks_for(level, rng):
    """level 0 = quick, 1 = deep/thorough"""
    T = []
    T.append({"kind": "list", "cases": corpus_cases(), "stream": "corpus"})
    n = 4
    kn = 4 if level == 0 else 5
    # keyMatch / keyGet / keyMatch2 / keyGet2 : {a,/,*,:,x}
    A2 = list("a/*:x")
    pats = strings_upto(A2, n)
    for sl in slices(pats, 24):
        T.append({"kind": "pairs", "patterns": sl, "kalpha": A2, "klen": kn, "ops": ["keymatch", "keyget", "keymatch2"], "stream": "exh-colon"})
    for sl in slices(pats, 24):
        T.append({"kind": "pairs", "patterns": sl, "kalpha": list("a/:x"), "klen": kn, "ops": ["keyget2"], "vars": ["a", "x"], "stream": "exh-colon"})
    # keyMatch3/4/5, keyGet3 : {a,/,*,{,},x}
    A3 = list("a/*{}x")
    pats3 = strings_upto(A3, n)
    for sl in slices(pats3, 32):
        T.append({"kind": "pairs", "patterns": sl, "kalpha": list("a/x}"), "klen": kn, "ops": ["keymatch3", "keymatch4", "keymatch5"], "stream": "exh-brace"})
    for sl in slices(pats3, 24):
        T.append({"kind": "pairs", "patterns": sl, "kalpha": list("a/x"), "klen": kn, "ops": ["keyget3"], "vars": ["a", "x"], "stream": "exh-brace"})
    # patterns of length 5-6 with real variables (the shortest repeated-name pattern is {a}/{a})
    p5 = [p for p in strings_upto(A3, 7 if level else 6) if len(p) >= 5 and p.count("{") >= 1 and p.count("}") >= 1 and "*" not in p[:1]]
    p5 = [p for p in p5 if len(p) - p.count("{") - p.count("}") <= (4 if level else 3)]
    for sl in slices(p5, 32):
        T.append({"kind": "pairs", "patterns": sl, "kalpha": list("a/x"), "klen": 4, "ops": ["keymatch3", "keymatch4", "keymatch5"], "stream": "exh-brace-long"})
    # keyMatch5 query strings, line feeds in keys
    for sl in slices(strings_upto(list("a/*{}"), 4), 8):
        T.append({"kind": "pairs", "patterns": sl, "kalpha": list("a/?\n"), "klen": 4, "ops": ["keymatch5", "keymatch2", "keymatch3"], "stream": "exh-query-nl"})
    # line feeds are ordinary key characters for every function of the regex family
    knl = list("a/\n")
    for sl in slices(pats, 12):
        T.append({"kind": "pairs", "patterns": sl, "kalpha": knl, "klen": 4, "ops": ["keymatch2"], "stream": "exh-nl"})
        T.append({"kind": "pairs", "patterns": sl, "kalpha": knl, "klen": 4, "ops": ["keyget2"], "vars": ["a", "x"], "stream": "exh-nl"})
    for sl in slices(pats3, 24):
        T.append({"kind": "pairs", "patterns": sl, "kalpha": knl, "klen": 4, "ops": ["keymatch3", "keymatch4", "keymatch5"], "stream": "exh-nl"})
        T.append({"kind": "pairs", "patterns": sl, "kalpha": knl, "klen": 4, "ops": ["keyget3"], "vars": ["a", "x"], "stream": "exh-nl"})
    # letter case is significant for every function (no flag but (?s) may reach the regex)
    cpat = strings_upto(list("aA/*"), 3)
    ckey = strings_upto(list("aA/"), 3)
    T.append({"kind": "list", "cases": [(op, (k, p)) for op in ("keymatch", "keyget", "keymatch2", "keymatch3", "keymatch4", "keymatch5", "glob") for p in cpat for k in ckey] + [(op, (k, pp, "A")) for op, pp in (("keyget2", "/:A"), ("keyget2", "/a/:A"), ("keyget3", "/{A}"), ("keyget3", "/A/{A}")) for k in ckey], "stream": "exh-case"})
    # glob : {a,b,/,*,?}
    AG = list("ab/*?")
    for sl in slices(strings_upto(AG, n), 32):
        T.append({"kind": "pairs", "patterns": sl, "kalpha": list("ab/"), "klen": kn + (0 if level == 0 else 0), "ops": ["glob"], "stream": "exh-glob"})
    # glob escapes : {a,\,*,?,/}
    for sl in slices(strings_upto(list("a\\*?/"), n), 8):
        T.append({"kind": "pairs", "patterns": sl, "kalpha": list("a\\/"), "klen": 3, "ops": ["glob"], "stream": "exh-glob-escape"})
    # glob classes : patterns over {a,b,c,[,],!,-} (+ ^ and \ in the deep tier), keys: short
    AC = list("abc[]!-") + (list("^\\") if level else [])
    cp = [p for p in strings_upto(AC, 5) if "[" in p]
    ckeys = ["", "a", "b", "c", "-", "!", "]", "[", "/", "aa", "ab", "ca", "a/", "b]", "a-", "\\", "^"]
    cases = None
    for sl in slices(cp, 32):
        T.append({"kind": "list", "cases": [("glob", (k, p)) for p in sl for k in ckeys], "stream": "exh-class"})
    rp = strings_upto(list("abc]!-\\^"), 4 if level == 0 else 5)
    for sl in slices(rp, 8):
        T.append({"kind": "range", "patterns": sl, "tests": list("abc-]!/"), "stream": "exh-range"})
    # segment paths (longer documented-form patterns)
    sp2 = seg_paths(["a", "ab", ":x", ":y", "*"], 3, "/")
    sk = seg_paths(["a", "ab", "b", ""], 4, "/")
    for sl in slices(sp2, 8):
        T.append({"kind": "list", "cases": [(op, (k, p)) for p in sl for k in sk for op in ("keymatch2", "keymatch")] + [("keyget2", (k, p, v)) for p in sl for k in sk for v in ("x", "y")], "stream": "seg-colon"})
    sp3 = seg_paths(["a", "ab", "{x}", "{y}", "*", "p{x}"], 3, "/")
    for sl in slices(sp3, 12):
        T.append({"kind": "list", "cases": [(op, (k, p)) for p in sl for k in sk for op in ("keymatch3", "keymatch4", "keymatch5")] + [("keyget3", (k, p, v)) for p in sl for k in sk for v in ("x", "y")], "stream": "seg-brace"})
    # through a real Enforcer (matcher `<fn>(r.obj, p.obj)`): the functions as the enforcer sees them
    ek = seg_paths(["a", "ab", ""], 3, "/")
    ecases = [("enf:" + op, (k, p)) for op, pats in (("keymatch", ["/a/*", "/a", "/*", "*", "/ab*"]), ("keymatch2", seg_paths(["a", ":x", "*"], 3, "/")), ("keymatch3", seg_paths(["a", "{x}", "*"], 3, "/")), ("keymatch4", seg_paths(["a", "{x}", "{y}"], 3, "/")), ("keymatch5", seg_paths(["a", "{x}", "*"], 2, "/")), ("glob", seg_paths(["a", "*", "?b", "[ab]"], 2, "/") + ["*a", "*/a", "/a*b"])) for p in pats for k in ek + ([kk + "?q=1" for kk in ek[:8]] if op == "keymatch5" else [])]
    uni8 = ip_universe()[:8]
    ecases += [("enf:ip", (a, f"{b}/{ln}")) for a in uni8 for b in uni8 for ln in (0, 8, 23, 24, 31, 32)]
    e6 = ip6_universe()
    e6 = e6[:6] + e6[-20:-8]
    ecases += [("enf:ip", (a, b + sfx)) for a in e6 for b in e6 for sfx in ("", "/0", "/48", "/64", "/127", "/128")]
    for sl in slices(ecases, 8):
        T.append({"kind": "list", "cases": sl, "stream": "enforcer"})
    # rewrites / names on every small pattern; the regex model on emitted fragments
    T.append({"kind": "patterns", "patterns": pats, "ops": ["rewrite2", "rewriteg2", "names2"], "stream": "rewrite"})
    T.append({"kind": "patterns", "patterns": pats3, "ops": ["rewrite3", "rewriteg3", "rewrite4", "rewrite5", "names3", "names4"], "stream": "rewrite"})
    rtoks = ["a", "/", ".", ".*", "[^/]+", "[^\\/]+", "([^/]+)", "([^/]+?)", "(.*)", "*", "+", "{", "}", "x", "+?"]
    rkeys = strings_upto(list("a/x\n"), 4)
    res = ["(?s)^" + "".join(t) + "\\Z" for nn in range(0, 4) for t in itertools.product(rtoks, repeat=nn)]
    for sl in slices(res, 16):
        T.append({"kind": "list", "cases": [("remodel", (r, k)) for r in sl for k in rkeys[:: (3 if level == 0 else 1)]], "stream": "remodel"})
    # ip
    uni = ip_universe()
    for sl in slices(uni, 16):
        T.append({"kind": "ip", "addrs": sl, "stream": "exh-ip"})
    T.append({"kind": "list", "cases": [("ip", (a, b)) for a in IP_BAD for b in IP_BAD], "stream": "ip-malformed"})
    # ip, IPv6: every universe address x every universe address as a plain pattern and with 14 prefix lengths
    uni6 = ip6_universe()
    for sl in slices(uni6, 16):
        T.append({"kind": "ip6", "addrs": sl, "stream": "exh-ip6"})
    # mixed families (never a member, never an exception), both directions
    mixed = [("ip", (a, b + sfx)) for a in uni8 for b in uni6 for sfx in ("", "/0", "/32", "/96")]
    mixed += [("ip", (a, b + sfx)) for a in uni6 for b in uni8 for sfx in ("", "/0", "/8", "/32", "/255.0.0.0")]
    for sl in slices(mixed, 4):
        T.append({"kind": "list", "cases": sl, "stream": "ip-mixed"})
    # malformed IPv6 texts on either side, malformed prefixes after good and bad addresses
    good6 = ["::", "::1", "fe80::1%eth0", "2001:db8::", "2001:DB8:0:0:0:0:0:0", "::ffff:10.17.6.4", "10.17.6.4"]
    bad6 = [("ip", (a, b)) for a in IP6_BAD + good6 for b in IP6_BAD + good6 + [g + sfx for g in good6 + IP6_BAD[:12] for sfx in IP6_BAD_PFX]]
    for sl in slices(bad6, 4):
        T.append({"kind": "list", "cases": sl, "stream": "ip6-malformed"})
    # seeded random
    nrand = 240000 if level == 0 else 2000000
    for i in range(NPROC * 2):
        T.append({"kind": "random", "n": nrand // (NPROC * 2), "seed": rng.getrandbits(48), "stream": "rnd"})
    return T


def run_level(ctx, res, level):
    tasks = tasks_for(level, ctx["rng"])
    with multiprocessing.Pool(NPROC) as pool:
        outs = pool.map(work, tasks, chunksize=1)
    nt = 0
    hashes = set()
    for o in outs:
        res.evaluations += o["evals"]
        for k, v in o["dist"].items():
            res.count(k, v)
        nt += o["nontrivial"]
        hashes.update(o["nt_hashes"])
        for v in o["viol"]:
            res.violation(v)
        res.n_spec += o["nviol"] - len(o["viol"])
        for d in o["dis"]:
            res.disagree(d)
        res.n_corr += o["ndis"] - len(o["dis"])
        res.model_vs_spec += o["mvs"]
        for s in o["samples"][:1]:
            res.sample(s)
    res.nontrivial = set(range(nt)) | {("r", h) for h in hashes}
    res.exhaustive = True
    res.rule = (
        "exhaustive: every (key, pattern) pair with pattern length <= 4 and key length <= %d over {a,/,*,:,x} (keyMatch, keyGet, keyMatch2, keyGet2) and "
        "{a,/,*,{,},x} (keyMatch3/4/5, keyGet3), brace patterns of length 5-%d with variables, query strings, line feeds in keys (every function of the regex family over {a,/,line feed}), glob over {a,b,/,*,?}, glob escapes over {a,backslash,*,?,/}, "
        "glob classes over {a,b,c,[,],!,-} (patterns <= 5), range_match directly, rewrites/names of every small pattern, the regex model on every "
        "sequence of <= 3 emitted fragments, ipMatch over 64 IPv4 addresses x 64 networks x 34 prefix forms plus malformed addresses and dotted netmasks/hostmasks, "
        "over %d IPv6 address texts (single-bit neighbours around every tested prefix boundary and special addresses, each in several spellings: compressed, exploded, "
        "upper case, dotted-quad suffix, zone) x the same texts as patterns x 15 prefix forms, mixed-family pairs in both directions, malformed IPv6 texts / zones / prefixes on either side; generated segment "
        "paths (<= 3 pattern segments x <= 4 key segments); %d seeded random cases (regex-special, non-ASCII, line feeds, 8-segment paths). "
        "each function also through a real Enforcer whose matcher calls it (a few thousand documented-form cases). "
        "non-trivial = the implementation answered a match / non-empty text / an exception; distinct by construction (enumeration) or by (function, arguments) hash (random)"
        % (4 if level == 0 else 5, 6 if level == 0 else 7, len(ip6_universe()), 240000 if level == 0 else 2000000)
    )


ISO_NEG = [("keyMatch", "/bar", "/foo*"), ("keyMatch2", "/bob/r1", "/alice/:id"), ("keyMatch3", "/bob/r1", "/alice/{id}"), ("keyMatch4", "/a/1/b/2", "/a/{id}/b/{id}"),
           ("keyMatch5", "/bob?x=1", "/alice"), ("regexMatch", "abc", "^x"), ("ipMatch", "10.0.0.1", "192.168.0.0/16"), ("globMatch", "/bar", "/foo*")]


def _isolation_case(name_key_pat):
    """in a fresh process: several enforcers whose matcher calls a built-in; ONE of them re-registers that name with a
    function of its own (legitimate: add_function); the others - built before, built afterwards, and one whose model is
    set again - must still answer with the documented pattern language"""
    name, key, pat = name_key_pat
    casbin = common.use_repo()
    text = ENF_TEXT % name

    def mk():
        e = casbin.Enforcer(casbin.Enforcer.new_model(text=text))
        e.add_policy(pat)
        return e

    first, a, b = mk(), mk(), mk()
    out = {"before": [bool(x.enforce(key)) for x in (first, a, b)]}
    a.add_function(name, lambda *args: True)
    c = mk()
    b.set_model(casbin.Enforcer.new_model(text=text))
    b.add_policy(pat)
    d = mk()
    out["own"] = bool(a.enforce(key))
    out["others"] = {"built first": bool(first.enforce(key)), "built before, model set again": bool(b.enforce(key)), "built afterwards": bool(c.enforce(key)), "built last": bool(d.enforce(key))}
    return out


def isolation_stream(ctx, res):
    with multiprocessing.Pool(1, maxtasksperchild=1) as pool:
        outs = pool.map(_isolation_case, ISO_NEG, chunksize=1)
    for (name, key, pat), out in zip(ISO_NEG, outs):
        res.evaluations += 1
        res.count("stream:isolation")
        bad = [k for k, v in out["others"].items() if v] + (["before any registration"] if any(out["before"]) else [])
        if bad:
            res.violation({"signature": f"C13:isolation:{name}", "stream": "isolation", "case": [name, key, pat], "op": "isolation", "args": [name, key, pat], "expected": False, "observed": True,
                           "what": f"{name}({key!r}, {pat!r}) is no match in the documented pattern language, but after ANOTHER enforcer of the process re-registered {name} the enforcer(s) [{', '.join(bad)}] allow it"})


def run(ctx):
    res = common.Result()
    levels = [0] if not ctx["deep"] else ([1] if ctx["proof_ok"] else [0, 1])
    for lv in levels:
        run_level(ctx, res, lv)
        isolation_stream(ctx, res)
        if res.spec_violations:
            break
    return res


def replay(obj):
    if obj.get("stream") == "isolation":
        with multiprocessing.Pool(1, maxtasksperchild=1) as pool:
            out = pool.map(_isolation_case, [tuple(obj["case"])])[0]
        return any(out["others"].values()) or any(out["before"])
    got = impl_call(obj["op"], tuple(obj["args"]))
    return got != obj["expected"]
