"""C12 — filtered loading loads exactly the filtered subset, never overwrites the store.

Streams (real code vs Lean model `Model/Persist.lean` vs executable specification, `driver persist`):
  fl     filter_line on a pool of lines x every filter over {'', ' ', v1, v2}^<=3 (P) x {…}^<=3 (G)   (exhaustive)
  ef     the empty-filter detection on the same filters
  hist   real policy files in a temp dir x filters x sequences (<= 4) of load_filtered_policy /
         load_increment_filtered_policy / load_policy / save_policy / adapter.save_policy on an Enforcer with a
         FilteredFileAdapter: after every step the loaded policy of every type, is_filtered(), the role links
         (get_roles of every name), the result / exception and the file's text are compared; after every
         successful load enforce() on 27 requests is compared with a fresh enforcer holding exactly the specified subset
  out    the same with hard files / filters (bracketed commas and a leading comma before filtered positions, filters
         longer than the rule, padded filter values — what finding F20 was about, ordinary inputs since its repair);
  raise  files with raising lines / short grouping rules"""
import itertools
import os

import common
import persist_corr as pc
from common import enc_str, dec_str, run_driver
from persist_corr import Part, enc_rule, enc_store, dec_store, dec_rules, enc_filter

TRANSLATORS = []
LEVEL = "proof"
ASSUMPTIONS = [
    "the file system and UTF-8 decoding are trusted: the policy file is its decoded text; files are real temp files outside the repository",
    "models without priority columns (sort_policies_by_priority is the identity) and with the default auto_build_role_links = True",
    "filtered_exact is proved for every file, filter and memory (F20 repaired: filter_line tokenizes like load_policy_line and a filter longer than the rule skips it only for a non-blank extra value); every generated file, including bracketed commas, leading commas and long filters, is judged against the property",
    "after a failed FULL load memory is what it was, so the property keeps deciding the following saves (F26a fixed, F26b open); a failed load_filtered_policy leaves memory as it was too (F26c fixed); what a failed INCREMENTAL filtered load has appended is not judged, only compared with the model",
    "filter values are compared modulo surrounding blanks, as the blankness test itself is",
]
TRUSTED_EXTRA = ["CPython str.strip/split: modelled in lean/CasbinV/Py/Str.lean, validated against CPython by the C10 check"]

HEAD = "[request_definition]\nr = sub, obj, act\n[policy_definition]\n"
EFF = "[policy_effect]\ne = some(where (p.eft == allow))\n[matchers]\n"
MODELS = {
    "rbac2": HEAD + "p = sub, obj, act\np2 = sub, act\n[role_definition]\ng = _, _\ng2 = _, _\n" + EFF + "m = g(r.sub, p.sub) && r.obj == p.obj && r.act == p.act\n",
    "dom": "[request_definition]\nr = sub, dom, obj\n[policy_definition]\np = sub, dom, obj\n[role_definition]\ng = _, _, _\n" + EFF + "m = g(r.sub, p.sub, r.dom) && r.dom == p.dom && r.obj == p.obj\n",
    # a conditional role definition (the bundled temporal-roles shape): the third field of a g rule is the stored parameter
    "cond": HEAD + "p = sub, obj, act\n[role_definition]\ng = _, _, (_)\n" + EFF + "m = g(r.sub, p.sub) && r.obj == p.obj && r.act == p.act\n",
    "nog": HEAD + "p = sub, obj, act\np2 = sub, act\n" + EFF + "m = r.sub == p.sub && r.obj == p.obj && r.act == p.act\n",
}
NAMES = ["v1", "v2", "v3"]
FVALS = ["", " ", "v1", "v2"]


class Filter:
    pass


def mk_filter(f):
    if f is None:
        return None
    o = Filter()
    o.P = list(f[0])
    o.G = list(f[1])
    return o


def all_filter_sides(maxlen=3, vals=FVALS):
    out = []
    for n in range(maxlen + 1):
        out += [list(t) for t in itertools.product(vals, repeat=n)]
    return out


def fmt_exc(ex):
    s = str(ex)
    if isinstance(ex, IndexError):
        return "!indexError"
    if isinstance(ex, RuntimeError) and s == "cannot save a filtered policy":
        return "!cannotSaveFiltered"
    if isinstance(ex, RuntimeError) and s == "invalid filter type":
        return "!invalidFilter"
    if isinstance(ex, (RuntimeError, TypeError)) and s == "grouping policy elements do not meet role definition":
        return "!roleDefinition"
    if isinstance(ex, RuntimeError) and s == "invalid file path, file path cannot be empty":
        return "!invalidPath"
    return f"!other:{type(ex).__name__}:{s[:60]}"


# ---------------------------------------------------------------- stream: filter_line / is_empty_filter

FL_LINES = [
    "p, v1, v2, v1", "p, v2, v1, v1", "p,v1,v2,v1", " p , v1 , v2 , v1 ", "p, v1", "p", "p, v1, v2", "g, v1, v2", "g, v2, v1", "g,v1,v2", "g, v1",
    "g", "g, v1, v2, v1", "p2, v1, v2", "g2, v1, v2", "# p, v1, v2", "x, v1", "p, V1, v2, v1", "p, v1 , v2", "p,  v1,v2 ,v1", "p, , v2, v1", "p, v1, , v1",
    "g, , v2", "p, f(v1, v2), v1, v2", "p, v1, [v2, v1], v1", ", p, v1, v2, v1", "p, v1, v2, v1,", "p,,,", "g,,", "pp, v1, v2", "p , v2, v2, v2",
    "p, v1\xa0, v2, v1", "p, v1, v2, v1, v2, v1", "g, v1, v2, v3, v1", "p, (v1, v2, v1", "g, v1), v2",
    "", "# v1)", "#(", ",p,v1,v2", "p, [v1, v2], v1, v2", "g, (v1, v2), v2", "(p, v1", "p, v1, v2)",
]


def run_fl(part, casbin):
    from casbin.persist.adapters.filtered_file_adapter import filter_line

    sides = all_filter_sides()
    dl, cases = [], []
    for line in FL_LINES:
        for P in sides:
            for G in sides:
                cases.append((line, P, G))
                dl.append(f"filterline\t{enc_str(line)}\t{enc_filter((P, G))}")
    ans = run_driver("persist", dl)
    for (line, P, G), a in zip(cases, ans):
        model, spec, dom = pc.parse_msd(a)
        try:
            impl = common.enc_bool(bool(filter_line(line, [P, G])))
        except Exception as ex:  # noqa
            impl = fmt_exc(ex)
        part.evaluations += 1
        part.count("fl:" + impl)
        if impl == "T" and dom:
            part.nontrivial.add(hash((line, tuple(P), tuple(G))))
        if impl != model:
            part.disagree({"what": "filter_line vs Model.filterLine", "line": line, "P": P, "G": G, "impl": impl, "model": model})
        if spec != "?":
            if dom and model != spec:
                part.mvs({"line": line, "P": P, "G": G, "model": model, "spec": spec})
            # an all-blank filter never reaches filter_line (load_filtered_policy falls back to the full load)
            if impl != spec and any(x.strip() for x in P + G):
                part.violation(
                    {
                        "signature": "filter_line:predicate",
                        "what": f"filter_line({line!r}, [{P!r}, {G!r}]) = {impl}: the line is {'skipped' if impl == 'T' else 'kept'}, but its leading fields "
                        + ("do" if spec == "F" else "do not") + " equal every non-blank filter value",
                        "kind_of_case": "filter_line",
                        "line": line,
                        "P": P,
                        "G": G,
                        "expected": spec,
                        "observed": impl,
                    }
                )


# ---------------------------------------------------------------- stream: histories


def gen_file(rng, mname, mode):
    """policy text. mode: 'in' = plain files, 'out' = hard files (what F20 was about), 'raise' = with raising lines / short g rules"""
    dom = mname in ("dom", "cond")  # three fields after "g" (user, role, domain / stored parameter), no p2 / g2
    ls = []
    n = rng.choice([0, 1, 2, 3, 4, 6, 8])
    for _ in range(n):
        r = rng.random()
        v = lambda: rng.choice(NAMES)  # noqa
        if r < 0.45:
            l = ["p", v(), v(), v()]
        elif r < 0.7:
            l = ["g", v(), v()] + ([v()] if dom else [])
        elif r < 0.8 and not dom:
            l = ["p2", v(), v()]
        elif r < 0.88 and not dom and mname != "nog":
            l = ["g2", v(), v()]
        elif r < 0.92:
            ls.append(rng.choice(["# comment, v1", "", "  ", "x, v1, v2", "pp, v1", "#p, v1, v1, v1", "# v1) not a rule"]))
            continue
        else:
            l = ["p", v(), v(), v(), v()]  # longer than the definition
        if mode == "out" and rng.random() < 0.4:
            k = rng.randrange(1, len(l))
            c = rng.random()
            if c < 0.35:
                l[k] = rng.choice(["f(v1, v2)", "[v1,v2]", "(v1, (v2, v3))", "{v1, v2}", "{v1}", "f({v1, v2})", '"v1, v2"', "'v1, v1'", '"v2"', 'v1", "v2'])  # braces and quotes are ordinary characters
            elif c < 0.6:
                l = l[: rng.randrange(1, len(l))]  # shorter than the filter may be
            elif c < 0.75:
                l = [""] + l  # leading comma: dropped by the loader, seen by the filter
            else:
                l[k] = rng.choice(["", "V1", "v1 v2"])
        if mode == "raise" and rng.random() < 0.3:
            c = rng.random()
            if c < 0.5:
                l[rng.randrange(1, len(l))] = rng.choice(["v1)", ")", "a]"])
            elif l[0] == "g":
                l = l[:2]
            else:
                l = ["(p"] + l[1:]
        sep = rng.choice([", ", ", ", ", ", ",", " , "])
        ls.append(sep.join(l))
    t = rng.choice(["\n", "\n", "\n", "\r\n"]).join(ls)
    if rng.random() < 0.3:
        t += "\n"
    return t


def gen_filter(rng, mname, mode):
    r = rng.random()
    if r < 0.06:
        return None
    glen = 3 if mname in ("dom", "cond") else 2
    vals = FVALS + (["v3"] if rng.random() < 0.3 else [])
    if mode == "in":
        P = [rng.choice(vals) for _ in range(rng.randrange(0, 4))]
        G = [rng.choice(vals) for _ in range(rng.randrange(0, glen + 1))]
    else:
        P = [rng.choice(vals + [" v1 ", "\tv2"]) for _ in range(rng.randrange(0, 6))]
        G = [rng.choice(vals + [" v1 "]) for _ in range(rng.randrange(0, glen + 3))]
    if rng.random() < 0.1:
        P = [rng.choice(["", " "]) for _ in P]
        G = [rng.choice(["", " "]) for _ in G]
    return (P, G)


def gen_ops(rng, mname, mode):
    n = rng.choice([1, 2, 3, 3, 4, 4])
    ops = []
    for _ in range(n):
        r = rng.random()
        if r < 0.35:
            ops.append(["loadf", gen_filter(rng, mname, mode)])
        elif r < 0.55:
            ops.append(["loadinc", gen_filter(rng, mname, mode)])
        elif r < 0.7:
            ops.append(["load"])
        elif r < 0.92:
            ops.append(["save"])
        else:
            ops.append(["asave"])
    if rng.random() < 0.25:
        # the policy file is missing for a while (store temporarily unreachable), then back
        i = rng.randrange(len(ops) + 1)
        j = rng.randrange(i, len(ops) + 1)
        ops = ops[:i] + [["gone"]] + ops[i:j] + [["back"]] + ops[j:]
    return ops


def edges_of(e, mname):
    """the direct links the role managers hold, canonical: sorted list of (ptype, user, role[, domain])"""
    out = set()
    for key, rm in e.rm_map.items():
        for a in NAMES + ["f(v1", "V1", ""]:
            if mname == "dom":
                for d in NAMES + ["V1", ""]:
                    for r in rm.get_roles(a, d):
                        out.add((key, a, r, d))
            else:
                for r in rm.get_roles(a):
                    out.add((key, a, r))
    for key, crm in getattr(e, "cond_rm_map", {}).items():
        # a conditional definition keeps its links in its conditional manager (mname "cond": no domains)
        for a in NAMES + ["f(v1", "V1", ""]:
            for r in crm.get_roles(a):
                out.add((key, a, r))
    return sorted(out)


def proj_edges(mname, edges):
    """the links of a conditional definition are compared as (key, user, role): the third field of the rule is the
    link's stored parameter (the last rule of a (user, role) pair decides it), not part of the link"""
    if mname != "cond":
        return edges
    return sorted({tuple(e[:3]) for e in edges})


def edges_of_store(st, known_names=None):
    out = set()
    for k, ar, rs in st:
        if k[0] == "g":
            for r in rs:
                if len(r) >= ar:
                    out.add(tuple([k] + list(r[:ar])))
    return sorted(out)


def restrict_edges(edges):
    """edges_of can only see links whose user (and domain) is in the probed universe"""
    users = set(NAMES + ["f(v1", "V1", ""])
    doms = set(NAMES + ["V1", ""])
    return sorted(e for e in edges if e[1] in users and (len(e) < 4 or e[3] in doms))


REQS = [(a, b, c) for a in NAMES for b in NAMES for c in NAMES]
_ORACLE = {}


def decisions(e):
    out = []
    for r in REQS:
        try:
            out.append("T" if e.enforce(*r) else "F")
        except Exception as ex:  # noqa
            out.append("!" + type(ex).__name__)
    return "".join(out)


def oracle_decisions(casbin, mname, store):
    """fresh-enforcer oracle: an Enforcer without adapter holding exactly `store` (policy lists assigned, links rebuilt)"""
    key = (mname, enc_store(store))
    if key not in _ORACLE:
        if len(_ORACLE) > 4000:
            _ORACLE.clear()
        e = casbin.Enforcer(casbin.Enforcer.new_model(text=MODELS[mname]))
        for k, _, rs in store:
            e.model.model[k[0]][k].policy = [list(r) for r in rs]
        try:
            e.build_role_links()
            for crm in e.cond_rm_map.values():  # the reference holds the links of a conditional definition as well
                crm.clear()
            e.model.build_conditional_role_links(e.cond_rm_map)
            _ORACLE[key] = decisions(e)
        except Exception:  # noqa: a subset whose links cannot be built has no reference decisions
            _ORACLE[key] = None
    return _ORACLE[key]


def impl_history(casbin, mname, text, ops, tmp):
    """returns list of per-step observations: (result, store, filtered, file text, edges, decisions)"""
    from casbin.persist.adapters import FilteredFileAdapter

    path = tmp.path()
    away = path + ".away"
    pc.write_bytes(path, text)
    m = casbin.Enforcer.new_model(text=MODELS[mname])
    a = FilteredFileAdapter(path)
    e = casbin.Enforcer(m, a)
    obs = []
    for op in ops:
        try:
            if op[0] == "loadf":
                e.load_filtered_policy(mk_filter(op[1]))
            elif op[0] == "loadinc":
                e.load_increment_filtered_policy(mk_filter(op[1]))
            elif op[0] == "load":
                e.load_policy()
            elif op[0] == "save":
                e.save_policy()
            elif op[0] == "asave":
                e.get_adapter().save_policy(e.get_model())
            elif op[0] == "gone":
                if os.path.exists(path):
                    os.replace(path, away)
            elif op[0] == "back":
                if os.path.exists(away):
                    if os.path.exists(path):
                        os.unlink(away)  # a permitted save re-created the file meanwhile
                    else:
                        os.replace(away, path)
            res = "ok"
        except Exception as ex:  # noqa
            res = fmt_exc(ex)
        ftext = pc.read_text(path if os.path.exists(path) else away)
        obs.append((res, pc.dump_model(e.model), bool(e.is_filtered()), ftext, edges_of(e, mname), decisions(e) if res == "ok" and op[0] in ("load", "loadf", "loadinc") else None))
    for f in (path, away):
        if os.path.exists(f):
            os.unlink(f)
    return obs


def hist_lines(store0, text, ops):
    dl = ["#reset", f"init\t{store0}\t{enc_str(text)}"]
    for op in ops:
        if op[0] in ("loadf", "loadinc"):
            dl.append(f"{op[0]}\t{enc_filter(op[1])}")
        else:
            dl.append(op[0])
        dl.append("obs")
    return dl


def parse_obs(a):
    parts = dict(x.split("=", 1) for x in a.split(" "))
    return parts


def eval_history(casbin, part, mode, mname, text, ops, ans, tmp):
    """run one history on the real code and judge it against the driver's answers `ans` (the lines of hist_lines for
    this history). Records into `part`; returns the violations found (dicts)."""
    found = []
    try:
        obs = impl_history(casbin, mname, text, ops, tmp)
    except Exception as ex:  # noqa
        part.disagree({"what": "harness could not run the history on the real code", "error": repr(ex), "model_name": mname, "file": text, "ops": ops})
        return found
    case0 = {"kind_of_case": "history", "model_name": mname, "model_text": MODELS[mname], "file": text}
    part.count(f"hist:{mode}:len{len(ops)}")
    pos = 2
    for i, op in enumerate(ops):
        a_op, a_obs = ans[pos], ans[pos + 1]
        pos += 2
        case = dict(case0, ops=ops[: i + 1])  # the history up to the judged step
        if op[0] in ("gone", "back"):
            if a_op != "ok":
                raise common.Infra(f"driver answered {a_op!r} for {op}")
            continue
        model, spec, dom = pc.parse_msd(a_op)
        mo = parse_obs(a_obs)
        res, store, filtered, ftext, edges, decs = obs[i]
        part.evaluations += 1
        part.count(f"op:{op[0]}:{res if not res.startswith('!other') else '!other'}" + ("" if dom else ":outside"))
        stop = False
        # ---- the tie: result, memory, flag, file, links
        impl_state = (res, enc_store(store), common.enc_bool(filtered), enc_str(ftext))
        model_state = (model.split(",")[0], mo["mem"], mo["filtered"], mo["file"])
        medges = restrict_edges(proj_edges(mname, sorted({tuple(dec_str(x) for x in r.split("|")) for r in ([] if mo["links"] == "~" else mo["links"].split(";"))})))
        if impl_state != model_state or [tuple(x) for x in edges] != medges:
            part.disagree(dict(case, what=f"step {i} ({op[0]}): Enforcer+FilteredFileAdapter vs Model.step", step=i, impl=impl_state + (edges,), model=model_state + (medges,)))
            # the states before this step agreed, so the specification of this step still applies to the
            # implementation: judge it, then stop following this history - unless only the adapter's flag differs: the
            # specification of the following saves (ghost state + file) does not depend on it, and those saves are
            # exactly where a wrong flag becomes a violation
            failed_load = op[0] in ("load", "loadf") and res.startswith("!") and impl_state[0] == model_state[0] and impl_state[3] == model_state[3]
            if failed_load:
                # both sides agree that the (full or filtered) load failed and on the file: what memory holds afterwards is
                # exactly what the property's "a partial view is never written" is about - the following saves are judged
                # against the specification (memory as it was before the failed call)
                pass
            elif (impl_state[0], impl_state[1], impl_state[3]) != (model_state[0], model_state[1], model_state[3]) or [tuple(x) for x in edges] != medges:
                stop = True
        # ---- the property
        if spec != "?":
            if op[0] in ("loadf", "loadinc", "load"):
                sstore, sflag = spec.split(",")
                if res == "ok" and any(r for _, _, r in store):
                    part.nontrivial.add(hash((mname, text, repr(ops[: i + 1]))))
                sedges = restrict_edges(proj_edges(mname, edges_of_store(dec_store(sstore))))
                exp = ("ok", sstore, sflag, sedges)
                got = (res, enc_store(store), common.enc_bool(filtered), [tuple(x) for x in edges])
                mgot = (model.split(",")[0], mo["mem"], mo["filtered"], medges)
                if dom and mgot != exp and mgot[0] == "ok":
                    part.mvs(dict(case, step=i, model=mgot, spec=exp))
                # the loaded subset decides like a fresh enforcer holding exactly the specified subset
                if got == exp and decs is not None:
                    odec = oracle_decisions(casbin, mname, dec_store(sstore))
                    part.count("oracle:enforce-requests", len(REQS))
                    if odec is not None and odec != decs:
                        got = got + (decs,)
                        exp = exp + (odec,)
                if got != exp and not (res == "!roleDefinition"):
                    which = "subset" if got[1] != exp[1] else "flag" if got[2] != exp[2] else "links" if got[3] != exp[3] else "enforce" if len(got) > 4 else "result"
                    found.append(
                        dict(
                            case,
                            signature=f"{op[0]}:{which}" + (":conditional-role-definition" if mname == "cond" else ""),
                            what=f"step {i}: {op[0]}({op[1] if len(op) > 1 else ''}) on file {text!r}: loaded {show(got)}; the filtered subset is {show(exp)}",
                            step=i,
                            expected=list(exp),
                            observed=list(got),
                        )
                    )
                    stop = True
            else:
                sres, sfile = spec.split(",")
                got = (res, enc_str(ftext))
                mgot = (model.split(",")[0], mo["file"])
                # the result of the last load before this save; after a load the ENFORCER rejected (role definition) the
                # model reproduces the open finding F26b (Props/C12 enforcer_rollback_ends_filtered_state_witness), so the
                # theorems (LoadsOk histories, failed reads, missing file) do not speak about it
                fails = []  # results of the failed loads since the last successful one
                for j in range(i - 1, -1, -1):
                    if ops[j][0] in ("load", "loadf", "loadinc"):
                        if obs[j][0] == "ok":
                            break
                        fails.append(obs[j][0].split(":")[0])
                last = "!roleDefinition" if "!roleDefinition" in fails else (fails[0] if fails else "ok")
                if mgot != (sres, sfile) and last != "!roleDefinition":
                    part.mvs(dict(case, step=i, model=mgot, spec=(sres, sfile)))
                if res == "!cannotSaveFiltered":
                    part.nontrivial.add(hash((mname, text, repr(ops[: i + 1]), "refused")))
                if got != (sres, sfile):
                    after = "" if last == "ok" else ":after-failed-load:" + last.split(":")[0]
                    found.append(
                        dict(
                            case,
                            signature=f"{op[0]}:" + ("not-refused" if sres.startswith("!") and res == "ok" else "refused" if res.startswith("!") else "file") + after,
                            what=f"step {i}: {op[0]} gave {res} and left the file as {ftext!r}; expected {sres} and {dec_str(sfile)!r}",
                            step=i,
                            expected=[sres, sfile],
                            observed=list(got),
                        )
                    )
                    stop = True
        if stop:
            break
    return found


def shrink_history(casbin, store0, v, tmp, budget=60):
    """delta-debugging on the earlier operations and on the file's lines: keeps a candidate when the same signature is
    still violated (judged again by driver + real code)"""
    sig, mname = v["signature"], v["model_name"]
    best = v
    changed = True
    while changed and budget > 0:
        changed = False
        text, ops = best["file"], best["ops"]
        cands = [(text, ops[:j] + ops[j + 1 :]) for j in range(len(ops) - 1)]
        ls = text.split("\n")
        cands += [("\n".join(ls[:j] + ls[j + 1 :]), ops) for j in range(len(ls))] if len(ls) > 1 else []
        for t2, o2 in cands:
            budget -= 1
            if budget <= 0:
                break
            ans = run_driver("persist", hist_lines(enc_store(store0[mname]), t2, o2))
            vs = eval_history(casbin, Part(), "shrink", mname, t2, o2, ans, tmp)
            hit = [x for x in vs if x["signature"] == sig]
            if hit:
                best = dict(hit[0], shrunk_from={"file": v["file"], "ops": v["ops"]})
                changed = True
                break
    return best


def hist_job(job):
    seed, n, mode = job
    import random

    casbin = common.use_repo()
    part = Part()
    store0 = {mn: [(k, a, []) for k, a, _ in pc.dump_model(casbin.Enforcer.new_model(text=MODELS[mn]))] for mn in MODELS}
    if mode == "corpus":
        cases = [(c["model_name"], c["file"], [[o[0]] + ([tuple(o[1]) if o[1] is not None else None] if len(o) > 1 else []) for o in c["ops"]]) for c in seed]
    else:
        rng = random.Random(seed)
        cases = []
        for _ in range(n):
            mname = rng.choice(["rbac2", "rbac2", "dom", "nog", "cond"])
            cases.append((mname, gen_file(rng, mname, mode), gen_ops(rng, mname, mode)))
    dl = []
    for mname, text, ops in cases:
        dl += hist_lines(enc_store(store0[mname]), text, ops)
    ans = run_driver("persist", dl) if dl else []
    pos = 0
    known = {sg for k in common.load_known() if k["property"] == "C12" and k.get("status") == "open" for sg in [k["signature"]] + k.get("signatures", [])}
    shrunk = set()
    with pc.TmpDir() as tmp:
        for mname, text, ops in cases:
            n_lines = 2 + 2 * len(ops)
            vs = eval_history(casbin, part, mode, mname, text, ops, ans[pos : pos + n_lines], tmp)
            pos += n_lines
            for v in vs:
                if v["signature"] not in known and v["signature"] not in shrunk and len(shrunk) < 3:
                    shrunk.add(v["signature"])
                    v = shrink_history(casbin, store0, v, tmp)
                part.violation(v)
        if cases:
            part.sample({"model": cases[0][0], "file": cases[0][1], "ops": cases[0][2]})
    return part


def show(t):
    try:
        return repr((t[0], [(k, rs) for k, _, rs in dec_store(t[1]) if rs], "filtered" if t[2] == "T" else "not filtered", t[3]))
    except Exception:  # noqa
        return repr(t)


def fl_job(_):
    casbin = common.use_repo()
    part = Part()
    run_fl(part, casbin)
    # empty-filter detection
    sides = all_filter_sides(3, FVALS + ["\t\n"])
    dl, cases = [], []
    for P in sides[:60]:
        for G in sides:
            cases.append((P, G))
            dl.append(f"emptyfilter\t{enc_filter((P, G))}")
    ans = run_driver("persist", dl)
    for (P, G), a in zip(cases, ans):
        fv = [P, G]
        impl = all(not f for f in fv) or all(all(not x.strip() for x in f) if f else True for f in fv)
        spec = all(x.strip() == "" for x in P + G)
        part.evaluations += 1
        if common.enc_bool(spec) != a:
            part.mvs({"P": P, "G": G, "model": a, "spec": spec})
        if common.enc_bool(impl) != a:
            part.disagree({"what": "is_empty_filter expression vs Model.isEmptyFilter", "P": P, "G": G, "impl": impl, "model": a})
    part.count("ef:filters", len(cases))
    return part


def third_party_stream(res):
    """the enforcer's own guard with filtered adapters that are NOT the bundled file adapter: an adapter implementing the
    FilteredAdapter interface and a duck-typed one (both in memory, their own save_policy does not refuse).  While the
    loaded policy is a filtered subset Enforcer.is_filtered() is True and Enforcer.save_policy() refuses and leaves the
    store alone; a full load ends that state."""
    casbin = common.use_repo()
    from casbin import persist
    from casbin.persist.adapter_filtered import FilteredAdapter as FilteredInterface

    class Table:
        def __init__(self, rows):
            self.rows = [list(r) for r in rows]
            self.filtered = False
            self.saves = 0

        def _load(self, model, keep):
            for r in self.rows:
                if keep(r) and r[0][0] in model.model and r[0] in model.model[r[0][0]]:
                    model.model[r[0][0]][r[0]].policy.append(list(r[1:]))

        def load_policy(self, model):
            self._load(model, lambda r: True)
            self.filtered = False

        def load_filtered_policy(self, model, filter):
            self._load(model, lambda r: r[1] == filter)
            self.filtered = True

        def is_filtered(self):
            return self.filtered

        def save_policy(self, model):
            self.saves += 1
            self.rows = [[k] + list(r) for sec in ("p", "g") if sec in model.model for k, a in model.model[sec].items() for r in a.policy]
            return True

        def add_policy(self, sec, ptype, rule):
            pass

        def remove_policy(self, sec, ptype, rule):
            pass

        def remove_filtered_policy(self, sec, ptype, field_index, *field_values):
            pass

    kinds = {"interface": type("IfaceTable", (Table, FilteredInterface), {}), "duck-typed": type("DuckTable", (Table, persist.Adapter), {})}
    rows = [["p", "v1", "v1", "v1"], ["p", "v2", "v2", "v2"], ["p", "v1", "v3", "v3"]]
    for kname, cls in kinds.items():
        for hist in (["loadf", "save"], ["loadf", "save", "load", "save"], ["load", "save", "loadf", "save", "save"], ["loadf", "loadf", "save"]):
            ad = cls(rows)
            e = casbin.Enforcer(casbin.Enforcer.new_model(text=MODELS["nog"]), ad)
            subset = not ad.is_filtered() and False
            done = []
            for op in hist:
                done.append(op)
                res.evaluations += 1
                res.count("third-party:" + op)
                before = [list(r) for r in ad.rows]
                bad = None
                try:
                    if op == "loadf":
                        e.load_filtered_policy("v1")
                        subset = True
                    elif op == "load":
                        e.load_policy()
                        subset = False
                    else:
                        e.save_policy()
                        if subset:
                            bad = f"save_policy was allowed while the enforcer holds the filtered subset {e.get_policy()}; the store went from {before} to {ad.rows}"
                except RuntimeError as ex:
                    if op == "save" and not subset:
                        bad = f"save_policy was refused ({ex}) although the policy is a complete one"
                    elif op == "save" and ad.rows != before:
                        bad = f"save_policy refused but changed the store to {ad.rows}"
                if bad is None and bool(e.is_filtered()) != subset:
                    bad = f"is_filtered() answers {e.is_filtered()} while the loaded policy is {'a filtered subset' if subset else 'complete'}"
                if bad:
                    res.violation({"signature": f"third-party:{kname}:{op}", "stream": "third-party", "kind_of_case": "third-party", "what": f"{kname} filtered adapter, history {done}: {bad}",
                                   "adapter": kname, "history": done, "expected": "refused while filtered / allowed after a full load", "observed": bad})
                    break


def load_corpus():
    """corpus/C12/*.json: minimised past witnesses (replay format: model_name, file, ops); always run first"""
    import glob
    import json

    out = []
    for f in sorted(glob.glob(os.path.join(common.VERIF, "corpus", "C12", "*.json"))):
        try:
            c = json.load(open(f))
            if c.get("kind_of_case") == "history" and c.get("model_name") in MODELS:
                out.append(c)
        except Exception:  # noqa
            pass
    return out


def run(ctx):
    res = common.Result()
    stages = [(2400, 900, 500)] if not ctx["deep"] else ([(60000, 20000, 8000)] if ctx["proof_ok"] else [(2400, 900, 500), (60000, 20000, 8000)])
    for nin, nout, nraise in stages:
        _stage(ctx, res, nin, nout, nraise)
        if pc.new_violations(res, "C12"):
            break
    return res


def _stage(ctx, res, nin, nout, nraise):
    rng = ctx["rng"]
    pc.merge(res, [fl_job(None)])
    third_party_stream(res)
    nw = pc.NPROC
    corpus = load_corpus()
    jobs = [(corpus, len(corpus), "corpus")] if corpus else []
    res.extra["corpus_cases"] = len(corpus)
    for mode, n in (("in", nin), ("out", nout), ("raise", nraise)):
        per = n // nw + 1
        jobs += [(rng.getrandbits(48), per, mode) for _ in range(nw)]
    pc.merge(res, pc.pmap(hist_job, jobs))
    res.exhaustive = True
    res.rule = (
        f"filter_line on {len(FL_LINES)} lines x every filter over {FVALS}^<=3 x ^<=3 (exhaustive); {nin} generated plain policy files, {nout} hard ones "
        f"(bracketed / leading commas before filtered positions, filters longer than the rule, padded values) and {nraise} with raising lines, each with a random sequence (<= 4) of load_filtered_policy / load_increment_filtered_policy / load_policy / "
        "save_policy / adapter.save_policy (a quarter of the histories with a window in which the policy file is missing) on Enforcer+FilteredFileAdapter over real temp files (models rbac2, dom, nog, cond = a conditional role definition g = _, _, (_)); after every step policy of every type, is_filtered, "
        "links (get_roles), result and file text are compared; the enforcer's own save guard with two in-memory filtered adapters that are not the bundled one (interface-based, duck-typed), and after every successful load all 27 requests over the names are decided by enforce() and by a fresh enforcer holding exactly the specified subset; non-trivial = a load leaving rules in memory / a refused save"
    )


def replay(obj):
    casbin = common.use_repo()
    k = obj.get("kind_of_case")
    if k == "third-party":
        r = common.Result()
        third_party_stream(r)
        return any(v["signature"] == obj["signature"] for v in r.spec_violations)
    if k == "filter_line":
        from casbin.persist.adapters.filtered_file_adapter import filter_line

        return common.enc_bool(bool(filter_line(obj["line"], [obj["P"], obj["G"]]))) != obj["expected"]
    if k == "history" and "expected" not in obj:
        # a hand-written corpus case (model_name, file, ops, signature): judged like a generated history
        ops = [[o[0]] + ([tuple(o[1]) if o[1] is not None else None] if len(o) > 1 else []) for o in obj["ops"]]
        store0 = [(k_, a, []) for k_, a, _ in pc.dump_model(casbin.Enforcer.new_model(text=MODELS[obj["model_name"]]))]
        ans = run_driver("persist", hist_lines(enc_store(store0), obj["file"], ops))
        with pc.TmpDir() as tmp:
            vs = eval_history(casbin, Part(), "replay", obj["model_name"], obj["file"], ops, ans, tmp)
        return any(v["signature"] == obj.get("signature", v["signature"]) for v in vs)
    if k == "history":
        ops = [[o[0]] + ([tuple(o[1]) if o[1] is not None else None] if len(o) > 1 else []) for o in obj["ops"]]
        with pc.TmpDir() as tmp:
            obs = impl_history(casbin, obj["model_name"], obj["file"], ops, tmp)
        res, store, filtered, ftext, edges, decs = obs[obj["step"]]
        if len(obj["expected"]) >= 4:
            got = [res, enc_store(store), common.enc_bool(filtered), [list(x) for x in edges]] + ([decs] if len(obj["expected"]) > 4 else [])
            exp = list(obj["expected"])
            exp[3] = [list(x) for x in exp[3]]
            return got != exp
        return [res, enc_str(ftext)] != list(obj["expected"])
    return False
