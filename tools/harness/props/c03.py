"""C03 — role inheritance is reachability over the current role assignments"""
import itertools

import common
import rm_corr

TRANSLATORS = []
LEVEL = "proof"
ASSUMPTIONS = [
    "names, roles and domains are strings; user supplied matching / condition functions are total, deterministic and free of side effects (a raising matching function counts as no match, as match_error_handler does)",
    "Role.roles / Role.users are modelled as one edge set (they are only ever updated together); Python set / dict iteration order is not observable (list answers are compared sorted)",
    "tie: differential execution of RoleManager / ConditionalRoleManager / DomainManager / ConditionalDomainManager, generate_g_function and Assertion.build_*role_links against Model/RoleManager.lean on exhaustive small scopes + seeded histories; the Enforcer is probed end to end against the specification",
    "the theorems speak about managers whose name-matching function only relates equal names (none, or the equality the domain managers install); pattern functions are C14",
]
TRUSTED_EXTRA = []

N3 = ["a", "b", "c"]
PAIRS3 = [(x, y) for x in N3 for y in N3]


def probes(names, dom=()):
    ops = []
    for u in names:
        for r in names:
            ops.append(["has", u, r, *dom])
    for u in names:
        ops.append(["roles", u, *dom])
        ops.append(["users", u, *dom])
    return ops


def gen_digraphs(names, pairs, kinds, L=10):
    """every digraph over `names` x every query x 2 insertion orders"""
    for mask in range(1 << len(pairs)):
        edges = [pairs[i] for i in range(len(pairs)) if mask >> i & 1]
        for order in (edges, edges[::-1]):
            for kind in kinds:
                dom = ("d1",) if kind in ("domain", "conddomain") else ()
                ops = [["add", u, r, *dom] for (u, r) in order]
                if kind in ("domain", "conddomain") and edges:
                    # the complement graph lives in another domain and must not be followed
                    ops += [["add", u, r, "d2"] for (u, r) in pairs if (u, r) not in edges][:3]
                yield dict(kind=kind, L=L, ops=ops + probes(names, dom), stream="digraphs", scope="in")


def gen_small_histories(maxlen):
    """all add/delete/query histories of length <= maxlen with a full probe at the end (cache states!)"""
    # plain managers: 4 links over 3 names
    links = [("a", "b"), ("b", "c"), ("c", "a"), ("a", "a")]
    alpha = [["add", *l] for l in links] + [["del", *l] for l in links] + ["Q"]
    q = [["has", "a", "c"], ["has", "b", "a"], ["roles", "a"], ["users", "a"]]
    for kind in ("plain", "cond"):
        for n in range(1, maxlen + 1):
            for seq in itertools.product(alpha, repeat=n):
                ops = []
                for o in seq:
                    ops += q if o == "Q" else [o]
                yield dict(kind=kind, L=10, ops=ops + probes(N3), stream="histories", scope="in")
    # domain managers: a chain a -> r -> s over two domains, queries per domain build the caches
    links = [("a", "r"), ("r", "s")]
    doms = ["d1", "d2"]
    alpha = [["add", *l, d] for l in links for d in doms] + [["del", *l, d] for l in links for d in doms] + [("Q", d) for d in doms]
    names = ["a", "r", "s"]
    for kind in ("domain", "conddomain"):
        for n in range(1, maxlen + 1):
            for seq in itertools.product(alpha, repeat=n):
                ops = []
                for o in seq:
                    if o[0] == "Q":
                        ops += [["has", "a", "s", o[1]], ["has", "a", "r", o[1]], ["roles", "a", o[1]]]
                    else:
                        ops.append(o)
                final = []
                for d in doms:
                    final += [["has", "a", "r", d], ["has", "a", "s", d], ["has", "r", "s", d], ["roles", "r", d], ["users", "r", d]]
                yield dict(kind=kind, L=10, ops=ops + final, stream="histories", scope="in")


def gen_chains():
    """chains and cycles around the depth bound, for several bounds"""
    for kind in rm_corr.KINDS:
        dom = ("d1",) if kind in ("domain", "conddomain") else ()
        for L in (0, 1, 2, 3, 10):
            lens = range(0, 6) if L < 10 else range(8, 13)
            for n in lens:
                nodes = [f"n{i}" for i in range(n + 1)]
                for closed in (False, True):
                    for rev in (False, True):
                        edges = [(nodes[i], nodes[i + 1]) for i in range(n)]
                        if closed:
                            edges.append((nodes[n], nodes[0]))
                        if rev:
                            edges = edges[::-1]
                        ops = [["add", u, r, *dom] for (u, r) in edges]
                        for i in (0, 1):
                            for j in range(len(nodes)):
                                if i < len(nodes):
                                    ops.append(["has", nodes[i], nodes[j], *dom])
                        ops.append(["has", nodes[-1], nodes[0], *dom])
                        ops.append(["g", [nodes[0], nodes[-1], *dom]])
                        yield dict(kind=kind, L=L, ops=ops, stream="chains", scope="in")


def gen_lollipops():
    """diamonds with one long and one short side joined before a tail, and wide stars: the depth bound counts LEVELS of
    the breadth-first walk, so a role reached first at the end of the long side must still be found through the short
    side, and many roles on one level cost one level only (both insertion orders, every tail node queried)"""
    for kind in ("plain", "cond", "domain"):
        dom = ("d1",) if kind == "domain" else ()
        for long_ in (5, 7, 8, 9):
            for short in (1, 2, 3):
                for tail in (1, 3, 5, 8):
                    ls = [f"l{i}" for i in range(long_)]
                    ss = [f"s{i}" for i in range(short)]
                    ts = [f"t{i}" for i in range(tail)]
                    e_long = [("u", ls[0])] + [(ls[i], ls[i + 1]) for i in range(long_ - 1)] + [(ls[-1], "j")]
                    e_short = [("u", ss[0])] + [(ss[i], ss[i + 1]) for i in range(short - 1)] + [(ss[-1], "j")]
                    e_tail = [("j", ts[0])] + [(ts[i], ts[i + 1]) for i in range(tail - 1)]
                    for edges in (e_long + e_short + e_tail, e_short + e_long + e_tail, e_tail + e_long + e_short):
                        ops = [["add", a, b, *dom] for a, b in edges]
                        ops += [["has", "u", t, *dom] for t in ["j"] + ts] + [["has", ls[0], ts[-1], *dom], ["roles", "u", *dom]]
                        yield dict(kind=kind, L=10, ops=ops, stream="lollipops", scope="in")
        for width in (9, 10, 11, 14, 25):
            roles = [f"r{i}" for i in range(width)]
            for mid in (False, True):
                edges = ([("u", "m")] + [("m", r) for r in roles]) if mid else [("u", r) for r in roles]
                edges += [(roles[-1], "top"), (roles[0], "top0")]
                ops = [["add", a, b, *dom] for a, b in edges]
                ops += [["has", "u", r, *dom] for r in roles[-3:] + ["top", "top0", roles[0]]] + [["users", "top", *dom]]
                yield dict(kind=kind, L=10, ops=ops, stream="lollipops", scope="in")


def gen_conditions():
    """a diamond a -> b -> d, a -> c -> d (+ a direct chord) with every truth assignment to <= 4 link conditions"""
    edges = [("a", "b"), ("b", "d"), ("a", "c"), ("c", "d")]
    for kind in ("cond", "conddomain"):
        dom = "d1" if kind == "conddomain" else ""
        dargs = (dom,) if dom else ()
        for k in range(0, 5):
            for which in itertools.combinations(range(4), k):
                for truth in itertools.product("TF", repeat=k):
                    for style in ("const", "param"):
                        ops = [["add", u, r, *dargs] for (u, r) in edges]
                        for idx, t in zip(which, truth):
                            u, r = edges[idx]
                            if style == "const":
                                ops.append(["condfn", u, r, dom, t])
                            else:
                                ops.append(["condfn", u, r, dom, "P0"])
                                ops.append(["params", u, r, dom, [t, "x"]])
                        ops += [["has", "a", "d", *dargs], ["has", "a", "b", *dargs], ["has", "b", "d", *dargs], ["has", "d", "a", *dargs], ["has", "a", "a", *dargs]]
                        ops += [["g", ["a", "d", *dargs]], ["roles", "a", *dargs], ["users", "d", *dargs]]
                        if kind == "cond":
                            # a condition registered for another domain key does not apply
                            ops += [["has", "a", "d", "other"]]
                        yield dict(kind=kind, L=10, ops=ops, stream="conditions", scope="in")
        # conditions at the depth bound: the conditional search follows one edge more than the plain one
        for L in (1, 2, 3):
            for n in range(0, 6):
                nodes = [f"n{i}" for i in range(n + 1)]
                ops = [["add", nodes[i], nodes[i + 1], *dargs] for i in range(n)]
                if n:
                    ops += [["condfn", nodes[0], nodes[1], dom, "P0"], ["params", nodes[0], nodes[1], dom, ["T"]]]
                ops += [["has", nodes[0], nodes[j], *dargs] for j in range(n + 1)]
                if n:
                    ops += [["params", nodes[0], nodes[1], dom, ["F"]]]
                    ops += [["has", nodes[0], nodes[j], *dargs] for j in range(n + 1)]
                yield dict(kind=kind, L=L, ops=ops, stream="conditions", scope="in")


def gen_cond_reload():
    """the registered condition functions outlive a clear(): every reload, rebuild and rollback of the enforcer clears the
    conditional manager and builds the assignments again (add_link + stored parameters). A diamond a -> b -> d,
    a -> c -> d with every truth assignment to <= 3 link conditions, registered BEFORE the clear; the assignments come
    back in either order, with the same or the opposite parameters (the answer follows the parameters stored last) or with
    none (the stored parameters went with the assignment: the function is asked about no parameters)"""
    edges = [("a", "b"), ("b", "d"), ("a", "c"), ("c", "d")]
    for kind in ("cond", "conddomain"):
        dom = "d1" if kind == "conddomain" else ""
        dargs = (dom,) if dom else ()
        for k in range(1, 4):
            for which in itertools.combinations(range(4), k):
                for truth in itertools.product("TF", repeat=k):
                    for flip in (False, True, None):
                        for back in (edges, edges[::-1]):
                            ops = [["add", u, r, *dargs] for (u, r) in edges]
                            for idx, t in zip(which, truth):
                                u, r = edges[idx]
                                ops += [["condfn", u, r, dom, "P0"], ["params", u, r, dom, [t, "x"]]]
                            ops += [["has", "a", "d", *dargs], ["clear"], ["has", "a", "d", *dargs]]
                            for u, r in back:
                                ops.append(["add", u, r, *dargs])
                                if edges.index((u, r)) in which and flip is not None:
                                    t = truth[list(which).index(edges.index((u, r)))]
                                    t = {"T": "F", "F": "T"}[t] if flip else t
                                    ops.append(["params", u, r, dom, [t, "x"]])
                            ops += [["has", "a", "d", *dargs], ["has", "a", "b", *dargs], ["has", "c", "d", *dargs], ["g", ["a", "d", *dargs]]]
                            ops += [["roles", "a", *dargs], ["users", "d", *dargs]]
                            yield dict(kind=kind, L=10, ops=ops, stream="cond-reload", scope="in")


def gen_glue():
    """g() with 0..4 arguments, with and without a manager; build_role_links / incremental with short, long and
    exact rules, bad role definitions, unknown operations, too many domains"""
    for kind in ("none",) + rm_corr.KINDS:
        for args in ([], ["a"], ["a", "a"], ["a", "b"], ["a", "b", "d1"], ["a", "b", "d1", "zz"], ["b", "b", "d2"]):
            pre = [] if kind == "none" else [["add", "a", "b", "d1"]] if kind in ("domain", "conddomain") else [["add", "a", "b"]]
            yield dict(kind=kind, L=10, ops=pre + [["g", args]], stream="glue", scope="in")
    # one generated g function (one enforce call) asked about every pair, in several domains and in both orders of the domains
    for kind in rm_corr.KINDS:
        dom = kind in ("domain", "conddomain")
        for links in ([["a", "b"]], [["a", "b"], ["b", "c"]], [["a", "b"], ["c", "b"]]):
            if dom:
                for doms_of in (["d1"], ["d2"], ["d1", "d2"]):
                    pre = [["add", u, r, d] for u, r in links for d in doms_of]
                    for order in (["d1", "d2"], ["d2", "d1"]):
                        qs = [["g", [x, y, d]] for x in N3 for y in N3 for d in order]
                        yield dict(kind=kind, L=10, ops=pre + qs, stream="glue", scope="in")
                        qs = [["g", [x, y, d]] for d in order for x in N3 for y in N3]
                        yield dict(kind=kind, L=10, ops=pre + qs, stream="glue", scope="in")
            else:
                pre = [["add", u, r] for u, r in links]
                yield dict(kind=kind, L=10, ops=pre + [["g", [x, y]] for x in N3 for y in N3] + [["g", [y, x]] for x in N3 for y in N3], stream="glue", scope="in")
    rulesets = [
        [["a", "b"], ["b", "c"]],
        [["a", "b", "d1"], ["b", "c", "d1"], ["c", "a", "d2"]],
        [["a", "b", "d1", "x"], ["b", "c", "d1", "y"]],
        [["a", "b"], ["b"], ["c", "a"]],
        [["a", "b", "d1"], ["b", "c"], ["c", "a", "d1"]],
        [],
    ]
    for kind in rm_corr.KINDS:
        for count in (0, 1, 2, 3, 4):
            for rules in rulesets:
                tail = probes(N3, ("d1",)) if kind in ("domain", "conddomain") else probes(N3)
                yield dict(kind=kind, L=10, ops=[["build", count, rules]] + tail, stream="glue", scope="in")
                for op in ("add", "remove", "other"):
                    pre = [["build", count, rules[:1]]] if op == "remove" else []
                    yield dict(kind=kind, L=10, ops=pre + [["incr", count, op, rules]] + tail, stream="glue", scope="in")


def gen_random(rng, n, maxlen, kinds=rm_corr.KINDS):
    names = ["a", "b", "c", "d", "e", "f"]
    doms = ["d1", "d2", "d3"]
    for _ in range(n):
        kind = rng.choice(kinds)
        L = rng.choice([10, 10, 10, 3, 2, 1])
        k = rng.randint(2, 6)
        ns = names[:k]
        ds = doms[: rng.randint(1, 3)] if kind in ("domain", "conddomain") else [None]
        ops = []
        present = []
        for _ in range(rng.randint(3, maxlen)):
            d = rng.choice(ds)
            dom = [d] if d is not None else []
            x = rng.random()
            if x < 0.38:
                l = (rng.choice(ns), rng.choice(ns), d)
                if x < 0.05 and present:
                    l = rng.choice(present)  # duplicate add
                present.append(l)
                ops.append(["add", l[0], l[1], *([l[2]] if l[2] is not None else [])])
            elif x < 0.58:
                l = rng.choice(present) if present and rng.random() < 0.8 else (rng.choice(ns), rng.choice(ns), d)
                ops.append(["del", l[0], l[1], *([l[2]] if l[2] is not None else [])])
            elif x < 0.60:
                ops.append(["clear"])
                present = []  # conditions are only registered for links added since (ConditionalDomainManager registers on the managers that exist)
            elif x < 0.66 and kind in ("cond", "conddomain") and present:
                l = rng.choice(present)
                ops.append(["condfn", l[0], l[1], l[2] or "", rng.choice(["T", "F", "P0", "ALL"])])
            elif x < 0.72 and kind in ("cond", "conddomain") and present:
                l = rng.choice(present)
                ops.append(["params", l[0], l[1], l[2] or "", [rng.choice("TF") for _ in range(rng.randint(0, 2))]])
            elif x < 0.90:
                ops.append(["has", rng.choice(ns), rng.choice(ns), *dom])
            elif x < 0.95:
                ops.append(["roles", rng.choice(ns), *dom])
            else:
                ops.append(["users", rng.choice(ns), *dom])
        tail = []
        for d in ds:
            dom = [d] if d is not None else []
            tail += [["has", u, r, *dom] for u in ns[:3] for r in ns[:3]]
        yield dict(kind=kind, L=L, ops=ops + tail, stream="random", scope="in")


# ------------------------------------------------------------------ Enforcer level

RBAC = """[request_definition]
r = sub, obj, act
[policy_definition]
p = sub, obj, act
[role_definition]
g = _, _
[policy_effect]
e = some(where (p.eft == allow))
[matchers]
m = g(r.sub, p.sub) && r.obj == p.obj && r.act == p.act
"""
RBAC_DOM = """[request_definition]
r = sub, dom, obj, act
[policy_definition]
p = sub, dom, obj, act
[role_definition]
g = _, _, _
[policy_effect]
e = some(where (p.eft == allow))
[matchers]
m = g(r.sub, p.sub, r.dom) && r.dom == p.dom && r.obj == p.obj && r.act == p.act
"""


def enforce_probe(ctx, res, prop, n):
    """g(r.sub, p.sub) / g(r.sub, p.sub, r.dom) through the real Enforcer against the specification: for every
    name x there is a rule (x, [dom,] res_x, read), so enforce(u, [d,] res_x, read) must equal holds(u, x[, d])"""
    casbin = common.use_repo()
    rng = ctx["rng"]
    names = ["a", "b", "c", "d"]
    doms = ["d1", "d2"]
    cases = []
    for it in range(n):
        domain = it % 2 == 1
        k = rng.randint(2, 4)
        ns = names[:k]
        hist = []
        present = set()
        steps = []
        for _ in range(rng.randint(1, 8)):
            d = rng.choice(doms)
            l = (rng.choice(ns), rng.choice(ns)) + ((d,) if domain else ())
            if l in present and rng.random() < 0.7:
                present.discard(l)
                hist.append(("remove", l))
            elif l not in present:
                present.add(l)
                hist.append(("add", l))
            else:
                continue
            u, x = rng.choice(ns), rng.choice(ns)
            hist.append(("enforce", (u, x) + ((rng.choice(doms),) if domain else ())))
            if rng.random() < 0.15:
                # a reload that is rejected while the links are being built: the assignments in force stay the ones before it
                hist.append(("reject", (ns[0], ns[-1]) + ((rng.choice(doms),) if domain else ())))
        for u in ns:
            for x in ns:
                for d in doms if domain else [None]:
                    hist.append(("enforce", (u, x) + ((d,) if domain else ())))
        cases.append((domain, ns, hist))
    lines = []
    for domain, ns, hist in cases:
        lines += ["#reset", "new\t" + ("domain" if domain else "plain") + "\t10"]
        for k, l in hist:
            lines.append("\t".join([{"add": "add", "remove": "del", "enforce": "has", "reject": "has"}[k]] + [common.enc_str(x) for x in l]))
    answers = rm_corr.run_driver("rm", lines)
    pos = 0
    for domain, ns, hist in cases:
        m = casbin.Enforcer.new_model(text=RBAC_DOM if domain else RBAC)
        e = casbin.Enforcer(m)
        for x in ns:
            for d in doms if domain else [None]:
                e.add_policy(*([x] + ([d] if domain else []) + ["res_" + x, "read"]))
        ans = answers[pos + 2 : pos + 2 + len(hist)]
        pos += 2 + len(hist)
        for i, ((k, l), a) in enumerate(zip(hist, ans)):
            res.evaluations += 1
            res.count("stream:enforce")
            u, x = l[0], l[1]
            if k == "reject":
                _rejected_reload(casbin, e, l, domain)
                continue
            if k in ("add", "remove"):
                try:
                    (e.add_grouping_policy if k == "add" else e.remove_grouping_policy)(*l)
                    continue
                except Exception as ex:  # noqa
                    got, spec = rm_corr.fmt_exc(ex), "ok"
            else:
                _, spec = rm_corr.parse_ms(a)
                try:
                    got = e.enforce(*([u] + list(l[2:]) + ["res_" + x, "read"]))
                    got = "T" if got is True else "F" if got is False else repr(got)
                except Exception as ex:  # noqa
                    got = rm_corr.fmt_exc(ex)
            if True:
                if got == "T" and u != x:
                    res.nontrivial.add(hash(("enf", domain, repr(hist[: i + 1]))))
                if spec != "?" and got != spec:
                    res.violation(
                        {
                            "signature": f"{prop}:enforce:{'domain' if domain else 'rbac'}",
                            "what": f"enforce({u}, {', '.join(l[2:])}{', ' if domain else ''}res_{x}, read) = {got} after {hist[:i]}; reachability over the grouping policy in force gives {spec}",
                            "model_text": RBAC_DOM if domain else RBAC,
                            "names": ns,
                            "enf_history": [[k2, list(l2)] for k2, l2 in hist[: i + 1]],
                            "observed": got,
                            "expected": spec,
                            "replay_kind": "enforce",
                        }
                    )
    return res


def _rejected_reload(casbin, e, l, domain):
    """load_policy from a store that holds the current rules, one more valid assignment and one that is too short for the
    role definition: the reload raises while the links are being built and must leave everything as it was"""
    from casbin import persist

    cur_p = [list(r) for r in e.get_policy()]
    cur_g = [list(r) for r in e.get_grouping_policy()]

    class Bad(persist.Adapter):
        def load_policy(self, model):
            for r in cur_p:
                model.model["p"]["p"].policy.append(list(r))
            for r in cur_g + [list(l), list(l)[:1]]:
                model.model["g"]["g"].policy.append(list(r))

        def save_policy(self, model):
            return True

        def add_policy(self, sec, ptype, rule):
            pass

        def remove_policy(self, sec, ptype, rule):
            pass

        def remove_filtered_policy(self, sec, ptype, field_index, *field_values):
            pass

    old = e.get_adapter()
    e.set_adapter(Bad())
    try:
        e.load_policy()
    except Exception:  # noqa
        pass
    finally:
        e.set_adapter(old)


def replay_enforce(obj):
    casbin = common.use_repo()
    domain = "r.dom" in obj["model_text"]
    e = casbin.Enforcer(casbin.Enforcer.new_model(text=obj["model_text"]))
    for x in obj["names"]:
        for d in ["d1", "d2"] if domain else [None]:
            e.add_policy(*([x] + ([d] if domain else []) + ["res_" + x, "read"]))
    got = None
    for k, l in obj["enf_history"]:
        if k == "reject":
            _rejected_reload(casbin, e, tuple(l), domain)
            continue
        if k in ("add", "remove"):
            try:
                (e.add_grouping_policy if k == "add" else e.remove_grouping_policy)(*l)
                got = "ok"
            except Exception as ex:  # noqa
                got = rm_corr.fmt_exc(ex)
        else:
            try:
                got = e.enforce(*([l[0]] + list(l[2:]) + ["res_" + l[1], "read"]))
                got = "T" if got is True else "F" if got is False else repr(got)
            except Exception as ex:  # noqa
                got = rm_corr.fmt_exc(ex)
    return got != obj["expected"]


# ------------------------------------------------------------------ Enforcer level, conditional role definitions

RBAC_COND = RBAC.replace("g = _, _\n", "g = _, _, (_, _)\n")
RBAC_DOM_COND = RBAC_DOM.replace("g = _, _, _\n", "g = _, _, _, (_, _)\n")
assert "(_, _)" in RBAC_COND and "(_, _)" in RBAC_DOM_COND
MAINT = ("reload", "rebuild", "reject", "clearload", "manual", "filtered")


def _cond_fn(flag, _other):
    """the link condition of the probe: the assignment is in force while its first stored parameter is 'T'"""
    return flag == "T"


def _cond_history(rng, domain):
    """one history over a conditional role definition (the bundled temporal-roles shape): grouping rules
    (u, r[, d], flag, 'x'), at most one per (u, r[, d]); condition functions registered per assignment through the
    enforcer; and the maintenance calls that clear and rebuild the role links from the policy in force - none of which
    changes an assignment, its stored parameters or a registered function:
      reload    load_policy() from a store holding exactly the current rules
      rebuild   build_role_links()
      reject    load_policy() from a store with one more assignment and one unusable line (raises; rollback)
      clearload clear_policy(), then load_policy() from the store holding the rules from before
      manual    enable_auto_build_role_links(False); load_policy(); build_role_links(); enable(True)
      filtered  load_filtered_policy() from a filtered store whose filter selects every current rule"""
    names = ["a", "b", "c", "d"]
    doms = ["d1", "d2"]
    ns = names[: rng.randint(2, 4)]
    present = {}
    ever = []
    hist = []
    for _ in range(rng.randint(2, 9)):
        key = (rng.choice(ns), rng.choice(ns)) + ((rng.choice(doms),) if domain else ())
        x = rng.random()
        if key in present and x < 0.35:
            hist.append(("remove", key + present.pop(key)))
        elif key not in present and x < 0.8:
            present[key] = (rng.choice("TTF"), "x")
            if key not in ever:
                ever.append(key)
            hist.append(("add", key + present[key]))
        elif ever:
            k2 = rng.choice(list(present) or ever) if rng.random() < 0.8 else rng.choice(ever)
            hist.append(("condfn", k2))
        if present and rng.random() < 0.5:
            hist.append(("condfn", rng.choice(list(present))))
        u, x2 = rng.choice(ns), rng.choice(ns)
        hist.append(("enforce", (u, x2) + ((rng.choice(doms),) if domain else ())))
        if rng.random() < 0.45:
            kind = rng.choice(MAINT)
            hist.append((kind, (ns[0], ns[-1]) + ((rng.choice(doms),) if domain else ())))
            for key2 in list(present)[:3]:
                hist.append(("enforce", key2))
    for u in ns:
        for x2 in ns:
            for d in doms if domain else [None]:
                hist.append(("enforce", (u, x2) + ((d,) if domain else ())))
    return ns, hist


def _cond_lines(domain, hist):
    """driver lines of a conditional enforcer history; returns (lines, index of the answer of each entry)"""
    lines = ["#reset", "new\t" + ("conddomain" if domain else "cond") + "\t10"]
    at = []
    nk = 3 if domain else 2
    for k, l in hist:
        key = [common.enc_str(x) for x in l[:nk]]
        dom = common.enc_str(l[2] if domain else "")
        if k == "add":
            lines.append("\t".join(["add"] + key))
            lines.append("\t".join(["params"] + key[:2] + [dom, common.enc_list([common.enc_str(p) for p in l[nk:]])]))
        elif k == "remove":
            lines.append("\t".join(["del"] + key))
        elif k == "condfn":
            lines.append("\t".join(["condfn"] + key[:2] + [dom, "P0"]))
        else:  # enforce, and the maintenance calls (no change of the specification state: a query as placeholder)
            lines.append("\t".join(["has"] + key))
        at.append(len(lines) - 1)
    return lines, at


class _Store:
    """a faithful in-memory store: delivers the rules it was given"""

    def __init__(self, p, g):
        self.p, self.g = [list(r) for r in p], [list(r) for r in g]

    def load_policy(self, model):
        for r in self.p:
            model.model["p"]["p"].policy.append(list(r))
        for r in self.g:
            model.model["g"]["g"].policy.append(list(r))

    def load_filtered_policy(self, model, filter):
        self.load_policy(model)

    def is_filtered(self):
        return False

    def save_policy(self, model):
        return True

    def add_policy(self, sec, ptype, rule):
        pass

    def remove_policy(self, sec, ptype, rule):
        pass

    def remove_filtered_policy(self, sec, ptype, field_index, *field_values):
        pass


def _cond_apply(e, k, l, domain):
    """one entry of a conditional enforcer history on the real Enforcer; the answer of an enforce, else None"""
    nk = 3 if domain else 2
    if k == "add":
        e.add_grouping_policy(*l)
    elif k == "remove":
        e.remove_grouping_policy(*l)
    elif k == "condfn":
        if domain:
            e.add_named_domain_link_condition_func("g", l[0], l[1], l[2], _cond_fn)
        else:
            e.add_named_link_condition_func("g", l[0], l[1], _cond_fn)
    elif k == "enforce":
        got = e.enforce(*([l[0]] + list(l[2:nk]) + ["res_" + l[1], "read"]))
        return "T" if got is True else "F" if got is False else repr(got)
    else:
        cur_p = [list(r) for r in e.get_policy()]
        cur_g = [list(r) for r in e.get_grouping_policy()]
        old = e.get_adapter()
        try:
            if k == "reload":
                e.set_adapter(_Store(cur_p, cur_g))
                e.load_policy()
            elif k == "rebuild":
                e.build_role_links()
            elif k == "reject":
                e.set_adapter(_Store(cur_p, cur_g + [list(l) + ["T", "x"], list(l)[:1]]))
                try:
                    e.load_policy()
                except Exception:  # noqa (the rejection is the point)
                    pass
            elif k == "clearload":
                e.set_adapter(_Store(cur_p, cur_g))
                e.clear_policy()
                e.load_policy()
            elif k == "filtered":
                e.set_adapter(_Store(cur_p, cur_g))
                e.load_filtered_policy(None)
            elif k == "manual":
                e.set_adapter(_Store(cur_p, cur_g))
                e.enable_auto_build_role_links(False)
                try:
                    e.load_policy()
                finally:
                    e.enable_auto_build_role_links(True)
                e.build_role_links()
        finally:
            e.set_adapter(old)
    return None


def _cond_enforcer(casbin, domain, ns):
    e = casbin.Enforcer(casbin.Enforcer.new_model(text=RBAC_DOM_COND if domain else RBAC_COND))
    for x in ns:
        for d in ["d1", "d2"] if domain else [None]:
            e.add_policy(*([x] + ([d] if domain else []) + ["res_" + x, "read"]))
    return e


def enforce_probe_cond(ctx, res, prop, n):
    """g() through the real Enforcer on a conditional role definition (g = _, _, (_, _) / g = _, _, _, (_, _)) against
    the specification: enforce(u, [d,] res_x, read) must equal "x is reachable from u along the assignments in force
    whose condition - if one is registered - returns true for the stored parameters", across reloads, rebuilds, rejected
    reloads and clear + load (which keep assignments, parameters and registered functions as they are)"""
    casbin = common.use_repo()
    rng = ctx["rng"]
    cases = []
    for it in range(n):
        domain = it % 2 == 1
        ns, hist = _cond_history(rng, domain)
        cases.append((domain, ns, hist))
    lines, ats = [], []
    for domain, ns, hist in cases:
        ls, at = _cond_lines(domain, hist)
        ats.append([len(lines) + i for i in at])
        lines += ls
    answers = rm_corr.run_driver("rm", lines)
    for (domain, ns, hist), at in zip(cases, ats):
        shape = "conddomain" if domain else "cond"
        e = _cond_enforcer(casbin, domain, ns)
        for i, (k, l) in enumerate(hist):
            res.evaluations += 1
            res.count("stream:enforce-" + shape)
            res.count("cond-op:" + k)
            spec = "ok"
            if k == "enforce":
                _, spec = rm_corr.parse_ms(answers[at[i]])
            try:
                got = _cond_apply(e, k, l, domain)
                if got is None:
                    got = "ok"
            except Exception as ex:  # noqa
                got = rm_corr.fmt_exc(ex)
            if got == "T" and l[0] != l[1]:
                res.nontrivial.add(hash(("enfc", domain, repr(hist[: i + 1]))))
            if k == "enforce" and got == "F" and any(k2 == "condfn" for k2, _ in hist[:i]):
                res.count("cond-answer:F-with-conditions")
            if spec != "?" and got != spec:
                h2 = hist[: i + 1]
                if res._per_sig.get(_cond_sig(prop, shape, h2, got), 0) < 3:
                    h2 = _cond_shrink(domain, ns, h2, spec)
                sig = _cond_sig(prop, shape, h2, got)
                res.violation(
                    {
                        "signature": sig,
                        "what": f"{shape} model: {k}{tuple(h2[-1][1])} answered {got} after {h2[:-1]}; reachability over the "
                        f"assignments in force whose registered condition holds on the stored parameters gives {spec}",
                        "model_text": RBAC_DOM_COND if domain else RBAC_COND,
                        "names": ns,
                        "enf_history": [[k2, list(l2)] for k2, l2 in h2],
                        "observed": got,
                        "expected": spec,
                        "replay_kind": "enforce-cond",
                    }
                )
                if got.startswith("!"):
                    break
    return res


def _cond_sig(prop, shape, hist, got):
    """failing call; for a decision: the last maintenance call before it and the direction of the error
    (granted = a role held that the assignments in force do not give, denied = a role in force not held)"""
    k = hist[-1][0]
    if k != "enforce":
        return f"{prop}:enforce:{shape}:{k}"
    maint = [k2 for k2, _ in hist if k2 in MAINT]
    return f"{prop}:enforce:{shape}:after-{maint[-1] if maint else 'none'}:{'granted' if got == 'T' else 'denied' if got == 'F' else 'error'}"


def _cond_run(domain, ns, hist):
    casbin = common.use_repo()
    e = _cond_enforcer(casbin, domain, ns)
    got = None
    for k, l in hist:
        try:
            got = _cond_apply(e, k, tuple(l), domain)
            if got is None:
                got = "ok"
        except Exception as ex:  # noqa
            got = rm_corr.fmt_exc(ex)
    return got


def _cond_shrink(domain, ns, hist, spec_last, budget=60):
    """greedy removal of entries before the failing (last) one; an entry goes only if the specification's answer for
    the last entry stays and the real code still contradicts it"""
    hist = list(hist)
    i = 0
    while i < len(hist) - 1 and budget > 0:
        cand = hist[:i] + hist[i + 1 :]
        budget -= 1
        try:
            lines, at = _cond_lines(domain, cand)
            spec = "ok"
            if cand[-1][0] == "enforce":
                _, spec = rm_corr.parse_ms(rm_corr.run_driver("rm", lines)[at[-1]])
            bad = spec == spec_last and _cond_run(domain, ns, cand) != spec
        except common.Infra:
            bad = False
        if bad:
            hist = cand
        else:
            i += 1
    return hist


def replay_enforce_cond(obj):
    domain = "r.dom" in obj["model_text"]
    return _cond_run(domain, obj["names"], [(k, tuple(l)) for k, l in obj["enf_history"]]) != obj["expected"]



# ------------------------------------------------------------------ several role definitions of different kinds in one model

MIXED = """[request_definition]
r = sub, obj, act
[policy_definition]
p = sub, obj, act
[role_definition]
g = %s
g2 = %s
[policy_effect]
e = some(where (p.eft == allow))
[matchers]
m = g(r.sub, p.sub) && g2(r.obj, p.obj) && r.act == p.act
"""
MIXED_KINDS = {"cond+plain": ("_, _, (_, _)", "_, _"), "plain+cond": ("_, _", "_, _, (_, _)"), "plain+plain": ("_, _", "_, _"), "cond+cond": ("_, _, (_, _)", "_, _, (_, _)")}


def _mixed_run(kind, glinks, g2links, prules, reqs):
    """a real Enforcer on a model whose two role definitions are of the given kinds; every link condition holds"""
    casbin = common.use_repo()
    d1, d2 = MIXED_KINDS[kind]
    e = casbin.Enforcer(casbin.Enforcer.new_model(text=MIXED % (d1, d2)))
    for r in prules:
        e.add_policy(*r)
    for pt, d, links in (("g", d1, glinks), ("g2", d2, g2links)):
        for a, b in links:
            e.add_named_grouping_policy(pt, a, b, *(["t", "x"] if "(" in d else []))
            if "(" in d:
                e.add_named_link_condition_func(pt, a, b, lambda *args: True)
    out = []
    for q in reqs:
        try:
            v = e.enforce(*q)
            out.append("T" if v is True else "F" if v is False else repr(v))
        except Exception as ex:  # noqa
            out.append(rm_corr.fmt_exc(ex))
    return out


def _closure(links, x):
    seen, todo = {x}, [x]
    while todo:
        n = todo.pop()
        for a, b in links:
            if a == n and b not in seen:
                seen.add(b)
                todo.append(b)
    return seen


def mixed_definitions_probe(ctx, res, prop, n):
    """g() and g2() in one matcher, the two definitions plain or conditional in every combination: each role function
    must answer from ITS OWN definition's assignments (the specification: reachability over that definition's links)"""
    rng = ctx["rng"]
    subs, objs = ["u1", "u2", "r1", "r2"], ["o1", "o2", "grp"]
    for kind in MIXED_KINDS:
        for _ in range(max(4, n // 40)):
            gl = [tuple(rng.sample(subs, 2)) for _ in range(rng.randint(0, 3))]
            g2l = [tuple(rng.sample(objs, 2)) for _ in range(rng.randint(0, 2))]
            gl, g2l = list(dict.fromkeys(gl)), list(dict.fromkeys(g2l))
            pr = list(dict.fromkeys((rng.choice(subs), rng.choice(objs), rng.choice(["read", "write"])) for _ in range(rng.randint(1, 3))))
            reqs = [(s_, o, a) for s_ in subs[:2] + subs[2:3] for o in objs[:2] for a in ("read", "write")]
            got = _mixed_run(kind, gl, g2l, pr, reqs)
            for q, v in zip(reqs, got):
                exp = "T" if any(ps in _closure(gl, q[0]) and po in _closure(g2l, q[1]) and pa == q[2] for ps, po, pa in pr) else "F"
                res.evaluations += 1
                res.count("stream:mixed-definitions:" + kind)
                if v != exp:
                    res.violation({"signature": f"{prop}:enforce:mixed-definitions:{kind}", "replay_kind": "enforce-mixed", "mixed_kind": kind, "g": [list(x) for x in gl], "g2": [list(x) for x in g2l],
                                   "p": [list(x) for x in pr], "request": list(q), "expected": exp, "observed": v, "model_text": MIXED % MIXED_KINDS[kind],
                                   "what": f"model with g = {MIXED_KINDS[kind][0]} and g2 = {MIXED_KINDS[kind][1]}, g links {gl}, g2 links {g2l}, rules {pr}: enforce{q} = {v}, reachability over each definition's own assignments gives {exp}"})
                    break
            res.nontrivial.add(hash(("mixed", kind, repr(gl), repr(g2l), repr(pr))))


def replay_enforce_mixed(obj):
    got = _mixed_run(obj["mixed_kind"], [tuple(x) for x in obj["g"]], [tuple(x) for x in obj["g2"]], [tuple(x) for x in obj["p"]], [tuple(obj["request"])])
    return got[0] != obj["expected"]


# ------------------------------------------------------------------ entry points


def run(ctx):
    res = common.Result()
    rng = ctx["rng"]
    stages = ["quick"] if not ctx["deep"] else (["thorough"] if ctx["proof_ok"] else ["quick", "thorough"])
    for stage in stages:
        hs = []
        if stage == "quick":
            hs += list(gen_digraphs(N3, PAIRS3, rm_corr.KINDS))
            hs += list(gen_small_histories(4 if False else 3))
            hs += list(gen_chains()) + list(gen_lollipops()) + list(gen_conditions()) + list(gen_cond_reload()) + list(gen_glue())
            hs += list(gen_small_histories_len4())
            hs += list(gen_random(rng, 4000, 14))
            nenf = 300
            res.rule = (
                "all 512 digraphs on 3 names x all 9 has_link queries + get_roles/get_users x 2 insertion orders x 4 manager classes; all add/delete/"
                "query histories of length <= 4 (plain, conditional) and <= 3 plus the duplicate-add family of length 4 (domain managers, two "
                "domains, queries interleaved to build caches) with a full probe at the end; chains and cycles of length 8..12 around "
                "max_hierarchy_level=10 and 0..5 around bounds 0..3; all truth assignments of <= 4 link conditions on a diamond; g() arities, "
                "build_role_links / incremental with short/long rules; 4000 seeded random histories; 300 Enforcer histories (g(r.sub,p.sub), "
                "g(r.sub,p.sub,r.dom)); 768 clear-and-rebuild histories of the conditional managers (all truth assignments of <= 3 conditions registered before "
                "the clear, links back with the same / flipped / no parameters); 300 Enforcer histories on conditional role definitions (g = _, _, (_, _) and "
                "g = _, _, _, (_, _)): grouping rules with parameters, condition functions registered through the enforcer, reload / build_role_links / rejected "
                "reload / clear + load / auto-build off + load + build / filtered load; non-trivial = a has_link/g answer True between different names; distinct by (class, level, history prefix)"
            )
        else:
            n4 = ["a", "b", "c", "d"]
            p4 = [(x, y) for x in n4 for y in n4]
            hs += list(gen_digraphs(N3, PAIRS3, rm_corr.KINDS))
            hs += list(gen_digraphs(n4, p4, ("plain",)))
            hs += list(gen_small_histories(3)) + list(gen_small_histories_len4())
            hs += list(gen_chains()) + list(gen_lollipops()) + list(gen_conditions()) + list(gen_cond_reload()) + list(gen_glue())
            hs += list(gen_random(rng, 60000, 30))
            nenf = 3000
            res.rule = (
                "as quick, plus all 65536 digraphs on 4 names x 16 queries x 2 orders (RoleManager), 60000 seeded random histories of length "
                "<= 30 over 6 names x 3 domains, 3000 Enforcer histories (and 3000 on the conditional role definitions)"
            )
        res.exhaustive = True
        rm_corr.run_all(ctx, res, "C03", hs, chunk=300)
        enforce_probe(ctx, res, "C03", nenf)
        enforce_probe_cond(ctx, res, "C03", nenf)
        mixed_definitions_probe(ctx, res, "C03", nenf)
        if res.spec_violations:
            break
    return res


def gen_small_histories_len4():
    """length 4 for the plain managers (all) and, for the domain managers, every history of length 4 that contains a
    repeated add (the duplicate-link family) or a delete followed by a query of the same domain"""
    links = [("a", "b"), ("b", "c"), ("c", "a"), ("a", "a")]
    alpha = [["add", *l] for l in links] + [["del", *l] for l in links] + ["Q"]
    q = [["has", "a", "c"], ["has", "b", "a"], ["roles", "a"]]
    for seq in itertools.product(alpha, repeat=4):
        ops = []
        for o in seq:
            ops += q if o == "Q" else [o]
        yield dict(kind="plain", L=10, ops=ops + [["has", u, r] for u in N3 for r in N3], stream="histories", scope="in")
    links = [("a", "r"), ("r", "s")]
    doms = ["d1", "d2"]
    alpha = [["add", *l, d] for l in links for d in doms] + [["del", *l, d] for l in links for d in doms] + [("Q", d) for d in doms]
    for kind in ("domain", "conddomain"):
        for seq in itertools.product(alpha, repeat=4):
            adds = [tuple(o) for o in seq if o[0] == "add"]
            if len(adds) == len(set(adds)):
                continue
            ops = []
            for o in seq:
                if o[0] == "Q":
                    ops += [["has", "a", "s", o[1]], ["has", "a", "r", o[1]]]
                else:
                    ops.append(o)
            final = []
            for d in doms:
                final += [["has", "a", "r", d], ["has", "a", "s", d], ["has", "r", "s", d], ["roles", "r", d]]
            yield dict(kind=kind, L=10, ops=ops + final, stream="histories", scope="in")


def replay(obj):
    if obj.get("replay_kind") == "enforce":
        return replay_enforce(obj)
    if obj.get("replay_kind") == "enforce-cond":
        return replay_enforce_cond(obj)
    if obj.get("replay_kind") == "enforce-mixed":
        return replay_enforce_mixed(obj)
    return rm_corr.replay(obj)
