"""C05 — domains are isolated tenants"""
import common
import enf_corr as ec

TRANSLATORS = []
LEVEL = "proof"
ASSUMPTIONS = [
    "domain model r = sub, dom, obj, act / p = sub, dom, obj, act / g = _, _, _ with the matcher g(r.sub, p.sub, r.dom) && r.dom == p.dom && ...; no domain-matching function registered (domain patterns are C14's subject)",
    "the queried domain is not the empty string (a request made of empty strings against an empty policy takes the empty-policy branch of C01)",
    "foreign calls: rules and assignments naming another domain; filtered removals whose filter pins the domain position to another domain",
]
TRUSTED_EXTRA = []

D = "d1"
F = "d2"
# with a role-name matching function (regex) registered, the tenant names themselves must not leak into each other:
# re.match("d1", "d10") succeeds, so d10 is the observed tenant and d1 the foreign one in that stream


def scoped_probe(cfg, e):
    """domain-scoped queries of the public API for domain D; everything they report must be recorded for D"""
    out = {}
    g = [list(r) for r in e.get_named_grouping_policy("g")]
    p = [list(r) for r in e.get_policy()]
    gD = [r for r in g if r[2] == D]
    namesD = {r[0] for r in gD} | {r[1] for r in gD}
    leaks = []

    def chk_names(label, names, allowed):
        for n in names:
            if n not in allowed:
                leaks.append(f"{label} reports {n!r} which no role assignment of {D} mentions")

    def chk_rules(label, rules):
        for r in rules:
            if len(r) > 1 and r[1] != D:
                leaks.append(f"{label} reports the rule {r} recorded for domain {r[1]!r}")

    try:
        for u in ("alice", "bob", "admin"):
            chk_names(f"get_roles_for_user_in_domain({u},{D})", e.get_roles_for_user_in_domain(u, D), namesD)
            chk_names(f"get_users_for_role_in_domain({u},{D})", e.get_users_for_role_in_domain(u, D), namesD)
            chk_names(f"get_implicit_roles_for_user({u},{D})", e.get_implicit_roles_for_user(u, D), namesD)
            chk_rules(f"get_permissions_for_user_in_domain({u},{D})", e.get_permissions_for_user_in_domain(u, D))
            chk_rules(f"get_implicit_permissions_for_user({u},{D})", e.get_implicit_permissions_for_user(u, D))
        chk_names(f"get_all_roles_by_domain({D})", e.get_all_roles_by_domain(D), namesD)
        for res_ in ("data1", "data2"):
            chk_rules(f"get_implicit_users_for_resource_by_domain({res_},{D})", e.get_implicit_users_for_resource_by_domain(res_, D))
    except Exception as ex:  # noqa
        leaks.append(f"scoped query raised {type(ex).__name__}: {ex}")
    out["leaks"] = leaks
    # the answers of the domain-scoped queries themselves: foreign-only calls must not change them either
    scoped = {}
    try:
        for u in ("alice", "bob", "admin"):
            scoped[f"implicit_roles:{u}"] = sorted(e.get_implicit_roles_for_user(u, D))
            scoped[f"implicit_perms:{u}"] = sorted(map(tuple, e.get_implicit_permissions_for_user(u, D)))
            scoped[f"perms:{u}"] = sorted(map(tuple, e.get_permissions_for_user_in_domain(u, D)))
        scoped["all_roles"] = sorted(e.get_all_roles_by_domain(D))
        for res_ in ("data1", "data2"):
            scoped[f"implicit_users_for_resource:{res_}"] = sorted(map(tuple, e.get_implicit_users_for_resource_by_domain(res_, D)))
    except Exception as ex:  # noqa
        scoped["error"] = f"{type(ex).__name__}: {ex}"
    out["scoped"] = scoped
    return out


ec.EXTRAS["c05"] = scoped_probe


def in_D(q):
    if q[0] == "enforce":
        return q[1][1] == D
    return q[-1] == D


def judge_factory():
    snap = {}

    def judge(res, cfg, hist, i, op, rec, model, case, queries):
        key = id(hist)
        ok = True
        for leak in rec.get("extra", {}).get("leaks", []):
            fn = leak.split("(")[0]
            res.violation({"signature": f"C05:scoped-query:{fn}", "what": f"domain model, after {[list(o) for o in hist[: i + 1]][-3:]}: {leak}", "case": case, "expected": f"only things recorded for {D}", "observed": leak, "model_text": ec.TEXT[cfg.shape]})
            ok = False
        if op[0] == "snapshot" or key not in snap:
            pass
        idx = [k for k, q in enumerate(queries) if in_D(q)]
        cur = [rec["answers"][k] for k in idx]
        scoped_now = rec.get("extra", {}).get("scoped", {})
        marker = case.get("foreign_from")
        # the history = prefix (anything) + foreign-only suffix; the snapshot is taken at the last prefix step
        fstart = hist.index(("mark",)) if ("mark",) in hist else None
        if fstart is None:
            # convention: c05 histories carry the index of the first foreign op in the config's tag
            fstart = cfg.tag
        if i == fstart - 1:
            snap[key] = cur
            snap[(key, "scoped")] = scoped_now
        elif i >= fstart and (key, "scoped") in snap and scoped_now != snap[(key, "scoped")] and cur == snap.get(key):
            old = snap[(key, "scoped")]
            k = next(k for k in scoped_now if scoped_now.get(k) != old.get(k))
            res.violation(
                {
                    "signature": f"C05:frame-scoped:{k.split(':')[0]}",
                    "what": f"domain model: the foreign-only call {list(op)} changed the domain-scoped query {k} for {D} from {old.get(k)} to {scoped_now.get(k)}",
                    "case": case,
                    "expected": str(old.get(k)),
                    "observed": str(scoped_now.get(k)),
                    "model_text": ec.TEXT[cfg.text],
                }
            )
            ok = False
        elif i >= fstart and key in snap and cur != snap[key]:
            k = next(j for j, (a, b) in enumerate(zip(cur, snap[key])) if a != b)
            q = queries[idx[k]]
            res.violation(
                {
                    "signature": f"C05:frame:{op[0]}:{q[0]}",
                    "what": f"domain model: the foreign-only call {list(op)} (touching only {F}) changed the answer of {q} in {D} from {snap[key][k]} to {cur[k]}",
                    "case": case,
                    "expected": snap[key][k],
                    "observed": cur[k],
                    "model_text": ec.TEXT[cfg.shape],
                }
            )
            ok = False
        return ok

    return judge


def gen(ctx, deep):
    rng = ctx["rng"]
    P, G, G2, R = ec.universe("dom")
    # rules of the foreign domain
    PF = [["admin", F, "data2", "read"], ["alice", F, "data1", "read"], ["bob", F, "data1", "read"]]
    GF = [["alice", "admin", F], ["bob", "admin", F], ["admin", "root", F]]
    PD = [["admin", D, "data1", "read"], ["alice", D, "data2", "read"]]
    GD = [["alice", "admin", D], ["bob", "admin", D]]
    foreign = []
    for r in GF:
        foreign += [("add", "g", r), ("remove", "g", r)]
    for r in PF:
        foreign += [("add", "p", r), ("remove", "p", r)]
    foreign += [("addmany", "g", [GF[0], GF[1]]), ("addmany", "g", [GF[0], GF[0]]), ("removemany", "g", [GF[0], GF[1]]), ("removemany", "g", [GF[2], GF[2]]),
                ("addmany", "p", [PF[0], PF[1]]), ("removemany", "p", [PF[0], PF[2]]),
                ("removefiltered", "g", 2, [F]), ("removefiltered", "g", 0, ["alice", "", F]), ("removefiltered", "g", 0, ["", "admin", F]),
                ("removefiltered", "p", 1, [F]), ("removefiltered", "p", 0, ["admin", F]),
                ("update", PF[0], PF[1]), ("update", PF[0], ["admin", F, "data9", "read"]),
                ("delete_roles_for_user_in_domain", "alice", "admin", F),
                # names that are plain subjects in D become role names elsewhere
                ("add", "g", ["bob", "alice", F]), ("remove", "g", ["bob", "alice", F]), ("addmany", "g", [["admin", "alice", F], ["bob", "alice", F]])]
    prefix_ops = [("add", "g", r) for r in GD + GF] + [("add", "p", r) for r in PD + PF] + [("remove", "g", GD[0]), ("addmany", "g", [GD[0], GF[0]])]
    inits = [{"p": PD + PF, "g": GD + GF, "g2": []}, {"p": PF + PD, "g": GF[1:] + GD, "g2": []}, {"p": PD, "g": GD, "g2": []}, {"p": PF[:1], "g": GF[:2] + GD[:1], "g2": []}, {"p": [], "g": [], "g2": []}]
    jobs = []

    variants = [("dom", None), ("dom2", None), ("dom", "regex")]

    def mk(init, prefix, suffix):
        text, matchfn = variants[mk.n % 3] if mk.n % 5 == 0 or len(suffix) <= 1 and mk.n % 2 == 0 else variants[0]
        mk.n += 1
        if (text, matchfn) != ("dom", None):
            mk2(init, prefix, suffix, text, matchfn)
        cfg = ec.Config("dom", adapter=True, watcher=None, initial=init)
        cfg.tag = len(prefix) + 1  # index of the first foreign op (after the no-op probe step)
        # a harmless first step makes sure a snapshot step exists even with an empty prefix: has-no-effect removal
        jobs.append((cfg, prefix + [("remove", "p", ["nobody", F, "x", "y"])] + suffix))

    mk.n = 0

    def ren(x):
        # with the regex role-matching function the foreign tenant is called "d": re.match("d", "d1") succeeds, so a
        # confusion of role-name matching with domain matching would let tenant "d" leak into tenant "d1"
        if isinstance(x, str):
            return "d" if x == F else x
        if isinstance(x, (list, tuple)):
            return type(x)(ren(y) for y in x)
        if isinstance(x, dict):
            return {k: ren(v) for k, v in x.items()}
        return x

    def mk2(init, prefix, suffix, text, matchfn):
        if matchfn:
            init, prefix, suffix = ren(init), ren(prefix), ren(suffix)
        cfg = ec.Config("dom", adapter=True, watcher=None, initial=init, text=text, matchfn=matchfn)
        cfg.tag = len(prefix) + 1
        jobs.append((cfg, prefix + [("remove", "p", ["nobody", "d" if matchfn else F, "x", "y"])] + suffix))

    for init in inits:
        for a in foreign:
            mk(init, [], [a])
        for a in foreign:
            for b in foreign:
                mk(init, [], [a, b])
    n = 1200 if not deep else 8000
    for _ in range(n):
        init = rng.choice(inits)
        prefix = [rng.choice(prefix_ops) for _ in range(rng.randint(0, 3))]
        suffix = [rng.choice(foreign) for _ in range(rng.randint(2, 8))]
        mk(init, prefix, suffix)
    return jobs


COND_DOM = """[request_definition]
r = sub, dom, obj, act
[policy_definition]
p = sub, dom, obj, act
[role_definition]
g = _, _, _, (_, _)
[policy_effect]
e = some(where (p.eft == allow))
[matchers]
m = g(r.sub, p.sub, r.dom) && r.dom == p.dom && r.obj == p.obj && r.act == p.act
"""
COND_USERS, COND_ROLES, COND_DOMS = ["alice", "bob"], ["admin", "user"], ["d1", "d2", "d3"]


def _cond_case(args):
    """conditional role links that carry a domain (g = _, _, _, (_, _)): link conditions are registered / replaced /
    re-parameterised for domains OTHER than d1 and permission rules of other domains change; every decision and
    domain-scoped role query in d1 must stay what it was (implementation side only: conditional managers are not in
    the Lean enforcer model)"""
    p, g, script = args
    casbin = common.use_repo()
    import policy_corr as pc

    ad = pc.make_adapter(casbin, [("p", "p", r) for r in p] + [("g", "g", r + ["_", "_"]) for r in g])
    e = casbin.Enforcer(casbin.Enforcer.new_model(text=COND_DOM), ad)
    e.enable_auto_save(False)

    def ask():
        out = [bool(e.enforce(u, "d1", o, "read")) for u in COND_USERS + COND_ROLES for o in ("data1", "data2")]
        crm = e.model.model["g"]["g"].cond_rm  # (the domain-scoped RBAC API reads the unconditional manager, which such a model does not have)
        out += [bool(crm.has_link(u, r, "d1")) for u in COND_USERS for r in COND_ROLES]
        return out

    outs = [("start", ask())]
    for op in script:
        try:
            if op[0] == "cond":
                val = op[4]
                ret = e.add_named_domain_link_condition_func("g", op[1], op[2], op[3], lambda *params, _v=val: _v)
            elif op[0] == "params":
                ret = e.set_named_domain_link_condition_func_params("g", op[1], op[2], op[3], "x", "y")
            elif op[0] == "addp":
                ret = e.add_policy(*op[1])
            elif op[0] == "removep":
                ret = e.remove_policy(*op[1])
            else:
                raise common.Infra("unknown op " + repr(op))
            ret = repr(ret)
        except common.Infra:
            raise
        except Exception as ex:  # noqa
            ret = "!" + type(ex).__name__
        outs.append((ret, ask()))
    return outs


def conditional_stream(ctx, res, deep):
    rng = ctx["rng"]
    PD = [[s, d, o, "read"] for s in COND_ROLES + COND_USERS[:1] for d in COND_DOMS for o in ("data1", "data2")]
    GD = [[u, r, d] for u in COND_USERS for r in COND_ROLES for d in COND_DOMS]
    for _ in range(60 if not deep else 600):
        g = rng.sample(GD, rng.randint(2, 6))
        e0 = rng.choice(g)
        for d in COND_DOMS:  # often the same (user, role) pair in several domains
            if rng.random() < 0.5 and [e0[0], e0[1], d] not in g:
                g.append([e0[0], e0[1], d])
        p = rng.sample(PD, rng.randint(2, 5))
        script = []
        for _k in range(rng.randint(1, 4)):
            c = rng.random()
            u, r, d = rng.choice(COND_USERS), rng.choice(COND_ROLES), rng.choice(COND_DOMS[1:])
            if c < 0.6:
                script.append(("cond", u, r, d, rng.random() < 0.5))
            elif c < 0.7:
                script.append(("params", u, r, d))
            elif c < 0.85:
                script.append(("addp", [rng.choice(COND_ROLES), d, rng.choice(["data1", "data2"]), "read"]))
            else:
                script.append(("removep", rng.choice([x for x in p if x[1] != "d1"] or [["nobody", d, "x", "read"]])))
        outs = _cond_case((p, g, script))
        base = outs[0][1]
        res.nontrivial.add(hash(("cond", repr(p), repr(g), repr(script))))
        for i, (ret, got) in enumerate(outs[1:]):
            res.evaluations += 1
            res.count("stream:conditional:" + script[i][0])
            if got != base:
                k = [j for j in range(len(got)) if got[j] != base[j]][0]
                res.violation({"signature": f"C05:conditional:{script[i][0]}", "stream": "conditional", "p": p, "g": g, "script": [list(o) for o in script[: i + 1]],
                               "what": f"conditional domain model, p = {p}, g = {g}: after {[list(o) for o in script[: i + 1]]} (all naming domains other than d1; last result {ret}) answer #{k} in d1 changed from {base[k]} to {got[k]}",
                               "expected": base[k], "observed": got[k]})
                break


def run(ctx):
    res = common.Result()
    stages = [False] if not ctx["deep"] else ([True] if ctx["proof_ok"] else [False, True])
    for deep in stages:
        ec.run_configs(res, gen(ctx, deep), judge_factory(), fresh_oracle=False, extra="c05")
        conditional_stream(ctx, res, deep)
        if res.spec_violations:
            break
    res.rule = (
        "domain model, 4 initial policies over domains d1/d2: after an arbitrary prefix (0-3 calls) all answers in d1 are snapshotted (this also "
        "builds the per-domain caches), then every foreign-only call / pair of calls / random sequence of 2-8 calls touching only d2 (single, "
        "batch incl. duplicates, filtered with the domain pinned, update, delete_roles_for_user_in_domain) is applied and after each call every "
        "decision, has_link, get_roles, get_users in d1 is compared with the snapshot and with the Lean model; after every call nine domain-scoped "
        "API queries for d1 are checked for reporting anything recorded for another domain; non-trivial/distinct = (initial policy, history)"
    )
    res.exhaustive = True
    return res


def replay(obj):
    if obj.get("stream") == "conditional":
        outs = _cond_case((obj["p"], obj["g"], [tuple(o) for o in obj["script"]]))
        return outs[-1][1] != outs[0][1]
    case = obj["case"]
    c = case["config"]
    cfg = ec.Config(c["shape"], adapter=c["adapter"], watcher=c["watcher"], initial=c["initial"])
    hist = [tuple(o) for o in case["history"]]
    # the foreign suffix starts after the marker removal of the "nobody" rule
    cfg = ec.Config(c["shape"], adapter=c["adapter"], watcher=c["watcher"], initial=c["initial"], text=c.get("text"), matchfn=c.get("matchfn"))
    cfg.tag = next((k + 1 for k, o in enumerate(hist) if o[0] == "remove" and o[1] == "p" and o[2][0] == "nobody"), 0)
    r = common.Result()
    j = judge_factory()
    qs = ec.query_set(cfg)
    out = ec.run_history(cfg, hist, qs, fresh_oracle=False, extra="c05")
    for i, (op, rec) in enumerate(zip(hist, out)):
        j(r, cfg, hist, i, op, rec, None, case, qs)
    return bool(r.spec_violations)
