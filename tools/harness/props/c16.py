"""C16 — the readers-writer lock is writer-exclusive, deadlock-free, writer-preferring.

Tie + oracle: the REAL `casbin.util.rwlock.RWLockWrite` (through its context managers, as SyncedEnforcer uses it) runs
under the controlled scheduler (tools/harness/sched.py: cooperative RLock/Condition substituted into the module
globals, real threads, one baton).  All schedules of small thread programs are explored on the real object by
depth-first search with state hashing; every executed schedule is then driven through the Lean interpreter of the
instruction lists regenerated from the source (driver family `rwlock`) and compared step by step:
(pc class of every thread, _active_readers, _waiting_writers, _writer_active, set of runnable threads).
Independently the property is evaluated directly on the real executions: exclusion, writer preference, no
blocked-forever state, no exception, readers share."""
import itertools
import multiprocessing as mp

import common
import sched as S
from common import run_driver

TRANSLATORS = ["T3"]
LEVEL = "proof"
ASSUMPTIONS = [
    "threading.RLock / Condition are modelled as a mutex (at most one holder) and a wait-set with notify_all; spurious wake-ups are allowed by the theorems, not produced by the harness",
    "scheduling granularity of the co-simulation: a thread runs from one mutex operation to the next (start of a method -> `with self._lock` -> body up to `wait()` or the end of the block); the Lean theorems are about the finer instruction-level interleaving",
    "holders of a section release it (deadlock freedom is relative to that); sections are entered through two guard objects shared by all threads (as SyncedEnforcer does), half of the programs end every section as if its body had raised",
    "tie: T3 regenerates the four methods as instruction lists (generated = expected by decide); the interpreter of these lists is co-simulated with the real object on every explored schedule",
]
TRUSTED_EXTRA = ["translator T3 (tools/translate/t3_rwlock.py)", "the controlled scheduler (tools/harness/sched.py)"]

ROLE = {"r": "R", "w": "W"}


# ------------------------------------------------------------------ one execution on the real lock


def _worker(sc, lock, tid, script, guards, raising):
    """guards: the two guard objects shared by ALL threads (as SyncedEnforcer shares its `_rl` / `_wl`); raising: every
    section ends as if its body had raised (the guard must release all the same)"""
    c = sc.ctl[tid]
    for k, role in enumerate(script):
        if k > 0:
            sc.yield_(("idle",))
        c.info["role"] = role
        c.info["part"] = "acq"
        cm = guards[0] if role == "r" else guards[1]
        cm.__enter__()
        c.info["part"] = "in"
        sc.yield_(("in",))
        c.info["part"] = "rel"
        if raising:
            err = RuntimeError("section body raised")
            cm.__exit__(RuntimeError, err, None)
        else:
            cm.__exit__(None, None, None)
        c.info["part"] = "idle"
        c.info["round"] = k + 1


def _pc(c):
    k = c.state[0]
    if k == "idle":
        return "idle"
    if k == "done":
        return "done"
    if k == "crashed":
        return "crashed:" + c.state[1]
    r = ROLE[c.info["role"]]
    if k == "in":
        return r + ".in"
    return f"{r}.{c.info['part']}.{k}"


class Exec:
    """one execution of a thread program on a fresh real RWLockWrite"""

    def __init__(self, scripts):
        casbin = common.use_repo()
        import casbin.util.rwlock as rwmod  # noqa

        self.scripts = scripts
        self.sc = S.Sched()
        self.undo = S.install(rwmod, self.sc)
        try:
            self.lock = rwmod.RWLockWrite()
        finally:
            self.undo()
        import zlib

        guards = (self.lock.gen_rlock(), self.lock.gen_wlock())
        raising = zlib.crc32(repr(tuple(scripts)).encode()) % 2 == 1  # half of the programs, fixed per program (replayable)
        for tid, script in enumerate(scripts):
            c = self.sc.spawn(tid, _worker, self.sc, self.lock, tid, script, guards, raising)
            c.info.update(role=script[0] if script else "r", part="idle", round=0)
            if not script:
                pass
        self.schedule = []

    def obs(self):
        lk = self.lock
        pcs = [_pc(self.sc.ctl[t]) for t in self.sc.order]
        return (
            f"ar={getattr(lk, '_active_readers', '?')} ww={getattr(lk, '_waiting_writers', '?')} "
            f"wa={'T' if getattr(lk, '_writer_active', None) is True else 'F' if getattr(lk, '_writer_active', None) is False else '?'}|" + ",".join(pcs)
        )

    def key(self):
        lk = self.lock
        th = sorted((self.scripts[t], self.sc.ctl[t].info.get("round", 0), _pc(self.sc.ctl[t])) for t in self.sc.order)
        return (tuple(th), lk._active_readers, lk._waiting_writers, lk._writer_active)

    def runnable(self):
        return self.sc.runnable_set()

    def inside(self, role):
        return [t for t in self.sc.order if self.sc.ctl[t].state[0] == "in" and self.sc.ctl[t].info["role"] == role]

    def writers_waiting(self):
        return [
            t
            for t in self.sc.order
            if self.sc.ctl[t].info.get("role") == "w" and self.sc.ctl[t].info.get("part") == "acq" and self.sc.ctl[t].state[0] in ("sleep", "woken")
        ]

    def step(self, tid):
        """returns the verdict of the property on this transition of the real object"""
        r_before = set(self.inside("r"))
        ww_before = self.writers_waiting()
        self.sc.step(tid)
        self.schedule.append(tid)
        st = self.sc.ctl[tid].state
        if st[0] == "crashed":
            return "crash"
        w_in = self.inside("w")
        r_in = self.inside("r")
        if w_in and len(w_in) + len(r_in) >= 2:
            return "excl"
        if set(r_in) - r_before and ww_before:
            return "pref"
        if not self.sc.all_done() and not self.runnable():
            return "dead"
        return "ok"

    def close(self):
        self.sc.abort()


WHAT = {
    "excl": "a writer is inside its section together with another writer or a reader",
    "pref": "a reader got inside while a writer that had announced itself was still waiting",
    "dead": "blocked forever: some thread has not finished and no thread can run (deadlock / lost wake-up)",
    "crash": "aquire/release raised an exception",
    "share": "readers never got inside together although no writer was around",
}


def run_schedule(scripts, schedule):
    """execute `schedule` on the real lock; returns (trace, first bad verdict or None). trace = [(tid, obs, runnable, verdict)]"""
    ex = Exec(scripts)
    trace = []
    bad = None
    try:
        for tid in schedule:
            if tid not in ex.runnable():
                bad = bad or ("unrunnable", len(trace))
                break
            v = ex.step(tid)
            trace.append((tid, ex.obs(), ex.runnable(), v))
            if v != "ok" and bad is None:
                bad = (v, len(trace))
                break
    finally:
        ex.close()
    return trace, bad


def _fine_run(scripts, prefix, bound, stack):
    """one execution on the real lock with a scheduling point also right AFTER every mutex release (finer than the
    co-simulation, no model involved): replay `prefix`, continue non-preemptively, push the preemption-bounded alternatives.
    Returns the schedule at which a writer was inside together with another thread, or None."""
    casbin = common.use_repo()
    import casbin.util.rwlock as rwmod  # noqa

    sc = S.Sched()
    sc.yield_after_release = True
    undo = S.install(rwmod, sc)
    try:
        lock = rwmod.RWLockWrite()
    finally:
        undo()
    guards = (lock.gen_rlock(), lock.gen_wlock())
    for tid, script in enumerate(scripts):
        c = sc.spawn(tid, _worker, sc, lock, tid, script, guards, False)
        c.info.update(role=script[0] if script else "r", part="idle", round=0)
    sched, cur, used, pos = [], None, len([1 for _ in ()]), 0
    try:
        while True:
            r = sc.runnable_set()
            if not r:
                return None
            if pos < len(prefix):
                tid = prefix[pos][0]
                used = prefix[pos][1]
                if tid not in r:
                    return None
            else:
                tid = cur if cur in r else r[0]
                for alt in r:
                    if alt != tid:
                        cost = 1 if cur in r else 0
                        if used + cost <= bound:
                            stack.append(sched + [(alt, used + cost)])
            sc.step(tid)
            sched.append((tid, used))
            cur = tid
            pos += 1
            inside = [(t, sc.ctl[t].info["role"]) for t in sc.order if sc.ctl[t].info.get("part") == "in" and sc.ctl[t].state[0] not in ("done", "crashed")]
            if len(inside) > 1 and any(role == "w" for _, role in inside):
                return [t for t, _ in sched]
            if any(sc.ctl[t].state[0] == "crashed" for t in sc.order) or len(sched) > 400:
                return None
    finally:
        sc.abort()


def fine_exclusion_stream(res, max_execs):
    """exclusion under instruction-level pre-emption points of the REAL methods (after every mutex release): a writer is
    never inside together with another thread"""
    for scripts in (("w", "w"), ("w", "r"), ("r", "w"), ("ww", "r"), ("w", "w", "r"), ("wr", "w")):
        stack, n = [[]], 0
        while stack and n < max_execs:
            prefix = stack.pop()
            n += 1
            bad = _fine_run(scripts, prefix, 2, stack)
            res.evaluations += 1
            res.count("fine-exclusion-execution")
            if bad is not None:
                res.violation({"signature": "C16:exclusion:fine", "stream": "fine", "scripts": list(scripts), "schedule": bad,
                               "what": f"threads {list(scripts)} on the real RWLockWrite, pre-emption also right after a mutex release: under the schedule {bad} a writer is inside together with another thread",
                               "expected": "writer alone", "observed": "two threads inside"})
                break
        res.nontrivial.add(hash(("fine", scripts)))


def explore(scripts, max_execs, rng_seed=None, exhaustive=True, keep_every=1):
    """all schedules of `scripts` on the real lock, depth-first with state hashing (states equal up to a permutation
    of threads with equal scripts are identified).  With exhaustive=False: `max_execs` random schedules."""
    import random

    seen = set()
    stack = [[]]
    out = {"execs": [], "violations": [], "states": 0, "steps": 0, "max_r": 0, "complete": True}
    rng = random.Random(rng_seed)
    n_exec = 0
    while stack if exhaustive else n_exec < max_execs:
        if n_exec >= max_execs:
            out["complete"] = False
            break
        prefix = stack.pop() if exhaustive else []
        n_exec += 1
        ex = Exec(scripts)
        trace = []
        try:
            # initial state
            if not prefix and exhaustive:
                seen.add(ex.key())
            pos = 0
            while True:
                run = ex.runnable()
                if pos < len(prefix):
                    tid = prefix[pos]
                else:
                    if not run:
                        break
                    if exhaustive:
                        for alt in run[1:]:
                            stack.append(ex.schedule + [alt])
                        tid = run[0]
                    else:
                        tid = rng.choice(run)
                v = ex.step(tid)
                pos += 1
                out["steps"] += 1
                trace.append((tid, ex.obs(), ex.runnable(), v))
                out["max_r"] = max(out["max_r"], len(ex.inside("r")))
                if v != "ok":
                    out["violations"].append({"kind": v, "scripts": list(scripts), "schedule": list(ex.schedule), "observed": ex.obs()})
                    break
                if exhaustive and pos >= len(prefix):
                    k = ex.key()
                    if k in seen:
                        break
                    seen.add(k)
        finally:
            ex.close()
        out["n_execs"] = out.get("n_execs", 0) + 1
        if any(".sleep" in o for _, o, _, _ in trace):
            out["n_slept"] = out.get("n_slept", 0) + 1
        if keep_every == 1 or n_exec % keep_every == 0 or out["violations"]:
            out["execs"].append((list(scripts), trace))  # kept for the step-by-step comparison with the Lean model
    out["states"] = len(seen)
    return out


def _explore_task(args):
    scripts, max_execs, seed, exhaustive = args[:4]
    keep = args[4] if len(args) > 4 else 1
    try:
        return explore(tuple(scripts), max_execs, seed, exhaustive, keep)
    except S.SchedError as e:
        return {"error": str(e), "scripts": list(scripts)}


# ------------------------------------------------------------------ Lean side


def lean_check(res, execs, prog, gen_is_exp):
    """drive every executed schedule through the Lean interpreter and compare step by step"""
    lines = []
    for scripts, trace in execs:
        lines.append("init\t" + prog + "\t" + ";".join(scripts))
        for tid, _, _, _ in trace:
            lines.append(f"run\t{tid}")
            lines.append("enabled")
    ans = run_driver("rwlock", lines, timeout=900)
    base = 0
    import re

    strip = re.compile(r"\.(want|hold|sleep|woken)\.\d+")
    for scripts, trace in execs:
        first = base + 1
        base += 1 + 2 * len(trace)
        for n, (tid, obs, runnable, verdict) in enumerate(trace):
            a, en = ans[first + 2 * n], ans[first + 2 * n + 1]
            m = re.match(r"^model=(.*) spec=(\S+)$", a)
            if not m:
                raise common.Infra("malformed rwlock driver answer: " + a)
            model, spec = m.group(1), m.group(2)
            model_n = strip.sub(lambda mm: "." + mm.group(1), model)
            en_l = [int(x) for x in common.dec_list(en)]
            res.evaluations += 1
            if model_n != obs or sorted(en_l) != sorted(runnable):
                res.disagree(
                    {
                        "what": "real RWLockWrite under the controlled scheduler vs Lean interpreter of the " + ("regenerated" if prog == "gen" else "expected") + " program",
                        "scripts": scripts,
                        "schedule": [t for t, _, _, _ in trace[: n + 1]],
                        "impl": [obs, sorted(runnable)],
                        "model": [model, en_l],
                    }
                )
                break
            if spec != "ok" and (prog == "exp" or gen_is_exp):
                res.model_vs_spec.append({"scripts": scripts, "schedule": [t for t, _, _, _ in trace[: n + 1]], "model": model, "spec": spec})
            if spec != verdict and not (spec == "cinv"):
                # the property evaluated on the model's transition and on the real object's transition differ
                res.disagree({"what": "verdict of the property on the model's and on the real object's transition differ", "scripts": scripts, "schedule": [t for t, _, _, _ in trace[: n + 1]], "impl": verdict, "model": spec})
                break
    res.traces_validated += len(execs)


def bfs_regenerated(res, configs, depth=120):
    """breadth-first search over the REGENERATED program for a shortest violating schedule, replayed on the real object"""
    lines = []
    idx = []
    for scripts in configs:
        for bad in ("excl", "pref", "dead"):
            lines.append("bfs\tgen\t" + ";".join(scripts) + "\t" + bad + "\tmacro\t" + str(depth))
            idx.append((scripts, bad))
    ans = run_driver("rwlock", lines, timeout=900)
    for (scripts, bad), a in zip(idx, ans):
        res.count("bfs:" + ("none" if a == "none" else bad))
        if a.startswith("sched="):
            schedule = [int(x) for x in common.dec_list(a[6:])]
            trace, found = run_schedule(tuple(scripts), schedule)
            if found and found[0] == bad:
                res.violation(
                    {
                        "signature": bad,
                        "what": WHAT[bad] + " (shortest schedule found by breadth-first search over the regenerated lock program, reproduced on the real object)",
                        "scripts": list(scripts),
                        "schedule": schedule[: found[1]],
                        "expected": "ok",
                        "observed": trace[-1][1] if trace else "",
                    }
                )
            else:
                res.disagree({"what": f"regenerated program violates {bad} on a schedule the real object does not", "scripts": list(scripts), "schedule": schedule, "impl": str(found)})


# ------------------------------------------------------------------ configurations


def multisets(n):
    return ["".join(c) for c in itertools.combinations_with_replacement("rw", n)]


def configs_one_round(ns):
    return [tuple(m) for n in ns for m in multisets(n)]


def configs_two_rounds(n):
    scripts = ["rr", "rw", "wr", "ww"]
    return [tuple(c) for c in itertools.combinations_with_replacement(scripts, n)]


def run(ctx):
    res = common.Result()
    tr_err = ctx["info"]["translators"].get("T3")
    prog = "exp" if tr_err else "gen"
    gen_is_exp = False
    if not tr_err:
        gen_is_exp = run_driver("rwlock", ["prog"])[0] == "gen=exp"
    stages = ["quick"] if not ctx["deep"] else (["thorough"] if ctx["proof_ok"] else ["quick", "thorough"])
    for stage in stages:
        _stage(ctx, res, stage, prog, gen_is_exp, tr_err)
        fine_exclusion_stream(res, 600 if stage == "quick" else 6000)
        if res.spec_violations:
            break
    return res


def _stage(ctx, res, stage, prog, gen_is_exp, tr_err):
    rng = ctx["rng"]
    tasks = []
    if stage == "quick":
        for c in configs_one_round([2, 3, 4]):
            tasks.append((c, 400000, None, True))
        for c in configs_two_rounds(2):
            tasks.append((c, 400000, None, True))
        for c in configs_two_rounds(3):
            tasks.append((c, 1200, None, True, 2))
        for c in rng.sample(configs_two_rounds(4), 8):
            tasks.append((c, 60, rng.randrange(1 << 30), False))
        rule = "all schedules (DFS with state hashing, up to thread symmetry) of every mix of 2-4 reader/writer threads x 1 round and of 2 threads x 2 rounds; 3 threads x 2 rounds depth-first up to 1200 executions for each of the 20 programs; 4 threads x 2 rounds: 60 random schedules for 8 of the 35 programs"
    else:
        for c in configs_one_round([2, 3, 4]):
            tasks.append((c, 400000, None, True))
        for c in configs_two_rounds(2):
            tasks.append((c, 400000, None, True))
        for c in configs_two_rounds(3):
            tasks.append((c, 400000, None, True))
        for c in configs_two_rounds(4):
            tasks.append((c, 14000, None, True, 10))
        for c in configs_two_rounds(4):
            tasks.append((c, 100, rng.randrange(1 << 30), False))
        rule = "all schedules (DFS with state hashing, up to thread symmetry) of every mix of 2-4 threads x 1 round, of 2-3 threads x 2 rounds and (up to 14000 executions per program) of 4 threads x 2 rounds (35 programs; one execution in ten co-simulated with the Lean model, all judged directly), plus 100 random schedules for each 4 x 2 program"
    res.rule = rule + "; every executed schedule co-simulated step by step with the Lean interpreter of the regenerated instruction lists; non-trivial = executions in which some thread slept in wait() (distinct by program + schedule)"
    tasks.sort(key=lambda t: -(len(t[0]) * max(len(x) for x in t[0])) if t[3] else 0)  # big explorations first
    with mp.Pool(min(15, len(tasks))) as pool:
        outs = pool.map(_explore_task, tasks, chunksize=1)
    all_execs = []
    found = []
    exhaustive_all = True
    for task, out in zip(tasks, outs):
        scripts, exhaustive = task[0], task[3]
        if "error" in out:
            raise common.Infra("controlled scheduler: " + out["error"] + " in program " + ";".join(out["scripts"]))
        res.count("program:" + ";".join(scripts), out.get("n_execs", 0))
        res.count("threads:" + str(len(scripts)) + "x" + str(max(len(x) for x in scripts)), out.get("n_execs", 0))
        res.count("executions", out.get("n_execs", 0))
        res.count("executions_with_a_sleeping_thread", out.get("n_slept", 0))
        res.count("steps", out["steps"])
        if exhaustive:
            res.count("distinct_states", out["states"])
            if not out["complete"]:
                exhaustive_all = False
                res.count("truncated_programs")
        for scripts_l, trace in out["execs"]:
            if any(".sleep" in o for _, o, _, _ in trace):
                res.nontrivial.add(hash((tuple(scripts_l), tuple(t for t, _, _, _ in trace))))
            for _, _, _, v in trace:
                res.count("verdict:" + v)
        if len(res.samples) < 4 and out["execs"]:
            sl, trace = out["execs"][len(out["execs"]) // 2]
            res.sample({"program": sl, "schedule": [t for t, _, _, _ in trace], "final": trace[-1][1] if trace else ""})
        for v in out["violations"]:
            found.append(
                {
                    "signature": v["kind"],
                    "what": WHAT[v["kind"]] + f" (threads {';'.join(v['scripts'])}, schedule {v['schedule']})",
                    "scripts": v["scripts"],
                    "schedule": v["schedule"],
                    "expected": "ok",
                    "observed": v["observed"],
                }
            )
        n_r = sum(1 for s in scripts if s == "r")
        if exhaustive and out["complete"] and not out["violations"] and all(len(s) == 1 for s in scripts) and n_r >= 2 and out["max_r"] < n_r:
            res.violation(
                {
                    "signature": "share",
                    "what": WHAT["share"] + f": in no schedule of {';'.join(scripts)} were {n_r} readers inside together (max {out['max_r']})",
                    "scripts": list(scripts),
                    "schedule": [],
                    "expected": n_r,
                    "observed": out["max_r"],
                }
            )
        all_execs += out["execs"]
        out["execs"] = None
    # report the shortest schedule of the smallest program first (main.py keeps the first violation per signature)
    found.sort(key=lambda v: (len(v["schedule"]), sum(len(x) for x in v["scripts"])))
    for v in found:
        res.violation(v)
    res.exhaustive = exhaustive_all
    lean_check(res, all_execs, prog, gen_is_exp)
    if not tr_err and not gen_is_exp:
        # the source changed and still translates: shortest violating schedule of the REGENERATED program by
        # breadth-first search in the Lean driver, replayed on the real object (listed before the DFS findings of equal length)
        bfs_regenerated(res, [t[0] for t in tasks if all(len(s) == 1 for s in t[0]) and len(t[0]) <= 3])
    # keep the shortest schedule per signature first
    res.spec_violations.sort(key=lambda v: len(v.get("schedule", [])))


def replay(obj):
    if obj.get("stream") == "fine":
        prefix = [(t, 0) for t in obj["schedule"]]
        return _fine_run(tuple(obj["scripts"]), prefix, 10 ** 6, []) is not None
    scripts = tuple(obj["scripts"])
    if obj.get("signature") == "share":
        out = explore(scripts, 200000, None, True)
        return out["max_r"] < sum(1 for s in scripts if s == "r")
    trace, bad = run_schedule(scripts, obj["schedule"])
    if bad is not None and bad[0] == "unrunnable":
        print("  the recorded schedule is no longer possible on this tree (a scheduled thread is not runnable)")
    for t, o, run, v in trace:
        print(f"  step thread {t}: {o}  runnable={run}  {v}")
    return bad is not None and bad[0] == obj.get("signature")
