"""C07 — priority models keep rules in priority order and the best-priority match decides"""
import itertools

import common
import policy_corr as pc

TRANSLATORS = []
LEVEL = "proof"
ASSUMPTIONS = [
    "priorities are decimal integers: ASCII digits with an optional leading '-' (where int and Lean's Int agree); other strings follow Python's mixed-type comparison and are outside the property",
    "the enforcer has loaded its policy through an adapter (priority_index is computed by load_policy)",
    "subject-priority (hierarchy) ordering: see level text",
]
TRUSTED_EXTRA = []

PRIOS = ["1", "2", "10"]
REQ = ["alice", "data1", "read"]


def rule(p, eft, sub="alice"):
    return [p, sub, "data1", "read", eft]


MATCHING = [rule(p, e) for p in PRIOS for e in ("allow", "deny")] + [rule("1", "audit")]  # a matching rule with an effect that never decides
OTHER = [rule("2", "allow", "bob"), rule("1", "deny", "bob")]
UNIVERSE = MATCHING + OTHER
# negative priorities are numeric priorities too ("-10" < "-1" < "2"; as strings "-1" < "-10", and "-1" vs 2 does not compare)
NEG_PRIOS = ["-1", "-10", "2"]
UNIVERSE_NEG = [rule(p, e) for p in NEG_PRIOS for e in ("allow", "deny")] + [rule("-1", "deny", "bob")]


def gen(ctx, deep):
    return _gen(ctx, deep, UNIVERSE, "", 150, 400) + _gen(ctx, deep, UNIVERSE_NEG, "-neg", 25, 120)


def _gen(ctx, deep, UNIVERSE, tag, nbig_quick, nbig_deep):
    """tag: '' for the priorities 1, 2, 10; '-neg' for the universe with negative priorities (own shape names and signatures)"""
    rng = ctx["rng"]
    shapes_hists = []
    maxinit = 3 if not deep else 4
    inits = [[]]
    for n in range(1, maxinit + 1):
        inits += [list(c) for c in itertools.permutations(UNIVERSE, n)]
    if not deep:
        # all of length <= 2, a seeded sample of length 3
        small = [i for i in inits if len(i) <= 2]
        big = [i for i in inits if len(i) > 2]
        inits = small + rng.sample(big, nbig_quick)
    else:
        small = [i for i in inits if len(i) <= 3]
        big = [i for i in inits if len(i) > 3]
        inits = small + rng.sample(big, nbig_deep)
    reads = [("get", "p", "p"), ("enforce", "p", "p", REQ), ("enforce", "p", "p", ["bob", "data1", "read"])]
    for init in inits:
        absent = [r for r in UNIVERSE if r not in init]
        ops = []
        for r in absent[:5]:
            ops.append(("add", "p", "p", r))
        for a, b in itertools.permutations(absent[:4], 2):
            ops.append(("addmany", "p", "p", [a, b]))
        if absent:
            ops.append(("addmany", "p", "p", [absent[0], absent[0]]))
        for r in init:
            ops.append(("remove", "p", "p", r))
            flipped = r[:4] + ["deny" if r[4] == "allow" else "allow"]
            ops.append(("update", "p", "p", r, flipped))
            ops.append(("update", "p", "p", r, ["7"] + r[1:]))
        if len(init) >= 2:
            ops.append(("removemany", "p", "p", [init[0], init[-1]]))
            ops.append(("updatemany", "p", "p", [init[0], init[1]], [init[0][:4] + ["maybe"], ["7"] + init[1][1:]]))
        ops.append(("removefiltered", "p", "p", 1, ["bob"]))
        # environment of the ordering: an explicit clear, a reload from the (mirrored) store, the auto-build flag off and on
        env = [("clearall", "p", "p"), ("reload", "p", "p"), ("autobuild", "p", "p", False), ("autobuild", "p", "p", True)]
        hists = [pc.interleave_reads([], reads)] if False else []
        for o in env:
            for b in ops[:6]:
                hists.append(pc.interleave_reads([o, b], reads))
        hists.append(pc.interleave_reads([("autobuild", "p", "p", False), ("reload", "p", "p")] + ops[:2], reads))
        hists.append(pc.interleave_reads([("clearall", "p", "p")] + [("add", "p", "p", r) for r in (UNIVERSE[4], UNIVERSE[0], UNIVERSE[2])], reads))
        ops = ops + env
        hists.append(list(reads))
        for o in ops:
            hists.append(pc.interleave_reads([o], reads))
        # directed triples: an ordered insertion, a removal (single / filtered) of a rule standing before it, another
        # insertion with a priority already present (positions remembered from before the removal must not be reused)
        if init:
            for r1 in absent[:3]:
                for rm in (("removefiltered", "p", "p", 1, ["bob"]), ("removefiltered", "p", "p", 1, ["alice"]), ("remove", "p", "p", init[0])):
                    for r2 in absent[:4]:
                        if r2 != r1:
                            hists.append(pc.interleave_reads([("add", "p", "p", r1), rm, ("add", "p", "p", r2)], reads[:2]))
        nseq = 6 if not deep else 20
        for _ in range(nseq):
            h = [rng.choice(ops + [("add", "p", "p", r) for r in init]) for _ in range(rng.randint(2, 5))]
            hists.append(pc.interleave_reads(h, reads))
        shape = pc.Shape(f"prio{tag}/enforcer", pc.PRIO, "p", "p", UNIVERSE, pi=0, pt=0, initial=init)
        shape.sigtag = ":negative" if tag else ""
        shapes_hists.append((shape, hists))
        if len(init) >= 2 and (deep or rng.random() < 0.15):
            # the same histories on the SECOND policy definition of a model whose first one has no priority field
            def p2(o):
                return (o[0], "p", "p2") + tuple(o[3:])

            shape2 = pc.Shape(f"prio2{tag}/enforcer", pc.PRIO2, "p", "p2", UNIVERSE, pi=0, pt=0, initial=init)
            shape2.sigtag = ":negative" if tag else ""
            shapes_hists.append((shape2, [[p2(o) for o in h] for h in hists[:: 1 if deep else 3]]))
        if len(init) >= 2 and (deep or rng.random() < 0.15):
            # the same histories on a model whose priority field is the LAST one (p = sub, obj, act, eft, priority)
            def mv(r):
                return list(r[1:]) + [r[0]]

            def last(o):
                if o[0] in ("add", "remove"):
                    return o[:3] + (mv(o[3]),)
                if o[0] in ("addmany", "removemany"):
                    return o[:3] + ([mv(r) for r in o[3]],)
                if o[0] == "update":
                    return o[:3] + (mv(o[3]), mv(o[4]))
                if o[0] == "updatemany":
                    return o[:3] + ([mv(r) for r in o[3]], [mv(r) for r in o[4]])
                if o[0] == "removefiltered":
                    return o[:3] + (o[3] - 1,) + tuple(o[4:])
                return o

            shape3 = pc.Shape(f"prio-last{tag}/enforcer", pc.PRIO_LAST, "p", "p", [mv(r) for r in UNIVERSE], pi=4, pt=4, initial=[mv(r) for r in init])
            shape3.sigtag = ":negative" if tag else ""
            shapes_hists.append((shape3, [[last(o) for o in h] for h in hists[:: 1 if deep else 3]]))
    return shapes_hists


SUBJ = """[request_definition]
r = sub, obj, act
[policy_definition]
p = sub, obj, act, eft
[role_definition]
g = _, _
[policy_effect]
e = subjectPriority(p_eft) || deny
[matchers]
m = g(r.sub, p.sub) && r.obj == p.obj && r.act == p.act
"""
SUBJ_DOM = """[request_definition]
r = sub, obj, dom, act
[policy_definition]
p = sub, obj, dom, act, eft
[role_definition]
g = _, _, _
[policy_effect]
e = subjectPriority(p_eft) || deny
[matchers]
m = g(r.sub, p.sub, r.dom) && r.dom == p.dom && r.obj == p.obj && r.act == p.act
"""
SNAMES = ["a", "b", "c", "d"]
FILTERED_MODES = ["filtered", "filtered-inc", "filtered-async", "filtered-inc-async"]


def _reach(g, x):
    seen, todo = set(), [x]
    while todo:
        n = todo.pop()
        for c, pa in g:
            if c == n and pa not in seen:
                seen.add(pa)
                todo.append(pa)
    return seen


def renamed(text):
    """the same model with other field names (the subject is the first field whatever it is called)"""
    return text.replace("p = sub, obj,", "p = who, what,").replace("p.sub", "p.who").replace("p.obj", "p.what")


def _subject_case(args):
    """one subject-priority policy through the real enforcer: stored order, decisions, or the exception"""
    g, p, dom = args[:3]
    bulk = len(args) > 3 and args[3]
    casbin = common.use_repo()
    text = SUBJ_DOM if dom else SUBJ
    if len(args) > 4 and args[4]:
        text = renamed(text)
    m = casbin.Enforcer.new_model(text=text)
    rules = [("g", "g", r) for r in g] + [("p", "p", r) for r in p]
    ad = pc.make_adapter(casbin, rules)
    tmpd = None
    try:
        if bulk in ("filtered", "filtered-inc", "filtered-async", "filtered-inc-async"):
            # the same policy in a file, loaded through the bundled FilteredFileAdapter: one filtered load selecting every
            # permission rule (all are on data1), or the role assignments first and the permission rules incrementally
            e, tmpd = _filtered_enforcer(casbin, m, [["g"] + list(r) for r in g] + [["p"] + list(r) for r in p], bulk.endswith("-async"))
            if bulk.startswith("filtered-inc"):
                _fload(e, "loadf", ["", "no-such-object"], [])
                _fload(e, "loadinc", ["", "data1"], ["no-such-subject"])
            else:
                _fload(e, "loadf", ["", "data1"], [])
        elif bulk:
            # the bulk-load pattern: automatic link building off, load, then one explicit build_role_links
            e = casbin.Enforcer(m)
            e.enable_auto_build_role_links(False)
            e.set_adapter(ad)
            e.load_policy()
            e.build_role_links()
        else:
            e = casbin.Enforcer(m, ad)
    except Exception as ex:  # noqa
        return {"error": "!cycle" if "cycle dependency" in str(ex) else f"!other:{type(ex).__name__}:{str(ex)[:60]}"}
    finally:
        if tmpd:
            import shutil

            shutil.rmtree(tmpd, ignore_errors=True)
    order = [list(r) for r in e.get_policy()]
    dec = {}
    for x in SNAMES:
        req = [x, "data1", "d1", "read"] if dom else [x, "data1", "read"]
        try:
            dec[x] = bool(e.enforce(*req))
        except Exception as ex:  # noqa
            dec[x] = f"!{type(ex).__name__}"
    return {"order": order, "dec": dec}


def _filtered_enforcer(casbin, m, lines, is_async):
    """Enforcer / AsyncEnforcer over a FilteredFileAdapter on a temp file holding `lines` (nothing is loaded yet)"""
    import os
    import tempfile

    from casbin.persist.adapters import FilteredFileAdapter

    d = tempfile.mkdtemp(prefix="c07f_")
    path = os.path.join(d, "policy.csv")
    with open(path, "w") as f:
        f.write("\n".join(", ".join(r) for r in lines) + "\n")
    inner = FilteredFileAdapter(path)
    if not is_async:
        return casbin.Enforcer(m, inner), d
    from casbin.persist.adapters.asyncio import AsyncAdapter

    class AsyncFiltered(AsyncAdapter):
        def __init__(self, inner):
            self.inner = inner

        def is_filtered(self):
            return self.inner.is_filtered()

        async def load_policy(self, model):
            return self.inner.load_policy(model)

        async def load_filtered_policy(self, model, filter):
            return self.inner.load_filtered_policy(model, filter)

        async def save_policy(self, model):
            return self.inner.save_policy(model)

        async def add_policy(self, sec, ptype, rule):
            pass

        async def remove_policy(self, sec, ptype, rule):
            pass

        async def remove_filtered_policy(self, sec, ptype, field_index, *field_values):
            pass

    return casbin.AsyncEnforcer(m, AsyncFiltered(inner)), d


def _fload(e, kind, fp, fg):
    import asyncio

    import enf_corr as ec
    from casbin.persist.adapters.filtered_file_adapter import Filter

    flt = Filter()
    flt.P, flt.G = list(fp), list(fg)
    r = (e.load_filtered_policy if kind == "loadf" else e.load_increment_filtered_policy)(flt)
    if asyncio.iscoroutine(r):
        ec.run_async(r)


def run_subject(ctx, res, deep):
    """subject priority: all rooted forests on 4 subjects (and sampled DAGs / cycles) x effect assignments x arrival orders"""
    import multiprocessing as mp

    rng = ctx["rng"]
    forests = []
    for parents in itertools.product([None] + SNAMES, repeat=4):
        g = [[SNAMES[i], pa] for i, pa in enumerate(parents) if pa is not None and pa != SNAMES[i]]
        if any(pa == SNAMES[i] for i, pa in enumerate(parents)):
            continue
        forests.append(g)  # includes cyclic parent functions: the load must raise
    dags = []
    for _ in range(60 if not deep else 600):
        edges = [[a, b] for a in SNAMES for b in SNAMES if a < b and rng.random() < 0.45]
        rng.shuffle(edges)
        dags.append(edges)
    cases = []
    for g in forests + dags:
        efts = [rng.choice(["allow", "deny"]) for _ in SNAMES] if not deep else None
        eft_sets = [efts] if efts else [list(x) for x in itertools.product(["allow", "deny"], repeat=4)][:: 3]
        for ef in eft_sets:
            for dom in (False, True) if (deep or rng.random() < 0.3) else (False,):
                if dom:
                    p = [[s, "data1", "d1", "read", e] for s, e in zip(SNAMES, ef)]
                    gg = [r + ["d1"] for r in g]
                else:
                    p = [[s, "data1", "read", e] for s, e in zip(SNAMES, ef)]
                    gg = [list(r) for r in g]
                p = p + [[p[0][0]] + p[0][1:-1] + ["deny" if p[0][-1] == "allow" else "allow"]]  # same subject twice: arrival order among equals
                rng.shuffle(p)
                cases.append((gg, p, dom))
                if len(cases) % 5 == 0:
                    cases.append((gg, p, dom, True))
                if len(cases) % 7 == 0:
                    cases.append((gg, p, dom, False, True))  # field names other than sub / obj
                if len(cases) % 4 == 1:
                    # "after loading" includes the filtered loads (sync and async twins have their own code)
                    cases.append((gg, p, dom, FILTERED_MODES[len(cases) // 4 % 4]))
    # deep hierarchies: the level of a subject is not bounded by the role manager's depth bound
    global SNAMES_DEEP
    for depth in (9, 10, 11, 12, 14):
        names = [f"s{i}" for i in range(depth + 1)]
        g = [[names[i], names[i + 1]] for i in range(depth)]
        rng.shuffle(g)
        for hi in (depth, depth - 1):
            # the ancestor's rule arrives first, the descendant's effect is the opposite one
            p = [[names[hi], "data1", "read", "deny"], [names[hi - 1], "data1", "read", "allow"], [names[0], "data1", "read", "deny"], [names[hi - 2], "data1", "read", "deny"]]
            cases.append((g, p, False))
            cases.append((g, p, False, True))
            cases.append((g, p, False, FILTERED_MODES[(depth + hi) % 4]))
    with mp.Pool(12) as pool:
        outs = pool.map(_subject_case, cases, chunksize=32)
    lines = []
    for g, p, dom in [c[:3] for c in cases]:
        lines += ["#reset", "\t".join(["set", "p:p", common.enc_rules(p)]), "\t".join(["sortsubj", "p:p", "2" if dom else "-", common.enc_rules(g)])]
    answers = common.run_driver("policy", lines)
    for k, (cfull, out) in enumerate(zip(cases, outs)):
        g, p, dom = cfull[:3]
        ans = answers[3 * k + 2]
        model, _ = common.parse_ms(ans)
        mres, mpol = model.split("@", 1)
        res.evaluations += 1
        res.count("subject:" + ("cycle" if mres == "!cycle" else "sorted"))
        res.nontrivial.add(hash(("subj", repr(g), repr(p))))
        ren = len(cfull) > 4 and cfull[4]
        mode = cfull[3] if len(cfull) > 3 else False
        case = {"shape": "subject-priority" + ("-dom" if dom else ""), "g": g, "p": p, "bulk": mode, "renamed": ren}
        res.count("subject-load:" + (("bulk" if mode is True else mode) if mode else "constructor") + (":renamed-fields" if ren else ""))
        ftag = (":" + mode.replace("-async", "")) if isinstance(mode, str) else ""  # filtered / filtered-inc (the twins share a signature)
        if mres == "!fuel":
            raise common.Infra("hierarchyLoop ran out of fuel")
        if "error" in out:
            if out["error"] != mres:
                res.disagree({"what": f"subject priority load: impl {out['error']} vs model {mres}", "case": case})
            if mres != "!cycle":
                res.violation({"signature": "C07:subject:load-raises" + ftag, "what": f"loading the acyclic hierarchy {g} raised {out['error']}", "case": case, "expected": "loads", "observed": out["error"], "model_text": SUBJ_DOM if dom else SUBJ, "kind_of_case": "subject"})
            continue
        if mres == "!cycle":
            res.disagree({"what": f"subject priority load: impl loaded a cyclic hierarchy {g}, the model raises", "case": case})
            continue
        order = out["order"]
        if common.enc_rules(order) != mpol:
            res.disagree({"what": f"subject priority order: impl {order} vs model {common.dec_rules(mpol)}", "case": case})
        # the property, directly: no rule of an ancestor before a rule of its descendant
        edges = [(r[0], r[1]) for r in g]
        bad = None
        for i, r2 in enumerate(order):
            for r1 in order[i + 1 :]:
                if r2[0] in _reach(edges, r1[0]):
                    bad = (r2, r1)
                    break
            if bad:
                break
        if bad:
            res.violation({"signature": "C07:subject:ancestor-first" + ftag, "what": f"subject priority: with assignments {g} the rule {bad[0]} of an inherited role is stored before the rule {bad[1]} of the more specific subject", "case": case, "expected": "subject before its ancestors", "observed": order, "model_text": SUBJ_DOM if dom else SUBJ, "kind_of_case": "subject"})
            continue
        # the more specific subject wins: first definite match in the stored order decides (C01)
        for x in SNAMES:
            if not any(r[0] in SNAMES for r in p):
                break  # deep-chain cases use other names; the ordering check above is what judges them
            anc = _reach(edges, x) | {x}
            exp = False
            for r in order:
                if r[0] in anc and r[-1] in ("allow", "deny"):
                    exp = r[-1] == "allow"
                    break
            if out["dec"][x] != exp:
                res.violation({"signature": "C07:subject:decision" + ftag, "what": f"subject priority: assignments {g}, stored order {order}: enforce({x}, data1, read) = {out['dec'][x]}, the first definite matching rule gives {exp}", "case": case, "expected": exp, "observed": out["dec"][x], "model_text": SUBJ_DOM if dom else SUBJ, "kind_of_case": "subject"})
                break
    res.sample({"subject_priority_case": {"g": cases[len(cases) // 2][0], "p": cases[len(cases) // 2][1]}})


# ------------------------------------------------------------------ explicit priority: filtered and incremental loads


def _fmatch(rule, fp):
    return all(v == "" or (i < len(rule) and rule[i] == v) for i, v in enumerate(fp))


def _prio_filtered_case(args):
    """rows of a policy file, a sequence of load_filtered_policy / load_increment_filtered_policy calls with DISJOINT
    selections (the loader appends what it is given; repeated rows are C06/C12's business): stored order and two
    decisions after every load"""
    rows, steps, is_async = args
    casbin = common.use_repo()
    m = casbin.Enforcer.new_model(text=pc.PRIO)
    e, tmpd = _filtered_enforcer(casbin, m, [["p"] + list(r) for r in rows], is_async)
    out = []
    try:
        for kind, fp in steps:
            try:
                _fload(e, kind, fp, [])
                ret = "ok"
            except Exception as ex:  # noqa
                ret = "!" + type(ex).__name__
            dec = []
            for req in (REQ, ["bob", "data1", "read"]):
                try:
                    dec.append("T" if e.enforce(*req) else "F")
                except Exception as ex:  # noqa
                    dec.append("!" + type(ex).__name__)
            out.append({"ret": ret, "order": [list(r) for r in e.get_policy()], "dec": dec})
    finally:
        import shutil

        shutil.rmtree(tmpd, ignore_errors=True)
    return out


def _prio_filtered_expect(rows, steps):
    """what the property demands: after every load the stored rules are the stable sort, by numeric priority, of their
    arrival order (what was held, then what the load brought in file order); the first definite match decides"""
    mem, out = [], []
    for kind, fp in steps:
        sel = [list(r) for r in rows if _fmatch(r, fp)]
        arrival = sel if kind == "loadf" else mem + sel
        mem = sorted(arrival, key=lambda r: int(r[0]))
        shape = pc.Shape("prio-filtered", pc.PRIO, "p", "p", UNIVERSE, pi=0, pt=0)
        out.append({"arrival": arrival, "order": mem, "dec": [pc.first_match_decision(mem, req, shape) for req in (REQ, ["bob", "data1", "read"])]})
    return out


def run_prio_filtered(ctx, res, deep):
    import multiprocessing as mp

    rng = ctx["rng"]
    cases = []

    def schemes(rows):
        prios = sorted({r[0] for r in rows}, key=int)
        subs = sorted({r[1] for r in rows})
        out = []
        for vals, mk in ((prios, lambda v: [v]), (subs, lambda v: ["", v])):
            for perm in itertools.permutations(vals):
                out.append([("loadf", mk(perm[0]))] + [("loadinc", mk(v)) for v in perm[1:]])
        out.append([("loadf", ["", "", "data1"])])  # one filtered load selecting everything
        return out

    for a, b in itertools.permutations(UNIVERSE, 2):
        for st in schemes([a, b]):
            cases.append(([a, b], st, False))
    for _ in range(250 if not deep else 2500):
        rows = rng.sample(UNIVERSE, rng.randint(3, 6))
        st = rng.choice(schemes(rows))
        cases.append((rows, st, rng.random() < 0.4))
    with mp.Pool(12) as pool:
        outs = pool.map(_prio_filtered_case, cases, chunksize=16)
    # the Lean model's load sort over the same arrival orders
    lines, exps = [], []
    for rows, steps, _ in cases:
        ex = _prio_filtered_expect(rows, steps)
        exps.append(ex)
        for x in ex:
            lines += ["#reset", "\t".join(["set", "p:p", common.enc_rules(x["arrival"])]), "\t".join(["sortprio", "p:p", "0"])]
    answers = common.run_driver("policy", lines)
    k0 = 0
    for (rows, steps, is_async), out, ex in zip(cases, outs, exps):
        res.nontrivial.add(hash(("prio-filtered", repr(rows), repr(steps), is_async)))
        base, k0 = k0, k0 + len(steps)
        for i, ((kind, fp), o, x) in enumerate(zip(steps, out, ex)):
            model, _ = common.parse_ms(answers[3 * (base + i) + 2])
            mpol = model.split("@", 1)[1]
            res.evaluations += 1
            res.count("filtered-load:" + kind + (":async" if is_async else ""))
            case = {"rows": rows, "steps": [list(s) for s in steps[: i + 1]], "async": is_async}
            if common.enc_rules(x["order"]) != mpol:
                res.model_vs_spec.append({"case": case, "model": mpol, "spec": common.enc_rules(x["order"])})
            if common.enc_rules(o["order"]) != mpol:
                res.disagree({"what": f"{kind}: stored order {o['order']} differs from Model/Policy.lean sortByPriority {common.dec_rules(mpol)}", "case": case})
            bad = None
            if o["ret"] != "ok":
                bad, what = "raises", f"raised {o['ret']}"
            elif o["order"] != x["order"]:
                bad, what = "order", f"stored {[r[0] + '/' + r[1] for r in o['order']]}, ascending stable priority order is {[r[0] + '/' + r[1] for r in x['order']]}"
            elif o["dec"] != x["dec"]:
                bad, what = "decision", f"decisions {o['dec']}, the first definite match in priority order gives {x['dec']}"
            if bad:
                res.violation({"signature": f"C07:{kind}:{bad}", "kind_of_case": "prio-filtered", "what": f"explicit-priority model, file rows {rows}, {'AsyncEnforcer' if is_async else 'Enforcer'} over FilteredFileAdapter, loads {[list(s) for s in steps[: i + 1]]}: {what}",
                               "case": case, "expected": [x["order"], x["dec"]], "observed": [o["ret"], o["order"], o["dec"]], "model_text": pc.PRIO})
                break
    res.sample({"prio_filtered_case": {"rows": cases[len(cases) // 2][0], "steps": cases[len(cases) // 2][1]}})


def run(ctx):
    res = common.Result()
    stages = [False] if not ctx["deep"] else ([True] if ctx["proof_ok"] else [False, True])
    for deep in stages:
        items = gen(ctx, deep)
        run_many(res, items)
        run_subject(ctx, res, deep)
        run_prio_filtered(ctx, res, deep)
        if res.spec_violations:
            break
    res.rule = (
        "initial policies = every arrival order of <= 2 (thorough: 3) distinct rules drawn from 6 matching rules (priorities 1, 2, 10 x allow/deny) "
        "and 2 non-matching ones, plus a seeded sample of longer ones, loaded through an adapter; then every single add, batch add (ordered pairs, "
        "repeated rule), remove, batch remove, same-priority and priority-changing update, batch update, filtered removal, and random sequences "
        "of 2-5 of them; after every call the stored order (get_policy) and two decisions are compared with the Lean model and with the "
        "specification (stable sort of the arrival order; first definite match decides); subject priority: all 625 parent functions on 4 subjects "
        "(125 rooted forests + the cyclic ones, which must raise) and sampled DAGs x effect assignments x shuffled arrival orders, with and without "
        "domains: stored order vs model, no ancestor's rule before a descendant's, decisions vs first definite match; the same histories over a rule universe with NEGATIVE priorities (-1, -10, 2); the filtered loads: "
        "explicit priority - policy files (all ordered pairs + random 3-6 rows) read through FilteredFileAdapter by load_filtered_policy + "
        "load_increment_filtered_policy with disjoint selections (by priority value, by subject, in every order), Enforcer and AsyncEnforcer, stored "
        "order and decisions after every load; subject priority - a quarter of the cases also through one filtered load / role assignments first "
        "then the permission rules incrementally, sync and async; non-trivial = history with a mutating call / a policy"
    )
    res.exhaustive = True
    return res


def run_many(res, items):
    """batch all shapes through one driver call and a process pool"""
    import multiprocessing as mp

    lines = []
    spans = []
    jobs = []
    for shape, hists in items:
        for h in hists:
            ll = pc.lean_history(shape, h)
            skip = len(ll) - len(h)
            spans.append((len(lines) + skip, len(lines) + len(ll)))
            lines.extend(ll)
            jobs.append((shape, h))
    answers = common.run_driver("policy", lines)
    chunk = max(1, len(jobs) // 64)
    groups = [jobs[i : i + chunk] for i in range(0, len(jobs), chunk)]
    with mp.Pool(12) as pool:
        outs = pool.map(_work, groups)
    impls = [x for o in outs for x in o]
    for (shape, h), impl, (a, b) in zip(jobs, impls, spans):
        pc.compare("C07", res, shape, h, impl, answers[a:b], "order")
        if any(op[0] in pc.MUTATORS for op in h):
            res.nontrivial.add(hash((repr(shape.initial), repr(h))))
    for k in (0, len(jobs) // 2, len(jobs) - 1):
        res.sample({"initial": jobs[k][0].initial, "history": jobs[k][1][:5]})


def _work(group):
    return [pc.run_history(shape, h, 0) for shape, h in group]


def replay(obj):
    if obj.get("kind_of_case") == "prio-filtered":
        c = obj["case"]
        steps = [(s[0], s[1]) for s in c["steps"]]
        o = _prio_filtered_case((c["rows"], steps, c["async"]))[-1]
        return [o["order"], o["dec"]] != obj["expected"] or o["ret"] != "ok"
    if obj.get("kind_of_case") == "subject":
        c = obj["case"]
        out = _subject_case((c["g"], c["p"], c["shape"].endswith("-dom"), c.get("bulk", False), c.get("renamed", False)))
        if "error" in out:
            return obj.get("expected") == "loads"
        edges = [(r[0], r[1]) for r in c["g"]]
        order = out["order"]
        for i, r2 in enumerate(order):
            for r1 in order[i + 1 :]:
                if r2[0] in _reach(edges, r1[0]):
                    return True
        for x in SNAMES:
            anc = _reach(edges, x) | {x}
            exp = False
            for r in order:
                if r[0] in anc and r[-1] in ("allow", "deny"):
                    exp = r[-1] == "allow"
                    break
            if out["dec"][x] != exp:
                return True
        return False
    return pc.replay(obj)
