"""C07 — priority models keep rules in priority order and the best-priority match decides"""
import itertools

import common
import policy_corr as pc

TRANSLATORS = []
LEVEL = "proof"
ASSUMPTIONS = [
    "priorities are non-empty ASCII digit strings (where str.isdigit, int and Nat agree); other strings follow Python's mixed-type comparison and are outside the property",
    "the enforcer has loaded its policy through an adapter (priority_index is computed by load_policy)",
    "subject-priority (hierarchy) ordering: see level text",
]
TRUSTED_EXTRA = []

PRIOS = ["1", "2", "10"]
REQ = ["alice", "data1", "read"]


def rule(p, eft, sub="alice"):
    return [p, sub, "data1", "read", eft]


MATCHING = [rule(p, e) for p in PRIOS for e in ("allow", "deny")]
OTHER = [rule("2", "allow", "bob"), rule("1", "deny", "bob")]
UNIVERSE = MATCHING + OTHER


def gen(ctx, deep):
    rng = ctx["rng"]
    shapes_hists = []
    maxinit = 3 if not deep else 4
    inits = [[]]
    for n in range(1, maxinit + 1):
        inits += [list(c) for c in itertools.permutations(UNIVERSE, n)]
    if not deep:
        # all of length <= 2, a seeded sample of length 3
        small = [i for i in inits if len(i) <= 2]
        big = [i for i in inits if len(i) > 2]
        inits = small + rng.sample(big, 150)
    else:
        small = [i for i in inits if len(i) <= 3]
        big = [i for i in inits if len(i) > 3]
        inits = small + rng.sample(big, 400)
    reads = [("get", "p", "p"), ("enforce", "p", "p", REQ), ("enforce", "p", "p", ["bob", "data1", "read"])]
    for init in inits:
        absent = [r for r in UNIVERSE if r not in init]
        ops = []
        for r in absent[:5]:
            ops.append(("add", "p", "p", r))
        for a, b in itertools.permutations(absent[:4], 2):
            ops.append(("addmany", "p", "p", [a, b]))
        if absent:
            ops.append(("addmany", "p", "p", [absent[0], absent[0]]))
        for r in init:
            ops.append(("remove", "p", "p", r))
            flipped = r[:4] + ["deny" if r[4] == "allow" else "allow"]
            ops.append(("update", "p", "p", r, flipped))
            ops.append(("update", "p", "p", r, ["7"] + r[1:]))
        if len(init) >= 2:
            ops.append(("removemany", "p", "p", [init[0], init[-1]]))
            ops.append(("updatemany", "p", "p", [init[0], init[1]], [init[0][:4] + ["maybe"], ["7"] + init[1][1:]]))
        ops.append(("removefiltered", "p", "p", 1, ["bob"]))
        hists = [pc.interleave_reads([], reads)] if False else []
        hists.append(list(reads))
        for o in ops:
            hists.append(pc.interleave_reads([o], reads))
        nseq = 6 if not deep else 20
        for _ in range(nseq):
            h = [rng.choice(ops + [("add", "p", "p", r) for r in init]) for _ in range(rng.randint(2, 5))]
            hists.append(pc.interleave_reads(h, reads))
        shape = pc.Shape("prio/enforcer", pc.PRIO, "p", "p", UNIVERSE, pi=0, pt=0, initial=init)
        shapes_hists.append((shape, hists))
    return shapes_hists


def run(ctx):
    res = common.Result()
    stages = [False] if not ctx["deep"] else ([True] if ctx["proof_ok"] else [False, True])
    for deep in stages:
        items = gen(ctx, deep)
        run_many(res, items)
        if res.spec_violations:
            break
    res.rule = (
        "initial policies = every arrival order of <= 2 (thorough: 3) distinct rules drawn from 6 matching rules (priorities 1, 2, 10 x allow/deny) "
        "and 2 non-matching ones, plus a seeded sample of longer ones, loaded through an adapter; then every single add, batch add (ordered pairs, "
        "repeated rule), remove, batch remove, same-priority and priority-changing update, batch update, filtered removal, and random sequences "
        "of 2-5 of them; after every call the stored order (get_policy) and two decisions are compared with the Lean model and with the "
        "specification (stable sort of the arrival order; first definite match decides); non-trivial = history with a mutating call"
    )
    res.exhaustive = True
    return res


def run_many(res, items):
    """batch all shapes through one driver call and a process pool"""
    import multiprocessing as mp

    lines = []
    spans = []
    jobs = []
    for shape, hists in items:
        for h in hists:
            ll = pc.lean_history(shape, h)
            skip = len(ll) - len(h)
            spans.append((len(lines) + skip, len(lines) + len(ll)))
            lines.extend(ll)
            jobs.append((shape, h))
    answers = common.run_driver("policy", lines)
    chunk = max(1, len(jobs) // 64)
    groups = [jobs[i : i + chunk] for i in range(0, len(jobs), chunk)]
    with mp.Pool(12) as pool:
        outs = pool.map(_work, groups)
    impls = [x for o in outs for x in o]
    for (shape, h), impl, (a, b) in zip(jobs, impls, spans):
        pc.compare("C07", res, shape, h, impl, answers[a:b], "order")
        if any(op[0] in pc.MUTATORS for op in h):
            res.nontrivial.add(hash((repr(shape.initial), repr(h))))
    for k in (0, len(jobs) // 2, len(jobs) - 1):
        res.sample({"initial": jobs[k][0].initial, "history": jobs[k][1][:5]})


def _work(group):
    return [pc.run_history(shape, h, 0) for shape, h in group]


def replay(obj):
    return pc.replay(obj)
