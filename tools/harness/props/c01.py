"""C01 — decision = declared effect combination of exactly the matching rules"""
import common
import effect_corr

TRANSLATORS = ["T1"]
LEVEL = "proof"
ASSUMPTIONS = [
    "the matcher is an arbitrary function of (request, rule) returning a Python value of which only bool/float type, zero-ness and truthiness are observed (what enforce_ex looks at)",
    "the set of collected effects is modelled by three booleans: effectors only test membership (enforced by translator T1's grammar)",
    "tie: T1 regenerates effectors/effect table from source (decide-equality with the model), enforce_ex loop by differential execution",
]
TRUSTED_EXTRA = ["translator T1 (tools/translate/t1_effectors.py)"]


def run(ctx):
    res = common.Result()
    return effect_corr.run(ctx, res, "decision")


def replay(obj):
    return effect_corr.replay(obj, "decision")
