"""C06 — policy management behaves as operations on a duplicate-free ordered rule set"""
import common
import policy_corr as pc
import enf_corr as ec

TRANSLATORS = []
LEVEL = "proof"
ASSUMPTIONS = [
    "rules are lists of strings; callable filter values of get_filtered_policy are not modelled",
    "policy_map is write-only in the code base and not modelled",
    "tie: differential execution of Model/Policy.lean against casbin.model.Model (unit) and the Enforcer management API (varargs, list and unnamed call forms), results and stored policy compared after every call",
]
TRUSTED_EXTRA = []


def gen_histories(ctx, shape, deep):
    ops, flts = pc.op_alphabet(shape.sec, shape.ptype, shape.rules, read_fed=True)
    if shape.level == "unit":
        ops = ops + [("removewitheffected", shape.sec, shape.ptype, [shape.rules[0], shape.rules[2], shape.rules[0]]), ("values", shape.sec, shape.ptype, 0), ("values", shape.sec, shape.ptype, len(shape.rules[0]))]
    if shape.level == "enforcer" and shape.sec == "p":
        ops = ops + pc.updatefiltered_alphabet(shape.sec, shape.ptype, shape.rules)
    reads = pc.reads_for(shape.sec, shape.ptype, shape.rules, flts)
    hists = []
    # exhaustive: every history of length <= 2 over the op alphabet, every read after every step
    for a in ops:
        hists.append(pc.interleave_reads([a], reads))
    for a in ops:
        for b in ops:
            hists.append(pc.interleave_reads([a, b], reads))
    rng = ctx["rng"]
    nrand = 6000 if deep else 1500
    if deep:
        # length 3 over the mutating core (adds, removes, batches)
        core = [o for o in ops if o[0] in ("add", "remove", "addmany", "removemany")][:24]
        for a in core:
            for b in core:
                for c in core:
                    hists.append(pc.interleave_reads([a, b, c], reads[:4]))
    for _ in range(nrand):
        n = rng.randint(3, 10)
        h = [rng.choice(ops) for _ in range(n)]
        hists.append(pc.interleave_reads(h, reads, rng, every=False))
    return hists


def _wrapper_judge(res, cfg, hist, i, op, rec, model, case, queries):
    """the RBAC-API wrappers are compositions of management calls (exact rule / filter): result and stored policy must be
    those of the composition on the ordered rule set (Model/Policy.lean, proved equal to the set specification)"""
    bad = None
    if rec["ret"] != model["ret"]:
        bad = f"returned {rec['ret']}, the composition of set operations gives {model['ret']}"
    else:
        for s in ("p", "g"):
            if ec.enc_rules(rec["pol"][s]) != model["obs"][s]:
                bad = f"stored {s} rules {rec['pol'][s]} differ from the specified {common.dec_rules(model['obs'][s])}"
                break
    if bad:
        res.violation({"signature": f"C06:wrapper:{op[0]}", "stream": "wrappers", "what": f"{cfg.shape}: after {[list(o) for o in hist[:i]][-2:]} the call {list(op)} {bad}",
                       "case": case, "expected": [model["ret"], model["obs"]["p"], model["obs"]["g"]], "observed": [rec["ret"], ec.enc_rules(rec["pol"]["p"]), ec.enc_rules(rec["pol"]["g"])]})
        return False
    return True


def wrapper_ops(shape):
    P, G, G2, R = ec.universe(shape)
    ops = []
    for r in P[:3]:
        ops += [("add_permission_for_user", r[0], r[1:]), ("delete_permission_for_user", r[0], r[1:]),
                ("delete_permission_for_user", r[0], r[1:-1]),  # a prefix of a stored rule is not a stored rule
                ("delete_permission_for_user", r[0], [""] + r[2:]),  # nor is a rule with an empty field a wildcard
                ("delete_permissions_for_user", r[0]), ("delete_permission", r[1:]), ("delete_permission", r[1:2])]
    ops += [("delete_user", "alice"), ("delete_role", "admin"), ("delete_roles_for_user", "alice")]
    if shape != "dom":
        ops += [("add_role_for_user", "bob", "root"), ("add_role_for_user", "alice", "admin"), ("delete_role_for_user", "alice", "admin"), ("delete_role_for_user", "alice", "root")]
    else:
        ops += [("delete_roles_for_user_in_domain", "alice", "admin", "d1")]
    # management calls whose async twins have their own code: filtered update, batch and filtered removal, updates
    ops += ec.updatefiltered_ops(shape)
    ops += [o for o in ec.op_alphabet(shape) if o[0] in ("addmany", "removemany", "removefiltered", "update", "updatemany", "removeread", "updateread")]
    return ops


def run_wrappers(ctx, res, deep):
    rng = ctx["rng"]
    jobs = []
    for shape in ("rbac", "dom"):
        P, G, G2, R = ec.universe(shape)
        ops = wrapper_ops(shape)
        for init in ({"p": P, "g": G, "g2": []}, {"p": P[:2], "g": G[:1], "g2": []}):
            for is_async in (False, True):
                cfg = ec.Config(shape, adapter=False, watcher=None, initial=init, is_async=is_async)
                cfg.noq = True
                for a in ops:
                    jobs.append((cfg, [a]))
                for _ in range(150 if not deep else 1500):
                    jobs.append((cfg, [rng.choice(ops) for _ in range(rng.randint(2, 6))]))
    ec.run_configs(res, jobs, _wrapper_judge, fresh_oracle=False)


def run(ctx):
    res = common.Result()
    deep_stages = [False] if not ctx["deep"] else ([True] if ctx["proof_ok"] else [False, True])
    for deep in deep_stages:
        for shape in pc.all_shapes():
            hists = gen_histories(ctx, shape, deep)
            forms = (0,) if shape.level == "unit" else (0, 1, 2)
            pc.run_batch("C06", res, shape, hists, "set", forms=forms)
        run_wrappers(ctx, res, deep)
        if res.spec_violations:
            break
    res.rule = (
        "every history of length <= 2 over the op alphabet (single/batch add and remove with all batches of size <= 2 over 3 "
        "rules incl. the same rule twice and partly-present batches, 10 filters incl. empty/out-of-range, updates onto "
        "present/absent/self, batch updates) with has/get/get_filtered reads after every step, on ACL (p, p2) and RBAC (g) models, "
        "unit level (model.policy) and Enforcer API in three call forms; plus seeded random histories of length 3-10 "
        "(thorough: all length-3 histories over the 24 core mutators); the RBAC-API wrappers (add/delete_permission(s)_for_user with complete, prefix and "
        "empty-field permissions, delete_permission, delete_user/role, add/delete_role_for_user) on Enforcer and AsyncEnforcer against their composition "
        "of set operations; batch calls fed with the object a read returned; non-trivial = contains a mutating call; distinct by (shape, history)"
    )
    res.exhaustive = True
    return res


def replay(obj):
    if obj.get("stream") == "wrappers":
        c = obj["case"]["config"]
        cfg = ec.Config(c["shape"], adapter=c["adapter"], watcher=c["watcher"], initial=c["initial"], is_async=c.get("async", False))
        cfg.noq = True
        last = ec.run_history(cfg, [tuple(o) for o in obj["case"]["history"]], [], fresh_oracle=False)[-1]
        return [last["ret"], ec.enc_rules(last["pol"]["p"]), ec.enc_rules(last["pol"]["g"])] != obj["expected"]
    return pc.replay(obj)
