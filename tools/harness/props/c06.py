"""C06 — policy management behaves as operations on a duplicate-free ordered rule set"""
import common
import policy_corr as pc

TRANSLATORS = []
LEVEL = "proof"
ASSUMPTIONS = [
    "rules are lists of strings; callable filter values of get_filtered_policy are not modelled",
    "policy_map is write-only in the code base and not modelled",
    "tie: differential execution of Model/Policy.lean against casbin.model.Model (unit) and the Enforcer management API (varargs, list and unnamed call forms), results and stored policy compared after every call",
]
TRUSTED_EXTRA = []


def gen_histories(ctx, shape, deep):
    ops, flts = pc.op_alphabet(shape.sec, shape.ptype, shape.rules, read_fed=True)
    if shape.level == "unit":
        ops = ops + [("removewitheffected", shape.sec, shape.ptype, [shape.rules[0], shape.rules[2], shape.rules[0]]), ("values", shape.sec, shape.ptype, 0), ("values", shape.sec, shape.ptype, len(shape.rules[0]))]
    reads = pc.reads_for(shape.sec, shape.ptype, shape.rules, flts)
    hists = []
    # exhaustive: every history of length <= 2 over the op alphabet, every read after every step
    for a in ops:
        hists.append(pc.interleave_reads([a], reads))
    for a in ops:
        for b in ops:
            hists.append(pc.interleave_reads([a, b], reads))
    rng = ctx["rng"]
    nrand = 6000 if deep else 1500
    if deep:
        # length 3 over the mutating core (adds, removes, batches)
        core = [o for o in ops if o[0] in ("add", "remove", "addmany", "removemany")][:24]
        for a in core:
            for b in core:
                for c in core:
                    hists.append(pc.interleave_reads([a, b, c], reads[:4]))
    for _ in range(nrand):
        n = rng.randint(3, 10)
        h = [rng.choice(ops) for _ in range(n)]
        hists.append(pc.interleave_reads(h, reads, rng, every=False))
    return hists


def run(ctx):
    res = common.Result()
    deep_stages = [False] if not ctx["deep"] else ([True] if ctx["proof_ok"] else [False, True])
    for deep in deep_stages:
        for shape in pc.all_shapes():
            hists = gen_histories(ctx, shape, deep)
            forms = (0,) if shape.level == "unit" else (0, 1, 2)
            pc.run_batch("C06", res, shape, hists, "set", forms=forms)
        if res.spec_violations:
            break
    res.rule = (
        "every history of length <= 2 over the op alphabet (single/batch add and remove with all batches of size <= 2 over 3 "
        "rules incl. the same rule twice and partly-present batches, 10 filters incl. empty/out-of-range, updates onto "
        "present/absent/self, batch updates) with has/get/get_filtered reads after every step, on ACL (p, p2) and RBAC (g) models, "
        "unit level (model.policy) and Enforcer API in three call forms; plus seeded random histories of length 3-10 "
        "(thorough: all length-3 histories over the 24 core mutators); non-trivial = contains a mutating call; distinct by (shape, history)"
    )
    res.exhaustive = True
    return res


def replay(obj):
    return pc.replay(obj)
