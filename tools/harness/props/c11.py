"""C11 — a failed policy reload leaves the enforcer exactly as it was"""
import common
import enf_corr as ec

TRANSLATORS = []
LEVEL = "proof"
ASSUMPTIONS = [
    "failure kinds: the adapter raises after delivering any prefix of k rules; a delivered grouping rule is shorter than the role definition (raises while building role links); failures while ordering rules (priority / subject hierarchy) are not modelled (RBAC and domain models have no priority column)",
    "the state before the reload is coherent (C04's invariant): the rollback rebuilds links from the old policy",
    "conditional role managers are outside the model (rollback does not rebuild them: recorded observation F19)",
]
TRUSTED_EXTRA = []


def judge_factory():
    prev = {}

    def judge(res, cfg, hist, i, op, rec, model, case, queries):
        key = id(hist)
        ok = True
        if op[0] == "load":
            before = prev.get(key)
            if rec["ret"].startswith("!"):
                if before is not None:
                    what = None
                    if before["pol"] != rec["pol"]:
                        what = f"policy changed from {before['pol']} to {rec['pol']}"
                    else:
                        for q, a, b in zip(queries, before["answers"], rec["answers"]):
                            if a != b:
                                what = f"query {q} answered {a} before and {b} after"
                                break
                    if what:
                        res.violation({"signature": f"C11:{cfg.shape}:{'async' if cfg.is_async else 'sync'}:{rec['ret'][:24]}", "what": f"{cfg.shape}: load_policy raised {rec['ret']} (history {[list(o) for o in hist[: i + 1]][-3:]}) but {what}", "case": case, "expected": "state before the call", "observed": what, "model_text": ec.TEXT[cfg.shape]})
                        ok = False
            else:
                # successful reload replaces policy and links together
                if rec.get("fresh") is not None and rec["answers"] != rec["fresh"]:
                    res.violation({"signature": f"C11:{cfg.shape}:success-links", "what": f"{cfg.shape}: after a successful load_policy the role links do not reflect the loaded policy", "case": case, "expected": rec["fresh"], "observed": rec["answers"], "model_text": ec.TEXT[cfg.shape]})
                    ok = False
                if rec.get("store") is not None and any(sorted(map(tuple, rec["store"][s])) != sorted(map(tuple, rec["pol"][s])) for s in ("p", "g", "g2")):
                    res.violation({"signature": f"C11:{cfg.shape}:success-policy", "what": f"{cfg.shape}: after a successful load_policy memory {rec['pol']} differs from what the adapter delivered {rec['store']}", "case": case, "expected": rec["store"], "observed": rec["pol"], "model_text": ec.TEXT[cfg.shape]})
                    ok = False
        elif rec.get("fresh") is not None and rec["answers"] != rec["fresh"] and any(o[0] == "load" for o in hist[:i]):
            res.violation({"signature": f"C11:{cfg.shape}:later-use", "what": f"{cfg.shape}: after a (failed) reload and further use ({[list(o) for o in hist[: i + 1]][-4:]}) the answers differ from a fresh enforcer's", "case": case, "expected": rec["fresh"], "observed": rec["answers"], "model_text": ec.TEXT[cfg.shape]})
            ok = False
        prev[key] = rec
        return ok

    return judge


def gen(ctx, deep):
    rng = ctx["rng"]
    jobs = []
    for is_async in (False, True):
        for shape in ("rbac", "dom"):
            P, G, G2, R = ec.universe(shape)
            ops = [o for o in ec.op_alphabet(shape, level="core") if o[0] not in ("delete_user", "delete_role")]
            short = G[0][:-1]  # a grouping rule shorter than the role definition
            inits = [{"p": P, "g": G, "g2": []}, {"p": P[:1], "g": G[:2], "g2": []}, {"p": [], "g": [], "g2": []}]
            stores = [
                {"p": P, "g": G, "g2": []},
                {"p": P[1:], "g": [G[2], G[0]], "g2": []},
                {"p": P, "g": [G[0], short, G[1]], "g2": []},
                {"p": P[:1], "g": [short], "g2": []},
                {"p": [], "g": G + [short], "g2": []},
            ]
            nfollow = 2 if not deep else 6
            for init in inits:
                for st in stores:
                    total = len(st["p"]) + len(st["g"])
                    for k in list(range(0, total + 1)) + [None]:
                        cfg = ec.Config(shape, adapter=True, watcher=None, initial=init, is_async=is_async)
                        for _ in range(nfollow):
                            pre = [rng.choice(ops) for _ in range(rng.randint(0, 2))]
                            post = [rng.choice(ops) for _ in range(3)]
                            jobs.append((cfg, pre + [("setstore", st), ("load", k)] + post))
    return jobs


def run(ctx):
    res = common.Result()
    stages = [False] if not ctx["deep"] else ([True] if ctx["proof_ok"] else [False, True])
    for deep in stages:
        ec.run_configs(res, gen(ctx, deep), judge_factory(), fresh_oracle=True)
        if res.spec_violations:
            break
    res.rule = (
        "RBAC and domain models, Enforcer and AsyncEnforcer, 3 initial policies x 5 adapter stores (two containing a grouping rule shorter than the "
        "role definition at different positions) x EVERY failure point k = 0..n of the delivering adapter (and no failure), preceded by 0-2 and "
        "followed by 3 random management calls; after every call policy and ~40 queries are compared with the state before (failed reload), "
        "with a fresh enforcer (successful reload, later use) and with the Lean model; non-trivial/distinct = (configuration, history)"
    )
    res.exhaustive = True
    return res


def replay(obj):
    case = obj["case"]
    c = case["config"]
    cfg = ec.Config(c["shape"], adapter=c["adapter"], watcher=c["watcher"], initial=c["initial"], is_async=c.get("async", False))
    hist = []
    for o in case["history"]:
        hist.append(tuple(o))
    r = common.Result()
    j = judge_factory()
    qs = ec.query_set(cfg)
    out = ec.run_history(cfg, hist, qs, fresh_oracle=True)
    for i, (op, rec) in enumerate(zip(hist, out)):
        j(r, cfg, hist, i, op, rec, None, case, qs)
    return bool(r.spec_violations)
