"""C11 — a failed policy reload leaves the enforcer exactly as it was"""
import common
import enf_corr as ec

TRANSLATORS = []
LEVEL = "proof"
ASSUMPTIONS = [
    "failure kinds: the adapter raises after delivering any prefix of k rules; a delivered grouping rule is shorter than the role definition (raises while building role links); failures while ordering rules (a priority that cannot be compared, a cycle in the subject hierarchy) are not in the Lean model: they are judged on the implementation only (state before = state after)",
    "the state before the reload is coherent (C04's invariant): the rollback rebuilds links from the old policy",
    "conditional role managers are outside the model (rollback does not rebuild them: recorded observation F19)",
    "file adapters (FileAdapter / FilteredFileAdapter; file gone, or a grouping line shorter than the role definition in the file) are judged on the implementation only: policy, queries and is_filtered() before = after; F26b (open) is the is_filtered() flip when the enforcer rejects a completely read file",
]
TRUSTED_EXTRA = []


def judge_factory():
    prev = {}

    def judge(res, cfg, hist, i, op, rec, model, case, queries):
        key = id(hist)
        ok = True
        if op[0] == "load":
            before = prev.get(key)
            if rec["ret"].startswith("!"):
                if before is not None:
                    what = None
                    if before["pol"] != rec["pol"]:
                        what = f"policy changed from {before['pol']} to {rec['pol']}"
                    else:
                        for q, a, b in zip(queries, before["answers"], rec["answers"]):
                            if a != b:
                                what = f"query {q} answered {a} before and {b} after"
                                break
                    if what:
                        res.violation({"signature": f"C11:{cfg.shape}:{'async' if cfg.is_async else 'sync'}:{rec['ret'][:24]}", "what": f"{cfg.shape}: load_policy raised {rec['ret']} (history {[list(o) for o in hist[: i + 1]][-3:]}) but {what}", "case": case, "expected": "state before the call", "observed": what, "model_text": ec.TEXT[cfg.shape]})
                        ok = False
            else:
                # successful reload replaces policy and links together
                if rec.get("fresh") is not None and rec["answers"] != rec["fresh"]:
                    res.violation({"signature": f"C11:{cfg.shape}:success-links", "what": f"{cfg.shape}: after a successful load_policy the role links do not reflect the loaded policy", "case": case, "expected": rec["fresh"], "observed": rec["answers"], "model_text": ec.TEXT[cfg.shape]})
                    ok = False
                if rec.get("store") is not None and any(sorted(map(tuple, rec["store"][s])) != sorted(map(tuple, rec["pol"][s])) for s in ("p", "g", "g2")):
                    res.violation({"signature": f"C11:{cfg.shape}:success-policy", "what": f"{cfg.shape}: after a successful load_policy memory {rec['pol']} differs from what the adapter delivered {rec['store']}", "case": case, "expected": rec["store"], "observed": rec["pol"], "model_text": ec.TEXT[cfg.shape]})
                    ok = False
        elif rec.get("fresh") is not None and rec["answers"] != rec["fresh"] and any(o[0] == "load" for o in hist[:i]):
            res.violation({"signature": f"C11:{cfg.shape}:later-use", "what": f"{cfg.shape}: after a (failed) reload and further use ({[list(o) for o in hist[: i + 1]][-4:]}) the answers differ from a fresh enforcer's", "case": case, "expected": rec["fresh"], "observed": rec["answers"], "model_text": ec.TEXT[cfg.shape]})
            ok = False
        prev[key] = rec
        return ok

    return judge


def gen(ctx, deep):
    rng = ctx["rng"]
    jobs = []
    for is_async in (False, True):
        for shape in ("rbac", "dom"):
            P, G, G2, R = ec.universe(shape)
            ops = [o for o in ec.op_alphabet(shape, level="core") if o[0] not in ("delete_user", "delete_role")]
            short = G[0][:-1]  # a grouping rule shorter than the role definition
            inits = [{"p": P, "g": G, "g2": []}, {"p": P[:1], "g": G[:2], "g2": []}, {"p": [], "g": [], "g2": []}]
            stores = [
                {"p": P, "g": G, "g2": []},
                {"p": P[1:], "g": [G[2], G[0]], "g2": []},
                {"p": P, "g": [G[0], short, G[1]], "g2": []},
                {"p": P[:1], "g": [short], "g2": []},
                {"p": [], "g": G + [short], "g2": []},
                {"p": P, "g": [], "g2": []},  # every role assignment revoked in the store
            ]
            nfollow = 2 if not deep else 6
            for init in inits:
                for st in stores:
                    total = len(st["p"]) + len(st["g"])
                    for k in list(range(0, total + 1)) + [None]:
                        cfg = ec.Config(shape, adapter=True, watcher=None, initial=init, is_async=is_async)
                        for _ in range(nfollow):
                            pre = [rng.choice(ops) for _ in range(rng.randint(0, 2))]
                            post = [rng.choice(ops) for _ in range(3)]
                            jobs.append((cfg, pre + [("setstore", st), ("load", k)] + post))
    return jobs


PRIO_G = """[request_definition]
r = sub, obj, act
[policy_definition]
p = priority, sub, obj, act, eft
[role_definition]
g = _, _
[policy_effect]
e = priority(p.eft) || deny
[matchers]
m = g(r.sub, p.sub) && r.obj == p.obj && r.act == p.act
"""
SUBJ_G = PRIO_G.replace("p = priority, sub, obj, act, eft", "p = sub, obj, act, eft").replace("priority(p.eft) || deny", "subjectPriority(p_eft) || deny")


def ordering_failure_stream(ctx, res, deep):
    """failures raised WHILE ORDERING the delivered rules (a priority that cannot be compared with the others; a cycle in the
    subject hierarchy): judged on the implementation itself — everything observable must be as before the call"""
    import policy_corr as pc

    casbin = common.use_repo()
    rng = ctx["rng"]
    subs = ["alice", "bob", "admin", "root"]

    def observe(e, prio):
        reqs = [[s, o, "read"] for s in subs for o in ("data1", "data2")]
        out = {"p": [list(r) for r in e.get_policy()], "g": [list(r) for r in e.get_grouping_policy()], "dec": [], "roles": []}
        for r in reqs:
            try:
                out["dec"].append(bool(e.enforce(*r)))
            except Exception as ex:  # noqa
                out["dec"].append("!" + type(ex).__name__)
        for s in subs:
            out["roles"].append(sorted(e.get_roles_for_user(s)))
            out["roles"].append(sorted(e.get_users_for_role(s)))
        return out

    n = 120 if not deep else 1200
    for k in range(n):
        prio = k % 2 == 0
        text = PRIO_G if prio else SUBJ_G

        def prule(p, s, o, eft):
            return ([str(p)] if prio else []) + [s, o, "read", eft]

        good_p = [prule(rng.choice([1, 2, 10]), rng.choice(subs), rng.choice(["data1", "data2"]), rng.choice(["allow", "deny"])) for _ in range(rng.randint(1, 4))]
        good_p = [list(x) for x in {tuple(r) for r in good_p}]
        good_g = [list(x) for x in {(rng.choice(subs[:2]), rng.choice(subs[2:])) for _ in range(rng.randint(0, 3))}]
        new_g = [list(x) for x in {(rng.choice(subs[:3]), rng.choice(subs[1:])) for _ in range(rng.randint(1, 3))} if x[0] != x[1]]
        new_p = [prule(rng.choice([1, 3, 7]), rng.choice(subs), rng.choice(["data1", "data2"]), rng.choice(["allow", "deny"])) for _ in range(rng.randint(1, 4))]
        if prio:
            bad = list(rng.choice(new_p))
            bad[0] = rng.choice(["urgent", "high", "1.5"])
            new_p.insert(rng.randrange(len(new_p) + 1), bad)
        else:
            new_g = [["alice", "bob"], ["bob", "admin"], ["admin", "alice"]][: rng.randint(2, 3)] + [["admin", "alice"]]
        rules0 = [("p", "p", r) for r in good_p] + [("g", "g", r) for r in good_g]
        ad = pc.make_adapter(casbin, rules0)
        try:
            e = casbin.Enforcer(casbin.Enforcer.new_model(text=text), ad)
        except Exception:  # noqa  (the initial policy itself may contain a cycle: not this stream's subject)
            continue
        before = observe(e, prio)
        ad.rules = [("p", "p", r) for r in new_p] + [("g", "g", r) for r in new_g]
        raised = None
        try:
            e.load_policy()
        except Exception as ex:  # noqa
            raised = f"{type(ex).__name__}: {str(ex)[:60]}"
        res.evaluations += 1
        res.count("stream:ordering-failure:" + ("raised" if raised else "loaded"))
        res.nontrivial.add(hash(("ord", repr(good_p), repr(good_g), repr(new_p), repr(new_g))))
        if raised:
            after = observe(e, prio)
            if after != before:
                diff = next(kk for kk in before if before[kk] != after[kk])
                res.violation(
                    {
                        "signature": f"C11:ordering-failure:{'priority' if prio else 'subject-hierarchy'}:{diff}",
                        "what": f"load_policy raised while ordering the delivered rules ({raised}) but {diff} changed from {before[diff]} to {after[diff]}",
                        "case": {"text": text, "initial": {"p": good_p, "g": good_g}, "delivered": {"p": new_p, "g": new_g}},
                        "expected": before[diff],
                        "observed": after[diff],
                        "model_text": text,
                        "kind_of_case": "ordering-failure",
                    }
                )


def _file_case(args):
    """Enforcer on a policy FILE (FileAdapter / FilteredFileAdapter, after a full or a filtered load): load_policy fails
    because the file has gone, or because the file now holds a grouping line shorter than the role definition; everything
    observable (policy, decisions, role queries, is_filtered) must be as before the call"""
    import os
    import shutil
    import tempfile

    shape, adapter, pre, failure = args
    casbin = common.use_repo()
    from casbin.persist.adapters import FileAdapter, FilteredFileAdapter
    from casbin.persist.adapters.filtered_file_adapter import Filter

    P, G, G2, R = ec.universe(shape)
    d = tempfile.mkdtemp(prefix="c11f_")
    try:
        path = os.path.join(d, "policy.csv")
        good = "\n".join(", ".join(["p"] + r) for r in P) + "\n" + "\n".join(", ".join(["g"] + r) for r in G) + "\n"
        with open(path, "w") as f:
            f.write(good)
        e = casbin.Enforcer(casbin.Enforcer.new_model(text=ec.TEXT[shape]), (FilteredFileAdapter if adapter == "filtered" else FileAdapter)(path))
        e.enable_auto_save(False)
        if adapter == "filtered" and pre[0] in ("full", "remove"):
            e.load_policy()  # an enforcer built on a filtered adapter starts without a policy (is_filtered() = True)
        if pre[0] == "loadf":
            flt = Filter()
            flt.P, flt.G = list(pre[1]), list(pre[2])
            e.load_filtered_policy(flt)
        elif pre[0] == "remove":
            e.remove_grouping_policy(*G[0])
        cfg = ec.Config(shape, adapter=False)
        qs = ec.query_set(cfg)

        def observe():
            return {"p": [list(r) for r in e.get_policy()], "g": [list(r) for r in e.get_grouping_policy()], "answers": [ec.q_impl(e, q) for q in qs], "is_filtered": bool(e.is_filtered())}

        before = observe()
        if failure == "gone":
            os.replace(path, path + ".away")
        elif failure.startswith("badline"):
            # a line the loader cannot parse (a closing bracket without an opening one), after a prefix of good rules
            lines = good.splitlines()
            k = {"badline-first": 0, "badline-mid": len(P), "badline-last": len(lines)}[failure]
            with open(path, "w") as f:
                f.write("\n".join(lines[:k] + ["p, x), y, z"] + lines[k:]) + "\n")
        else:
            lines = good.splitlines()
            k = {"shortg-first": len(P), "shortg-last": len(lines), "shortg-only": 0}[failure]
            short = ", ".join(["g"] + G[0][:-1])
            with open(path, "w") as f:
                f.write("\n".join(([short] if failure == "shortg-only" else lines[:k] + [short] + lines[k:])) + "\n")
        raised = None
        try:
            e.load_policy()
        except Exception as ex:  # noqa
            raised = f"{type(ex).__name__}: {str(ex)[:60]}"
        return raised, before, observe()
    finally:
        shutil.rmtree(d, ignore_errors=True)


def file_failure_stream(ctx, res, deep):
    jobs = []
    for shape in ("rbac", "dom"):
        P, G, G2, R = ec.universe(shape)
        for failure in ("gone", "shortg-first", "shortg-last", "shortg-only", "badline-first", "badline-mid", "badline-last"):
            for pre in (("full",), ("remove",)):
                jobs.append((shape, "file", pre, failure))
                jobs.append((shape, "filtered", pre, failure))
            jobs.append((shape, "filtered", ("fresh",), failure))
            for pre in (("loadf", [P[0][0]], []), ("loadf", [], [G[0][0]]), ("loadf", [P[0][0]], [G[0][0]])):
                jobs.append((shape, "filtered", pre, failure))
    for job in jobs:
        shape, adapter, pre, failure = job
        raised, before, after = _file_case(job)
        res.evaluations += 1
        res.count("stream:file-failure:" + failure + (":raised" if raised else ":loaded"))
        res.nontrivial.add(hash(("file", repr(job))))
        if raised is None:
            res.violation({"signature": f"C11:file:{adapter}:{failure}:not-raised", "stream": "file-failure", "job": list(job), "what": f"{shape}, {adapter} adapter, {pre}: load_policy of an unreadable / unusable file ({failure}) did not raise", "expected": "raises", "observed": "returned"})
            continue
        if before != after:
            diff = next(k for k in before if before[k] != after[k])
            kind = "roleDefinition" if failure.startswith("shortg") else failure.split("-")[0]
            res.violation({"signature": f"C11:file:{adapter}:{kind}:{diff}", "stream": "file-failure", "job": [shape, adapter, list(pre), failure],
                           "what": f"{shape} model, {adapter} file adapter, state {list(pre)}: load_policy raised ({raised}; failure {failure}) but {diff} changed from {before[diff]} to {after[diff]}",
                           "expected": before[diff], "observed": after[diff]})


def run(ctx):
    res = common.Result()
    stages = [False] if not ctx["deep"] else ([True] if ctx["proof_ok"] else [False, True])
    for deep in stages:
        ec.run_configs(res, gen(ctx, deep), judge_factory(), fresh_oracle=True)
        ordering_failure_stream(ctx, res, deep)
        file_failure_stream(ctx, res, deep)
        if res.spec_violations:
            break
    res.rule = (
        "RBAC and domain models, Enforcer and AsyncEnforcer, 3 initial policies x 5 adapter stores (two containing a grouping rule shorter than the "
        "role definition at different positions) x EVERY failure point k = 0..n of the delivering adapter (and no failure), preceded by 0-2 and "
        "followed by 3 random management calls; after every call policy and ~40 queries are compared with the state before (failed reload), "
        "with a fresh enforcer (successful reload, later use) and with the Lean model; ordering-failure stream and file-failure stream (file gone / unparsable line after a prefix of good ones / short grouping line, FileAdapter and FilteredFileAdapter in 6 states) judged before = after incl. is_filtered(); non-trivial/distinct = (configuration, history)"
    )
    res.exhaustive = True
    return res


def replay(obj):
    if obj.get("stream") == "file-failure":
        j = obj["job"]
        raised, before, after = _file_case((j[0], j[1], tuple(j[2]), j[3]))
        return raised is None or before != after
    if obj.get("kind_of_case") == "ordering-failure":
        import policy_corr as pc

        casbin = common.use_repo()
        c = obj["case"]
        ad = pc.make_adapter(casbin, [("p", "p", r) for r in c["initial"]["p"]] + [("g", "g", r) for r in c["initial"]["g"]])
        e = casbin.Enforcer(casbin.Enforcer.new_model(text=c["text"]), ad)
        before = ([list(r) for r in e.get_policy()], [list(r) for r in e.get_grouping_policy()], [sorted(e.get_roles_for_user(s)) for s in ("alice", "bob", "admin", "root")])
        ad.rules = [("p", "p", r) for r in c["delivered"]["p"]] + [("g", "g", r) for r in c["delivered"]["g"]]
        try:
            e.load_policy()
            return False
        except Exception:  # noqa
            pass
        after = ([list(r) for r in e.get_policy()], [list(r) for r in e.get_grouping_policy()], [sorted(e.get_roles_for_user(s)) for s in ("alice", "bob", "admin", "root")])
        return before != after
    case = obj["case"]
    c = case["config"]
    cfg = ec.Config(c["shape"], adapter=c["adapter"], watcher=c["watcher"], initial=c["initial"], is_async=c.get("async", False))
    hist = []
    for o in case["history"]:
        hist.append(tuple(o))
    r = common.Result()
    j = judge_factory()
    qs = ec.query_set(cfg)
    out = ec.run_history(cfg, hist, qs, fresh_oracle=True)
    for i, (op, rec) in enumerate(zip(hist, out)):
        j(r, cfg, hist, i, op, rec, None, case, qs)
    return bool(r.spec_violations)
