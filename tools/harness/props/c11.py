"""C11 — a failed policy reload leaves the enforcer exactly as it was"""
import re
import common
import enf_corr as ec

TRANSLATORS = []
LEVEL = "proof"
ASSUMPTIONS = [
    "failure kinds in the Lean model: the adapter raises after delivering any prefix of k rules; a failure WHILE ORDERING the delivered rules (Model/LoadOrd.lean loadOrd: a priority field that cannot be compared with the others -> TypeError, a rule without the field a sort key reads -> IndexError, a grouping rule the subject hierarchy cannot use, a cyclic subject hierarchy); a delivered grouping rule shorter than the role definition (raises while building role links from the ORDERED rules, rollback relink)",
    "ordering models in the tie: RBAC with an explicit priority column at index 0 (p = priority, sub, obj, act, eft) and RBAC with subjectPriority (no p_dom token); priority fields are ASCII strings (str.isdigit / int accept further Unicode digits, on some of which int raises ValueError: outside the model); follow-up calls on a priority model exclude adds / updates of p rules (they insert by priority: C07)",
    "the state before the reload is coherent (C04's invariant): the rollback rebuilds links from the old policy",
    "conditional role managers are outside the model (rollback does not rebuild them: recorded observation F19)",
    "file adapters (FileAdapter / FilteredFileAdapter; file gone, or a grouping line shorter than the role definition in the file) are judged on the implementation only: policy, queries and is_filtered() before = after; F26b (open) is the is_filtered() flip when the enforcer rejects a completely read file",
]
TRUSTED_EXTRA = []


def judge_factory():
    prev = {}

    def judge(res, cfg, hist, i, op, rec, model, case, queries):
        key = id(hist)
        ok = True
        if op[0] == "load":
            before = prev.get(key)
            if rec["ret"].startswith("!"):
                if before is not None:
                    what = None
                    if before["pol"] != rec["pol"]:
                        what = f"policy changed from {before['pol']} to {rec['pol']}"
                    else:
                        for q, a, b in zip(queries, before["answers"], rec["answers"]):
                            if a != b:
                                what = f"query {q} answered {a} before and {b} after"
                                break
                    if what:
                        res.violation({"signature": f"C11:{cfg.shape}:{'async' if cfg.is_async else 'sync'}:{rec['ret'][:24]}", "what": f"{cfg.shape}: load_policy raised {rec['ret']} (history {[list(o) for o in hist[: i + 1]][-3:]}) but {what}", "case": case, "expected": "state before the call", "observed": what, "model_text": ec.TEXT[cfg.shape]})
                        ok = False
            else:
                # successful reload replaces policy and links together
                if rec.get("fresh") is not None and rec["answers"] != rec["fresh"]:
                    res.violation({"signature": f"C11:{cfg.shape}:success-links", "what": f"{cfg.shape}: after a successful load_policy the role links do not reflect the loaded policy", "case": case, "expected": rec["fresh"], "observed": rec["answers"], "model_text": ec.TEXT[cfg.shape]})
                    ok = False
                if rec.get("store") is not None and any(sorted(map(tuple, rec["store"][s])) != sorted(map(tuple, rec["pol"][s])) for s in ("p", "g", "g2")):
                    res.violation({"signature": f"C11:{cfg.shape}:success-policy", "what": f"{cfg.shape}: after a successful load_policy memory {rec['pol']} differs from what the adapter delivered {rec['store']}", "case": case, "expected": rec["store"], "observed": rec["pol"], "model_text": ec.TEXT[cfg.shape]})
                    ok = False
        elif rec.get("fresh") is not None and rec["answers"] != rec["fresh"] and any(o[0] == "load" for o in hist[:i]):
            res.violation({"signature": f"C11:{cfg.shape}:later-use", "what": f"{cfg.shape}: after a (failed) reload and further use ({[list(o) for o in hist[: i + 1]][-4:]}) the answers differ from a fresh enforcer's", "case": case, "expected": rec["fresh"], "observed": rec["answers"], "model_text": ec.TEXT[cfg.shape]})
            ok = False
        prev[key] = rec
        return ok

    return judge


def gen(ctx, deep):
    rng = ctx["rng"]
    jobs = []
    for is_async in (False, True):
        for shape in ("rbac", "dom"):
            P, G, G2, R = ec.universe(shape)
            ops = [o for o in ec.op_alphabet(shape, level="core") if o[0] not in ("delete_user", "delete_role")]
            short = G[0][:-1]  # a grouping rule shorter than the role definition
            inits = [{"p": P, "g": G, "g2": []}, {"p": P[:1], "g": G[:2], "g2": []}, {"p": [], "g": [], "g2": []}]
            stores = [
                {"p": P, "g": G, "g2": []},
                {"p": P[1:], "g": [G[2], G[0]], "g2": []},
                {"p": P, "g": [G[0], short, G[1]], "g2": []},
                {"p": P[:1], "g": [short], "g2": []},
                {"p": [], "g": G + [short], "g2": []},
                {"p": P, "g": [], "g2": []},  # every role assignment revoked in the store
            ]
            nfollow = 2 if not deep else 6
            for init in inits:
                for st in stores:
                    total = len(st["p"]) + len(st["g"])
                    for k in list(range(0, total + 1)) + [None]:
                        cfg = ec.Config(shape, adapter=True, watcher=None, initial=init, is_async=is_async)
                        for _ in range(nfollow):
                            pre = [rng.choice(ops) for _ in range(rng.randint(0, 2))]
                            post = [rng.choice(ops) for _ in range(3)]
                            jobs.append((cfg, pre + [("setstore", st), ("load", k)] + post))
            # a successful reload replaces policy AND links, also when the links lagged behind the (mirrored) policy before
            # it: role assignments edited while automatic link building was off, the flag on again, then load_policy
            gops = [o for o in ops if len(o) > 1 and o[1] == "g" and o[0] in ("add", "remove", "addmany", "removemany")]
            for init in inits[:2]:
                cfg = ec.Config(shape, adapter=True, watcher=None, initial=init, is_async=is_async)
                for a in rng.sample(gops, min(len(gops), 6 if not deep else 12)):
                    b = rng.choice(gops)
                    jobs.append((cfg, [("autobuild", False), a, b, ("autobuild", True), ("load", None), rng.choice(ops)]))
    return jobs


PRIO_G = """[request_definition]
r = sub, obj, act
[policy_definition]
p = priority, sub, obj, act, eft
[role_definition]
g = _, _
[policy_effect]
e = priority(p.eft) || deny
[matchers]
m = g(r.sub, p.sub) && r.obj == p.obj && r.act == p.act
"""
SUBJ_G = PRIO_G.replace("p = priority, sub, obj, act, eft", "p = sub, obj, act, eft").replace("priority(p.eft) || deny", "subjectPriority(p_eft) || deny")


# ------------------------------------------------------------------ ordered reloads (priority / subject-priority models)
# The ordering step of load_policy inside the Lean model (Model/LoadOrd.lean `loadOrd`, driver family `enfo`).

SUBJDOM_G = """[request_definition]
r = sub, obj, dom, act
[policy_definition]
p = sub, obj, dom, act, eft
[role_definition]
g = _, _, _
[policy_effect]
e = subjectPriority(p_eft) || deny
[matchers]
m = g(r.sub, p.sub, r.dom) && r.dom == p.dom && r.obj == p.obj && r.act == p.act
"""
ec.TEXT["prio"] = PRIO_G
ec.TEXT["subj"] = SUBJ_G
ec.TEXT["subjdom"] = SUBJDOM_G  # examples/subject_priority_model_with_domain.conf
ec.COUNTS["prio"] = (2, 0)
ec.COUNTS["subj"] = (2, 0)
ec.COUNTS["subjdom"] = (3, 0)
ORD_SHAPES = ("prio", "subj", "subjdom")
DOM_IDX = {"prio": None, "subj": None, "subjdom": 2}
ORD_SUBS = ["alice", "bob", "admin", "root"]


class OrdConfig(ec.Config):
    """an enforcer whose model orders its rules on load_policy: shape `prio` (explicit priority column, index 0) or `subj`
    (subjectPriority effect); driver family `enfo`"""

    def __init__(self, shape, initial, is_async=False):
        super().__init__(shape, adapter=True, watcher=None, initial=initial, is_async=is_async)
        if shape == "subjdom":
            self.requests = [[s, o, d, "read"] for s in ORD_SUBS for o, d in (("data1", "d1"), ("data2", "d2"), ("data1", "d2"))]
        else:
            self.requests = [[s, o, "read"] for s in ORD_SUBS for o in ("data1", "data2")]

    def init_line(self):
        return "\t".join(["initord", self.shape, "T", ec.enc_rules(self.initial.get("p", [])), ec.enc_rules(self.initial.get("g", []))])


def ord_query_set(cfg):
    """decisions + role queries (with the two domains for the domain model)"""
    import types

    return ec.query_set(types.SimpleNamespace(requests=cfg.requests, shape="dom" if cfg.shape == "subjdom" else cfg.shape, noq=False))


def ord_universe(shape):
    G = [["alice", "admin"], ["bob", "admin"], ["admin", "root"]]
    if shape == "subjdom":
        G = [["alice", "admin", "d1"], ["bob", "admin", "d2"], ["admin", "root", "d1"]]
        P = [["root", "data1", "d1", "read", "deny"], ["admin", "data1", "d1", "read", "allow"], ["alice", "data1", "d1", "read", "deny"],
             ["admin", "data2", "d2", "read", "allow"], ["bob", "data2", "d2", "read", "deny"], ["alice", "data2", "d2", "read", "allow"]]
        return P, G
    if shape == "prio":
        P = [["10", "admin", "data1", "read", "deny"], ["1", "alice", "data1", "read", "allow"], ["2", "bob", "data2", "read", "deny"],
             ["10", "root", "data2", "read", "allow"], ["2", "alice", "data2", "read", "allow"], ["1", "bob", "data1", "read", "deny"]]
    else:
        P = [["root", "data1", "read", "deny"], ["admin", "data1", "read", "allow"], ["alice", "data2", "read", "deny"],
             ["admin", "data2", "read", "allow"], ["bob", "data1", "read", "deny"], ["alice", "data1", "read", "allow"]]
    return P, G


def ord_norm_ret(ret):
    """exceptions of the ordering step -> the model's names"""
    if ret.startswith("!other:TypeError:'<' not supported between"):
        return "!TypeError"
    if ret.startswith("!other:RuntimeError:policy g expect 2 more params"):
        return "!gShort"
    if ret.startswith("!other:RuntimeError:cycle dependency in subject hierarchy"):
        return "!cycle"
    return ret


def ord_ops(shape):
    """follow-up calls whose in-memory part does not depend on the order (adds / updates of `p` rules in a model with a
    priority column insert by priority: C07's subject)"""
    P, G = ord_universe(shape)
    ops = []
    for r in G:
        ops += [("add", "g", r), ("remove", "g", r)]
    ops += [("add", "g", ["bob", "root"] + G[0][2:]), ("remove", "p", P[0]), ("remove", "p", P[1]), ("removemany", "p", [P[2], P[3]]), ("removefiltered", "p", OFF[shape], ["alice"]),
            ("removefiltered", "g", 1, ["admin"]), ("removemany", "g", [G[0], G[1]]), ("addmany", "g", [G[0], G[2]]), ("save",), ("load", None), ("build",), ("clear",),
            ("delete_roles_for_user", "alice"), ("removeread", "g")]
    if shape != "prio":
        ops += [("add", "p", P[0]), ("add", "p", ["bob"] + P[3][1:-1] + ["allow"]), ("addmany", "p", [P[1], P[2]])]
    return ops


OFF = {"prio": 1, "subj": 0, "subjdom": 0}


def ord_stores(shape, rng, deep):
    """(label, store): stores that order fine, and stores that fail to order with the offending rule at EACH position"""
    P, G = ord_universe(shape)
    out = []
    perm = list(P)
    rng.shuffle(perm)
    out += [("fine", {"p": P, "g": G}), ("fine", {"p": P[::-1], "g": G[::-1]}), ("fine", {"p": perm, "g": [G[2], G[0]]}), ("fine", {"p": P[1:4], "g": []}),
            ("fine", {"p": [], "g": G}), ("fine", {"p": [], "g": []})]
    shortg = ["bob"]
    base = P[:4]
    if shape == "prio":
        # priorities that are all non-numeric order fine (as strings); longer rules; ties (stability)
        out.append(("fine-str", {"p": [["low"] + P[0][1:], ["high"] + P[1][1:], ["mid"] + P[2][1:], ["high"] + P[3][1:]], "g": G}))
        out.append(("fine-str", {"p": [["urgent"] + P[0][1:]], "g": G}))
        out.append(("fine", {"p": [["007"] + P[0][1:], ["7"] + P[1][1:], ["06"] + P[2][1:], ["7"] + P[3][1:], ["0"] + P[4][1:]], "g": G}))
        bads = [["urgent"] + P[4][1:], ["1.5"] + P[4][1:], ["-1"] + P[4][1:], [""] + P[4][1:], []]
        if not deep:
            bads = [bads[0], bads[rng.randrange(1, 4)], bads[4]]
        for bad in bads:
            for pos in range(len(base) + 1):
                out.append(("bad-p@%d" % pos, {"p": base[:pos] + [bad] + base[pos:], "g": G}))
        # a rule without priority field AND an incomparable one; an ordering failure together with a short grouping rule
        out.append(("bad-both", {"p": [base[0], ["urgent"] + P[4][1:], [], base[1]], "g": G}))
        out.append(("bad-p+short-g", {"p": [base[0], ["urgent"] + P[4][1:], base[1]], "g": [G[0], shortg]}))
        out.append(("bad-p+short-g", {"p": [base[0], []], "g": [shortg]}))
        # ordering fine, linking fails (rollback relink)
        for pos in range(len(G) + 1):
            out.append(("short-g@%d" % pos, {"p": P[::-1], "g": G[:pos] + [shortg] + G[pos:]}))
    elif shape == "subjdom":
        out.append(("fine", {"p": P[::-1], "g": G + [["admin", "alice", "d2"]]}))  # the reverse assignment in ANOTHER domain is no cycle
        out.append(("fine", {"p": P + [["nobody", "data1", "d1", "read", "allow"]], "g": [["alice", "bob", "d1"], ["bob", "admin", "d1"], ["admin", "root", "d1"]]}))
        cyc = [[["admin", "alice", "d1"]], [["root", "alice", "d1"]], [["bob", "bob", "d2"]], [["alice", "bob", "d2"], ["bob", "alice", "d2"]]]
        if not deep:
            cyc = [cyc[0], cyc[rng.choice([1, 2, 3])]]
        for extra in cyc:
            for pos in range(len(G) + 1):
                out.append(("cycle@%d" % pos, {"p": P, "g": G[:pos] + extra + G[pos:]}))
        for sg in (shortg, []):
            for pos in range(len(G) + 1):
                out.append(("short-g@%d" % pos, {"p": P, "g": G[:pos] + [sg] + G[pos:]}))
        # two fields: fine for the hierarchy (default domain), too short for the role definition -> fails while LINKING (rollback)
        for pos in range(len(G) + 1):
            out.append(("short-g-link@%d" % pos, {"p": P[::-1], "g": G[:pos] + [["bob", "admin"]] + G[pos:]}))
        for bad in ([], ["alice", "data1"]):  # no subject / no domain field
            for pos in range(len(base) + 1):
                out.append(("bad-p@%d" % pos, {"p": base[:pos] + [bad] + base[pos:], "g": G}))
        out.append(("cycle+short-g", {"p": P, "g": [["admin", "alice", "d1"], shortg] + G}))
        out.append(("cycle+bad-p", {"p": [P[0], ["alice"]], "g": [["admin", "alice", "d1"]] + G}))
    else:
        out.append(("fine", {"p": P, "g": [["alice", "admin", "d1"], ["admin", "root", "d1"], ["bob", "admin"]]}))  # a third field is read as a domain
        out.append(("fine", {"p": P + [["nobody", "data1", "read", "allow"]], "g": [["alice", "bob"], ["bob", "admin"], ["admin", "root"]]}))
        cyc = [[["admin", "alice"]], [["root", "alice"]], [["bob", "bob"]], [["root", "admin"]], [["alice", "bob"], ["bob", "alice"]]]
        if not deep:
            cyc = [cyc[0], cyc[2], cyc[rng.choice([1, 3, 4])]]
        for extra in cyc:
            for pos in range(len(G) + 1):
                out.append(("cycle@%d" % pos, {"p": P, "g": G[:pos] + extra + G[pos:]}))
        for pos in range(len(G) + 1):
            out.append(("short-g@%d" % pos, {"p": P, "g": G[:pos] + [shortg] + G[pos:]}))
        for pos in range(len(G) + 1):
            out.append(("short-g@%d" % pos, {"p": P, "g": G[:pos] + [[]] + G[pos:]}))
        for pos in range(len(base) + 1):
            out.append(("bad-p@%d" % pos, {"p": base[:pos] + [[]] + base[pos:], "g": G}))
        out.append(("cycle+short-g", {"p": P, "g": [["admin", "alice"], shortg] + G}))
        out.append(("cycle+bad-p", {"p": [P[0], []], "g": [["admin", "alice"]] + G}))
    return out


def ord_expected(shape, store):
    """the ordered list the PROPERTY demands of a successful reload, computed without the library: stable sort by the numeric
    (or, all non-numeric, by the string) priority; subject models: the hierarchy levels by repeated removal of the subjects
    nobody inherits from (None = the store does not order)"""
    p, g = store["p"], store["g"]
    if shape == "prio":
        if any(len(r) < 1 for r in p):
            return None
        # numeric = a decimal integer, negative ones included (int() reads them; the load sorts on int since the C07 repair)
        dig = [bool(re.fullmatch(r"-?[0-9]+", r[0])) for r in p]
        if all(dig):
            return sorted(p, key=lambda r: int(r[0]))
        if not any(dig):
            return sorted(p, key=lambda r: r[0])
        return None
    di = DOM_IDX[shape]
    if any(len(r) < 2 for r in g) or any(len(r) < (1 if di is None else di + 1) for r in p):
        return None
    edges = [((r[2] if len(r) != 2 else "") + "::" + r[0], (r[2] if len(r) != 2 else "") + "::" + r[1]) for r in g]
    nodes = {x for e in edges for x in e}
    level, k = {}, 0
    while edges:
        parents = {e[1] for e in edges}
        low = nodes - parents
        if not low:
            return None
        for x in low:
            level[x] = k
        edges = [e for e in edges if e[0] not in low]
        nodes -= low
        k += 1
    for x in nodes:
        level[x] = k
    return sorted(p, key=lambda r: level.get(("" if di is None else r[di]) + "::" + r[0], 0))


def ord_judge_factory():
    base = judge_factory()
    stores = {}

    def judge(res, cfg, hist, i, op, rec, model, case, queries):
        key = id(hist)
        if op[0] == "setstore":
            stores[key] = op[1]
        if op[0] != "load" and rec.get("fresh") is not None:
            # a fresh enforcer RE-ORDERS the policy it is given, management calls do not: after further use its decisions are
            # no oracle (role queries are); decisions are compared with the Lean model, whose oracle keeps the order
            rec = dict(rec)
            rec["fresh"] = [a if q[0] == "enforce" else f for q, a, f in zip(queries, rec["answers"], rec["fresh"])]
        ok = base(res, cfg, hist, i, op, rec, model, case, queries)
        if ok and op[0] == "load":
            st = {"p": rec["store"]["p"], "g": rec["store"]["g"]}
            want = ord_expected(cfg.shape, st)
            short = any(len(r) < ec.COUNTS[cfg.shape][0] for r in st["g"])
            if rec["ret"].startswith("!"):
                if want is not None and not short and op[1] is None:
                    res.violation({"signature": f"C11:{cfg.shape}:ordered:refused", "what": f"{cfg.shape}: load_policy raised {rec['ret']} on a store that orders and links fine {st}", "case": case, "expected": want, "observed": rec["ret"], "model_text": ec.TEXT[cfg.shape]})
                    ok = False
            else:
                if want is None:
                    res.violation({"signature": f"C11:{cfg.shape}:ordered:accepted", "what": f"{cfg.shape}: load_policy returned although the delivered rules cannot be ordered: {st}; policy now {rec['pol']['p']}", "case": case, "expected": "raises, state as before", "observed": rec["pol"]["p"], "model_text": ec.TEXT[cfg.shape]})
                    ok = False
                elif rec["pol"]["p"] != want:
                    res.violation({"signature": f"C11:{cfg.shape}:ordered:order", "what": f"{cfg.shape}: a successful load_policy installed {rec['pol']['p']}, not the delivered rules in the order the model demands {want}", "case": case, "expected": want, "observed": rec["pol"]["p"], "model_text": ec.TEXT[cfg.shape]})
                    ok = False
                elif rec["pol"]["g"] != st["g"]:
                    res.violation({"signature": f"C11:{cfg.shape}:ordered:grouping", "what": f"{cfg.shape}: a successful load_policy installed grouping rules {rec['pol']['g']}, delivered {st['g']}", "case": case, "expected": st["g"], "observed": rec["pol"]["g"], "model_text": ec.TEXT[cfg.shape]})
                    ok = False
        return ok

    return judge


def ord_gen(ctx, deep):
    rng = ctx["rng"]
    jobs = []
    labels = {}
    for is_async in (False, True):
        for shape in ORD_SHAPES:
            P, G = ord_universe(shape)
            ops = ord_ops(shape)
            inits = [{"p": [P[3], P[1], P[0], P[4]], "g": G, "g2": []}, {"p": P[:2], "g": G[:1], "g2": []}]
            if deep:
                inits.append({"p": [], "g": [], "g2": []})
            for ii, init in enumerate(inits):
                for label, st in ord_stores(shape, rng, deep):
                    st = {"p": st["p"], "g": st["g"], "g2": []}
                    total = len(st["p"]) + len(st["g"])
                    ks = [None] + ([0, total - 1] if (deep or (ii == 0 and rng.random() < 0.5)) and total else [])
                    for k in ks:
                        cfg = OrdConfig(shape, init, is_async)
                        for _ in range(1 if not deep else 3):
                            pre = [rng.choice(ops) for _ in range(rng.randint(0, 2))]
                            post = [rng.choice(ops) for _ in range(2)]
                            h = pre + [("setstore", st), ("load", k)] + post
                            jobs.append((cfg, h))
                            labels[id(h)] = label
    return jobs, labels


def run_ord_configs(res, jobs, judge, labels=None, procs=12):
    """ec.run_configs for driver family `enfo` (same comparison: results, policies IN ORDER, adapter calls, ~40 queries)"""
    import multiprocessing as mp

    if not jobs:
        return
    lines, metas = [], []
    qsets = {sh: ord_query_set(OrdConfig(sh, {"p": [], "g": [], "g2": []})) for sh in ORD_SHAPES}
    for cfg, hist in jobs:
        qs = qsets[cfg.shape]
        ll, idx = ec.lean_history(cfg, hist, qs)
        # after the history: what the ordering step makes of the store, model vs independent spec
        off = len(lines)
        lines.extend(ll)
        lines.append("q\torder")
        metas.append((off, len(lines), idx))
    answers = common.run_driver("enfo", lines)
    flat = [(cfg, [h], qsets[cfg.shape], True, None) for cfg, h in jobs]
    if len(jobs) < 64:
        outs = [ec._worker(a) for a in flat]
    else:
        with mp.Pool(procs) as pool:
            outs = pool.map(ec._worker, flat, chunksize=max(1, len(flat) // (procs * 8)))
    for (cfg, hist), out, (off, end, idx) in zip(jobs, outs, metas):
        ans = answers[off:end]
        for rec in out[0]:
            rec["ret"] = ord_norm_ret(rec["ret"])
        m, s = common.parse_ms(ans[-1])
        if m != s:
            res.model_vs_spec.append({"what": f"ordering step: model {m} vs spec {s}", "history": [list(o) for o in hist]})
        ec.compare_history(res, cfg, hist, out[0], ans[:-1], idx, qsets[cfg.shape], judge)
        res.nontrivial.add(hash((cfg.key(), repr(hist))))
        lab = (labels or {}).get(id(hist))
        if lab:
            li = next(i for i, o in enumerate(hist) if o[0] == "setstore") + 1
            res.count(f"stream:ordered-reload:{cfg.shape}:{lab.split('@')[0]}:{out[0][li]['ret'] if out[0][li]['ret'].startswith('!') else 'loaded'}")
    k = len(jobs) // 2
    res.sample({"config": {"shape": jobs[k][0].shape, "async": jobs[k][0].is_async, "initial": jobs[k][0].initial}, "history": [list(o) for o in jobs[k][1][:6]]})


def ordered_reload_stream(ctx, res, deep):
    jobs, labels = ord_gen(ctx, deep)
    run_ord_configs(res, jobs, ord_judge_factory(), labels)


def ordering_failure_stream(ctx, res, deep):
    """failures raised WHILE ORDERING the delivered rules (a priority that cannot be compared with the others; a cycle in the
    subject hierarchy): judged on the implementation itself — everything observable must be as before the call"""
    import policy_corr as pc

    casbin = common.use_repo()
    rng = ctx["rng"]
    subs = ["alice", "bob", "admin", "root"]

    def observe(e, prio):
        reqs = [[s, o, "read"] for s in subs for o in ("data1", "data2")]
        out = {"p": [list(r) for r in e.get_policy()], "g": [list(r) for r in e.get_grouping_policy()], "dec": [], "roles": []}
        for r in reqs:
            try:
                out["dec"].append(bool(e.enforce(*r)))
            except Exception as ex:  # noqa
                out["dec"].append("!" + type(ex).__name__)
        for s in subs:
            out["roles"].append(sorted(e.get_roles_for_user(s)))
            out["roles"].append(sorted(e.get_users_for_role(s)))
        return out

    n = 120 if not deep else 1200
    for k in range(n):
        prio = k % 2 == 0
        text = PRIO_G if prio else SUBJ_G

        def prule(p, s, o, eft):
            return ([str(p)] if prio else []) + [s, o, "read", eft]

        good_p = [prule(rng.choice([1, 2, 10]), rng.choice(subs), rng.choice(["data1", "data2"]), rng.choice(["allow", "deny"])) for _ in range(rng.randint(1, 4))]
        good_p = [list(x) for x in {tuple(r) for r in good_p}]
        good_g = [list(x) for x in {(rng.choice(subs[:2]), rng.choice(subs[2:])) for _ in range(rng.randint(0, 3))}]
        new_g = [list(x) for x in {(rng.choice(subs[:3]), rng.choice(subs[1:])) for _ in range(rng.randint(1, 3))} if x[0] != x[1]]
        new_p = [prule(rng.choice([1, 3, 7]), rng.choice(subs), rng.choice(["data1", "data2"]), rng.choice(["allow", "deny"])) for _ in range(rng.randint(1, 4))]
        if prio:
            bad = list(rng.choice(new_p))
            bad[0] = rng.choice(["urgent", "high", "1.5"])
            new_p.insert(rng.randrange(len(new_p) + 1), bad)
        else:
            new_g = [["alice", "bob"], ["bob", "admin"], ["admin", "alice"]][: rng.randint(2, 3)] + [["admin", "alice"]]
        rules0 = [("p", "p", r) for r in good_p] + [("g", "g", r) for r in good_g]
        ad = pc.make_adapter(casbin, rules0)
        try:
            e = casbin.Enforcer(casbin.Enforcer.new_model(text=text), ad)
        except Exception:  # noqa  (the initial policy itself may contain a cycle: not this stream's subject)
            continue
        before = observe(e, prio)
        ad.rules = [("p", "p", r) for r in new_p] + [("g", "g", r) for r in new_g]
        raised = None
        try:
            e.load_policy()
        except Exception as ex:  # noqa
            raised = f"{type(ex).__name__}: {str(ex)[:60]}"
        res.evaluations += 1
        res.count("stream:ordering-failure:" + ("raised" if raised else "loaded"))
        res.nontrivial.add(hash(("ord", repr(good_p), repr(good_g), repr(new_p), repr(new_g))))
        if raised:
            after = observe(e, prio)
            if after != before:
                diff = next(kk for kk in before if before[kk] != after[kk])
                res.violation(
                    {
                        "signature": f"C11:ordering-failure:{'priority' if prio else 'subject-hierarchy'}:{diff}",
                        "what": f"load_policy raised while ordering the delivered rules ({raised}) but {diff} changed from {before[diff]} to {after[diff]}",
                        "case": {"text": text, "initial": {"p": good_p, "g": good_g}, "delivered": {"p": new_p, "g": new_g}},
                        "expected": before[diff],
                        "observed": after[diff],
                        "model_text": text,
                        "kind_of_case": "ordering-failure",
                    }
                )


def _file_case(args):
    """Enforcer on a policy FILE (FileAdapter / FilteredFileAdapter, after a full or a filtered load): load_policy fails
    because the file has gone, or because the file now holds a grouping line shorter than the role definition; everything
    observable (policy, decisions, role queries, is_filtered) must be as before the call"""
    import os
    import shutil
    import tempfile

    shape, adapter, pre, failure = args
    casbin = common.use_repo()
    from casbin.persist.adapters import FileAdapter, FilteredFileAdapter
    from casbin.persist.adapters.filtered_file_adapter import Filter

    P, G, G2, R = ec.universe(shape)
    d = tempfile.mkdtemp(prefix="c11f_")
    try:
        path = os.path.join(d, "policy.csv")
        good = "\n".join(", ".join(["p"] + r) for r in P) + "\n" + "\n".join(", ".join(["g"] + r) for r in G) + "\n"
        with open(path, "w") as f:
            f.write(good)
        e = casbin.Enforcer(casbin.Enforcer.new_model(text=ec.TEXT[shape]), (FilteredFileAdapter if adapter == "filtered" else FileAdapter)(path))
        e.enable_auto_save(False)
        if adapter == "filtered" and pre[0] in ("full", "remove"):
            e.load_policy()  # an enforcer built on a filtered adapter starts without a policy (is_filtered() = True)
        if pre[0] == "loadf":
            flt = Filter()
            flt.P, flt.G = list(pre[1]), list(pre[2])
            e.load_filtered_policy(flt)
        elif pre[0] == "remove":
            e.remove_grouping_policy(*G[0])
        cfg = ec.Config(shape, adapter=False)
        qs = ec.query_set(cfg)

        def observe():
            return {"p": [list(r) for r in e.get_policy()], "g": [list(r) for r in e.get_grouping_policy()], "answers": [ec.q_impl(e, q) for q in qs], "is_filtered": bool(e.is_filtered())}

        before = observe()
        if failure == "gone":
            os.replace(path, path + ".away")
        elif failure.startswith("badline"):
            # a line the loader cannot parse (a closing bracket without an opening one), after a prefix of good rules
            lines = good.splitlines()
            k = {"badline-first": 0, "badline-mid": len(P), "badline-last": len(lines)}[failure]
            with open(path, "w") as f:
                f.write("\n".join(lines[:k] + ["p, x), y, z"] + lines[k:]) + "\n")
        else:
            lines = good.splitlines()
            k = {"shortg-first": len(P), "shortg-last": len(lines), "shortg-only": 0}[failure]
            short = ", ".join(["g"] + G[0][:-1])
            with open(path, "w") as f:
                f.write("\n".join(([short] if failure == "shortg-only" else lines[:k] + [short] + lines[k:])) + "\n")
        raised = None
        try:
            e.load_policy()
        except Exception as ex:  # noqa
            raised = f"{type(ex).__name__}: {str(ex)[:60]}"
        return raised, before, observe()
    finally:
        shutil.rmtree(d, ignore_errors=True)


def file_failure_stream(ctx, res, deep):
    jobs = []
    for shape in ("rbac", "dom"):
        P, G, G2, R = ec.universe(shape)
        for failure in ("gone", "shortg-first", "shortg-last", "shortg-only", "badline-first", "badline-mid", "badline-last"):
            for pre in (("full",), ("remove",)):
                jobs.append((shape, "file", pre, failure))
                jobs.append((shape, "filtered", pre, failure))
            jobs.append((shape, "filtered", ("fresh",), failure))
            for pre in (("loadf", [P[0][0]], []), ("loadf", [], [G[0][0]]), ("loadf", [P[0][0]], [G[0][0]])):
                jobs.append((shape, "filtered", pre, failure))
    for job in jobs:
        shape, adapter, pre, failure = job
        raised, before, after = _file_case(job)
        res.evaluations += 1
        res.count("stream:file-failure:" + failure + (":raised" if raised else ":loaded"))
        res.nontrivial.add(hash(("file", repr(job))))
        if raised is None:
            res.violation({"signature": f"C11:file:{adapter}:{failure}:not-raised", "stream": "file-failure", "job": list(job), "what": f"{shape}, {adapter} adapter, {pre}: load_policy of an unreadable / unusable file ({failure}) did not raise", "expected": "raises", "observed": "returned"})
            continue
        if before != after:
            diff = next(k for k in before if before[k] != after[k])
            kind = "roleDefinition" if failure.startswith("shortg") else failure.split("-")[0]
            res.violation({"signature": f"C11:file:{adapter}:{kind}:{diff}", "stream": "file-failure", "job": [shape, adapter, list(pre), failure],
                           "what": f"{shape} model, {adapter} file adapter, state {list(pre)}: load_policy raised ({raised}; failure {failure}) but {diff} changed from {before[diff]} to {after[diff]}",
                           "expected": before[diff], "observed": after[diff]})


def run(ctx):
    res = common.Result()
    stages = [False] if not ctx["deep"] else ([True] if ctx["proof_ok"] else [False, True])
    for deep in stages:
        ec.run_configs(res, gen(ctx, deep), judge_factory(), fresh_oracle=True)
        ordered_reload_stream(ctx, res, deep)
        ordering_failure_stream(ctx, res, deep)
        file_failure_stream(ctx, res, deep)
        if res.spec_violations:
            break
    res.rule = (
        "RBAC and domain models, Enforcer and AsyncEnforcer, 3 initial policies x 5 adapter stores (two containing a grouping rule shorter than the "
        "role definition at different positions) x EVERY failure point k = 0..n of the delivering adapter (and no failure), preceded by 0-2 and "
        "followed by 3 random management calls; after every call policy and ~40 queries are compared with the state before (failed reload), "
        "with a fresh enforcer (successful reload, later use) and with the Lean model; ORDERED-RELOAD stream (driver family enfo, Lean loadOrd): explicit-priority and subject-priority RBAC models, Enforcer and AsyncEnforcer, 2-3 initial policies x stores that order fine (permutations, ties, all-string priorities, leading zeros, a third grouping field read as a domain) / fail to order with the offending rule at EVERY position (non-numeric priority among numeric ones, rule without priority field, rule without subject, grouping rule with < 2 fields, 1-/2-/3-cycles in the subject hierarchy), also combined with a short grouping rule and with adapter failure points k, preceded by 0-2 and followed by 2 management calls: results (exception kind), policies IN ORDER, adapter calls, ~40 decisions (priority effect) and role queries compared with the Lean model, with the state before (failed) and with the order demanded by an independent stable sort (successful), ordering step model vs mergeSort spec; ordering-failure stream and file-failure stream (file gone / unparsable line after a prefix of good ones / short grouping line, FileAdapter and FilteredFileAdapter in 6 states) judged before = after incl. is_filtered(); non-trivial/distinct = (configuration, history)"
    )
    res.exhaustive = True
    return res


def replay(obj):
    if obj.get("stream") == "file-failure":
        j = obj["job"]
        raised, before, after = _file_case((j[0], j[1], tuple(j[2]), j[3]))
        return raised is None or before != after
    if obj.get("kind_of_case") == "ordering-failure":
        import policy_corr as pc

        casbin = common.use_repo()
        c = obj["case"]
        ad = pc.make_adapter(casbin, [("p", "p", r) for r in c["initial"]["p"]] + [("g", "g", r) for r in c["initial"]["g"]])
        e = casbin.Enforcer(casbin.Enforcer.new_model(text=c["text"]), ad)
        before = ([list(r) for r in e.get_policy()], [list(r) for r in e.get_grouping_policy()], [sorted(e.get_roles_for_user(s)) for s in ("alice", "bob", "admin", "root")])
        ad.rules = [("p", "p", r) for r in c["delivered"]["p"]] + [("g", "g", r) for r in c["delivered"]["g"]]
        try:
            e.load_policy()
            return False
        except Exception:  # noqa
            pass
        after = ([list(r) for r in e.get_policy()], [list(r) for r in e.get_grouping_policy()], [sorted(e.get_roles_for_user(s)) for s in ("alice", "bob", "admin", "root")])
        return before != after
    case = obj["case"]
    c = case["config"]
    ordered = c["shape"] in ORD_SHAPES
    cfg = OrdConfig(c["shape"], c["initial"], c.get("async", False)) if ordered else ec.Config(c["shape"], adapter=c["adapter"], watcher=c["watcher"], initial=c["initial"], is_async=c.get("async", False))
    hist = []
    for o in case["history"]:
        hist.append(tuple(o))
    r = common.Result()
    j = ord_judge_factory() if ordered else judge_factory()
    qs = ord_query_set(cfg) if ordered else ec.query_set(cfg)
    out = ec.run_history(cfg, hist, qs, fresh_oracle=True)
    for rec in out:
        if ordered:
            rec["ret"] = ord_norm_ret(rec["ret"])
    for i, (op, rec) in enumerate(zip(hist, out)):
        j(r, cfg, hist, i, op, rec, None, case, qs)
    return bool(r.spec_violations)
